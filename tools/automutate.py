#!/usr/bin/env python3
"""Automatic mutation sampling of the functions each property is anchored in (sensitivity measurement).

usage: tools/automutate.py list <ID>                  -> number of mutation sites per function / operator
       tools/automutate.py run <ID> [--n N] [--seed S] [--only i,j,..] [--tier quick] [--shards K]
                                                       -> samples N sites (stratified over functions and operators),
                                                          runs ./check <ID> against a scratch copy of /repo/src holding
                                                          each mutant (fail-fast), writes mutants/auto/<ID>.json
       tools/automutate.py show <ID> [status]          -> prints the recorded mutants with the given status

A mutant = one AST edit inside one anchored function (tools/automutate_targets.json): comparison boundary / negation,
arithmetic operator swap, integer constant +-1, boolean constant flip, and/or swap, `not` removed, unary minus removed,
slice bound or step dropped, keyword argument dropped, if-condition negated, statement deleted. The mutated module is
written with ast.unparse (comments lost, semantics kept) into a copy under /dev/shm that is removed afterwards.
status: killed (exit 1 with a VIOLATION line), survived (exit 0), harness (exit 2: the check itself broke - to be
fixed, a mutant must turn into a VIOLATION, not into a harness error), invalid (mutated module does not import).
Survivors are triaged by hand into equivalent / outside the property / gap (see DESIGN.md section 8.6).
"""
import ast
import copy
import json
import os
import random
import shutil
import subprocess
import sys
import tempfile
import time
from pathlib import Path

V = Path(__file__).resolve().parent.parent
REPO_SRC = Path("/repo/src")
TARGETS = json.loads((V / "tools" / "automutate_targets.json").read_text())

SKIP_CALLS = {"warning", "info", "debug", "error", "warn", "print", "tqdm", "critical", "set_description"}


def _functions(tree, names):
    """yield (qualified name, node) for every function whose qualified name (Class.func or func) is in names;
    the name 'Class.*' selects every method of the class; 'outer.inner' nested functions are reached through outer."""
    out = []

    def visit(node, prefix):
        for ch in ast.iter_child_nodes(node):
            if isinstance(ch, (ast.FunctionDef, ast.AsyncFunctionDef)):
                q = prefix + ch.name
                cls = prefix[:-1] if prefix else None
                if q in names or (cls and f"{cls}.*" in names):
                    out.append((q, ch))
                else:
                    visit(ch, q + ".")
            elif isinstance(ch, ast.ClassDef):
                visit(ch, prefix + ch.name + ".")
    visit(tree, "")
    return out


def _is_docstring(stmt):
    return isinstance(stmt, ast.Expr) and isinstance(stmt.value, ast.Constant) and isinstance(stmt.value.value, str)


def _skippable_stmt(stmt):
    """logging / warnings / asserts with messages / raise statements: not behaviour the properties speak about"""
    if isinstance(stmt, (ast.Raise, ast.Assert, ast.Import, ast.ImportFrom, ast.Global, ast.Nonlocal, ast.Pass)):
        return True
    if isinstance(stmt, ast.Expr) and isinstance(stmt.value, ast.Call):
        f = stmt.value.func
        name = f.attr if isinstance(f, ast.Attribute) else getattr(f, "id", "")
        if name in SKIP_CALLS:
            return True
    return _is_docstring(stmt)


class Site:
    def __init__(self, func, op, lineno, desc, apply):
        self.func, self.op, self.lineno, self.desc, self.apply = func, op, lineno, desc, apply


CMP = {ast.Lt: ast.LtE, ast.LtE: ast.Lt, ast.Gt: ast.GtE, ast.GtE: ast.Gt, ast.Eq: ast.NotEq, ast.NotEq: ast.Eq,
       ast.Is: ast.IsNot, ast.IsNot: ast.Is, ast.In: ast.NotIn, ast.NotIn: ast.In}
BIN = {ast.Add: ast.Sub, ast.Sub: ast.Add, ast.Mult: ast.Div, ast.Div: ast.Mult, ast.FloorDiv: ast.Mult,
       ast.Mod: ast.FloorDiv}


def _sites_in_function(qname, fn):
    """enumerate mutation sites; each site's `apply(node_copy_root, path)` is realised by re-walking with an index"""
    sites = []
    counter = [0]

    def add(op, node, desc):
        sites.append((op, counter[0], getattr(node, "lineno", fn.lineno), desc))
        counter[0] += 1

    for node in _walk(fn):
        for op, desc in _node_mutations(node):
            add(op, node, desc)
    return sites


def _walk(fn):
    """deterministic pre-order walk over the function body, skipping docstrings, logging calls, raises, asserts,
    f-strings and nested string constants"""
    stack = list(reversed(fn.body))
    while stack:
        node = stack.pop()
        if isinstance(node, ast.stmt) and _skippable_stmt(node):
            continue
        if isinstance(node, ast.JoinedStr):
            continue
        if isinstance(node, ast.Call):
            f = node.func
            name = f.attr if isinstance(f, ast.Attribute) else getattr(f, "id", "")
            if name in SKIP_CALLS:
                continue
        yield node
        stack.extend(reversed(list(ast.iter_child_nodes(node))))


def _node_mutations(node):
    """list of (operator name, description) available at this node, in a fixed order"""
    out = []
    if isinstance(node, ast.Compare):
        for i, o in enumerate(node.ops):
            if type(o) in CMP:
                out.append((f"cmp{i}", f"{type(o).__name__}->{CMP[type(o)].__name__}"))
    elif isinstance(node, ast.BinOp) and type(node.op) in BIN:
        if not (isinstance(node.op, ast.Mod) and isinstance(node.left, ast.Constant) and isinstance(node.left.value, str)):
            out.append(("binop", f"{type(node.op).__name__}->{BIN[type(node.op)].__name__}"))
    elif isinstance(node, ast.AugAssign) and type(node.op) in BIN:
        out.append(("augop", f"{type(node.op).__name__}->{BIN[type(node.op)].__name__}"))
        out.append(("delstmt", "statement deleted"))
    elif isinstance(node, ast.BoolOp):
        out.append(("boolop", "and<->or"))
    elif isinstance(node, ast.UnaryOp) and isinstance(node.op, (ast.Not, ast.USub)):
        out.append(("unary", f"{type(node.op).__name__} removed"))
    elif isinstance(node, ast.Constant):
        v = node.value
        if isinstance(v, bool):
            out.append(("const_bool", f"{v}->{not v}"))
        elif isinstance(v, int) and abs(v) <= 4096:
            out.append(("const_plus", f"{v}->{v + 1}"))
            out.append(("const_minus", f"{v}->{v - 1}"))
        elif isinstance(v, float):
            out.append(("const_float", f"{v}->{v * 1.25 if v else 0.5}"))
    elif isinstance(node, ast.Slice):
        if node.lower is not None:
            out.append(("slice_lower", "lower bound dropped"))
        if node.upper is not None:
            out.append(("slice_upper", "upper bound dropped"))
        if node.step is not None:
            out.append(("slice_step", "step dropped"))
    elif isinstance(node, ast.Call):
        for i, kw in enumerate(node.keywords):
            if kw.arg is not None:
                out.append((f"kwdrop{i}", f"keyword {kw.arg}= dropped"))
    elif isinstance(node, (ast.If, ast.While)):
        out.append(("negcond", "condition negated"))
    elif isinstance(node, ast.IfExp):
        out.append(("negcond", "conditional expression negated"))
    elif isinstance(node, (ast.Assign, ast.Expr)):
        if isinstance(node, ast.Expr) or all(isinstance(t, (ast.Subscript, ast.Attribute)) for t in node.targets):
            out.append(("delstmt", "statement deleted"))
    return out


def _apply(node, op):
    """mutate `node` in place according to operator `op`; returns replacement node (or None = same node)"""
    if op.startswith("cmp"):
        i = int(op[3:])
        node.ops[i] = CMP[type(node.ops[i])]()
    elif op in ("binop", "augop"):
        node.op = BIN[type(node.op)]()
    elif op == "boolop":
        node.op = ast.Or() if isinstance(node.op, ast.And) else ast.And()
    elif op == "unary":
        return node.operand
    elif op == "const_bool":
        node.value = not node.value
    elif op == "const_plus":
        node.value = node.value + 1
    elif op == "const_minus":
        node.value = node.value - 1
    elif op == "const_float":
        node.value = node.value * 1.25 if node.value else 0.5
    elif op == "slice_lower":
        node.lower = None
    elif op == "slice_upper":
        node.upper = None
    elif op == "slice_step":
        node.step = None
    elif op.startswith("kwdrop"):
        del node.keywords[int(op[6:])]
    elif op == "negcond":
        node.test = ast.UnaryOp(op=ast.Not(), operand=node.test)
    elif op == "delstmt":
        return ast.Pass()
    return None


class _Replacer(ast.NodeTransformer):
    def __init__(self, target, replacement):
        self.target, self.replacement = target, replacement

    def visit(self, node):
        if node is self.target:
            return self.replacement
        return self.generic_visit(node)


def enumerate_sites(pid):
    """[(file, qualified function, operator, index within function, lineno, description)]"""
    out = []
    for rel, names in TARGETS[pid].items():
        tree = ast.parse((REPO_SRC / rel).read_text())
        for q, fn in _functions(tree, set(names)):
            for op, idx, lineno, desc in _sites_in_function(q, fn):
                out.append({"file": rel, "func": q, "op": op, "idx": idx, "lineno": lineno, "desc": desc})
    return out


def build_mutant(site):
    """returns (mutated module source, original source segment, mutated segment)"""
    src = (REPO_SRC / site["file"]).read_text()
    tree = ast.parse(src)
    cls = site["func"].rsplit(".", 1)[0] + ".*" if "." in site["func"] else None
    (q, fn), = [x for x in _functions(tree, {site["func"], cls}) if x[0] == site["func"]]
    k = 0
    for node in _walk(fn):
        for op, desc in _node_mutations(node):
            if k == site["idx"]:
                assert op == site["op"], (op, site)
                # the enclosing statement, for the report
                before = ast.unparse(_enclosing_stmt(fn, node))
                rep = _apply(node, op)
                if rep is not None:
                    _Replacer(node, rep).visit(fn)
                ast.fix_missing_locations(tree)
                after = ast.unparse(_enclosing_stmt(fn, rep if rep is not None else node, fallback=before))
                return ast.unparse(tree), before, after
            k += 1
    raise KeyError(site)


def TARGETS_ALL(rel):
    names = set()
    for pid, d in TARGETS.items():
        names.update(d.get(rel, []))
    return names


def _enclosing_stmt(fn, node, fallback=None):
    best = None
    for st in ast.walk(fn):
        if isinstance(st, ast.stmt) and st is not fn:
            for sub in ast.walk(st):
                if sub is node:
                    if best is None or len(ast.unparse(st)) < len(ast.unparse(best)):
                        best = st
    if best is None:
        return ast.parse(fallback or "pass").body[0]
    # for compound statements report the header only
    if isinstance(best, (ast.If, ast.While, ast.For, ast.With, ast.Try)):
        c = copy.copy(best)
        c.body = [ast.Pass()]
        if hasattr(c, "orelse"):
            c.orelse = []
        if isinstance(c, ast.Try):
            return best
        return c
    return best


def sample_sites(sites, n, seed):
    """stratified: round-robin over (function, operator family) buckets, deterministic"""
    rng = random.Random(seed)
    buckets = {}
    for s in sites:
        fam = s["op"].rstrip("0123456789")
        buckets.setdefault((s["file"], s["func"], fam), []).append(s)
    keys = sorted(buckets)
    for k in keys:
        rng.shuffle(buckets[k])
    rng.shuffle(keys)
    out = []
    while len(out) < n and any(buckets[k] for k in keys):
        for k in keys:
            if buckets[k] and len(out) < n:
                out.append(buckets[k].pop())
    return out


def run_one(pid, site, tier, shards, extra_env=None):
    base = "/dev/shm" if os.access("/dev/shm", os.W_OK) else None
    tmp = Path(tempfile.mkdtemp(prefix="vp_am_", dir=base))
    t0 = time.time()
    try:
        try:
            msrc, before, after = build_mutant(site)
        except Exception as e:  # noqa
            return {"status": "invalid", "detail": f"build: {e!r}"}
        if before == after:
            return {"status": "invalid", "detail": "no textual change", "before": before, "after": after}
        shutil.copytree(REPO_SRC, tmp / "src", ignore=shutil.ignore_patterns("__pycache__", "tests"))
        (tmp / "src" / site["file"]).write_text(msrc)
        env = dict(os.environ, VP_REPO_SRC=str(tmp / "src"), VP_OUT=str(tmp / "out"), VP_FAILFAST_FLAG=str(tmp / "flag"),
                   VP_SHARDS=str(shards), VP_CASE_TIMEOUT="60", VP_MEMLIMIT_GB="12")
        env.update(extra_env or {})
        # does the mutated module import at all?
        mod = site["file"][:-3].replace("/", ".")
        r = subprocess.run(["/venv/bin/python", "-c", f"import {mod}"], env=dict(env, PYTHONPATH=str(tmp / "src")),
                           capture_output=True, text=True)
        if r.returncode != 0:
            return {"status": "invalid", "detail": r.stderr[-300:], "before": before, "after": after}
        try:
            r = subprocess.run([str(V / "check"), pid, "--tier", tier], env=env, capture_output=True, text=True, timeout=1500)
        except subprocess.TimeoutExpired:
            subprocess.run(["pkill", "-f", str(tmp)], capture_output=True)
            return {"status": "timeout", "before": before, "after": after, "wall_s": round(time.time() - t0, 1)}
        kinds = [l.split("kind=")[1].split(" msg=")[0] for l in r.stdout.splitlines() if l.startswith("  finding kind=")]
        status = {0: "survived", 1: "killed", 2: "harness"}.get(r.returncode, f"exit{r.returncode}")
        res = {"status": status, "before": before, "after": after, "kinds": kinds[:6], "wall_s": round(time.time() - t0, 1)}
        if status == "harness":
            res["detail"] = r.stdout[-1500:]
        return res
    finally:
        shutil.rmtree(tmp, ignore_errors=True)


def main():
    cmd, pid = sys.argv[1], sys.argv[2]
    args = sys.argv[3:]

    def opt(name, default):
        return args[args.index(name) + 1] if name in args else default
    out_file = V / "mutants" / "auto" / f"{pid}.json"
    if cmd == "list":
        sites = enumerate_sites(pid)
        cnt = {}
        for s in sites:
            k = (s["file"], s["func"])
            cnt[k] = cnt.get(k, 0) + 1
        for k, v in sorted(cnt.items()):
            print(f"{v:5d}  {k[0]}:{k[1]}")
        print(f"{len(sites)} sites")
    elif cmd == "run":
        n, seed = int(opt("--n", "25")), int(opt("--seed", "1"))
        tier, shards = opt("--tier", "quick"), int(opt("--shards", "16"))
        sites = enumerate_sites(pid)
        chosen = sample_sites(sites, n, seed)
        prev = json.loads(out_file.read_text()) if out_file.exists() else {"property": pid, "mutants": []}
        done = {(m["file"], m["func"], m["op"], m["idx"]) for m in prev["mutants"]}
        for s in chosen:
            key = (s["file"], s["func"], s["op"], s["idx"])
            if key in done:
                continue
            res = run_one(pid, s, tier, shards)
            rec = dict(s, **res, tier=tier, repo_head=_head())
            prev["mutants"].append(rec)
            print(f"{res['status']:9s} {s['file']}:{s['func']}:{s['lineno']} {s['op']} [{s['desc']}] "
                  f"{res.get('before', '')[:70]!r} -> {res.get('after', '')[:70]!r} {res.get('kinds', '')}", flush=True)
            out_file.parent.mkdir(parents=True, exist_ok=True)
            prev["n_sites_total"] = len(sites)
            out_file.write_text(json.dumps(prev, indent=1))
        st = {}
        for m in prev["mutants"]:
            st[m["status"]] = st.get(m["status"], 0) + 1
        print(pid, st)
    elif cmd == "rerun":
        # re-run the recorded mutants of the given statuses (default: survived, harness, timeout) against the current check
        want = set(args[0].split(",")) if args and not args[0].startswith("--") else {"survived", "harness", "timeout"}
        tier, shards = opt("--tier", "quick"), int(opt("--shards", "16"))
        prev = json.loads(out_file.read_text())
        for m in prev["mutants"]:
            if m["status"] not in want or m.get("triage", "").startswith("equivalent"):
                continue
            if "--older-head" in args and m.get("repo_head") == _head():
                continue  # recorded against the current repository head already
            site = {k: m[k] for k in ("file", "func", "op", "idx", "lineno", "desc")}
            try:
                _, before, _ = build_mutant(site)
            except Exception:  # noqa
                before = None
            if before != m.get("before"):
                m["status"], m["note"] = "stale", "the source changed since this mutant was recorded"
                print(f"stale     {m['file']}:{m['func']}:{m['lineno']} {m['op']}", flush=True)
            else:
                res = run_one(pid, site, tier, shards)
                old = m["status"]
                m.update(res)
                m["repo_head"] = _head()
                print(f"{old:9s}-> {res['status']:9s} {m['file']}:{m['func']}:{m['lineno']} {m['op']} [{m['desc']}] {res.get('kinds', '')}", flush=True)
            out_file.write_text(json.dumps(prev, indent=1))
    elif cmd == "show":
        want = args[0] if args else None
        prev = json.loads(out_file.read_text())
        for m in prev["mutants"]:
            if want is None or m["status"] == want:
                print(f"--- {m['status']} {m['file']}:{m['func']}:{m['lineno']} {m['op']} [{m['desc']}] triage={m.get('triage', '')}")
                print("   - " + m.get("before", "").replace("\n", "\n     "))
                print("   + " + m.get("after", "").replace("\n", "\n     "))


def _head():
    return subprocess.run(["git", "-C", "/repo", "rev-parse", "--short", "HEAD"], capture_output=True, text=True).stdout.strip()


if __name__ == "__main__":
    main()
