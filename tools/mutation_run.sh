#!/bin/bash
# tools/mutation_run.sh <ID> <patch file (paths relative to the repository root)> [check args...]
# Applies the patch to a scratch copy of /repo/src (outside /repo and /verif), runs the check against it with
# VP_REPO_SRC, prints the check's exit code, removes the copy. Evidence/replays of the run go to the scratch dir.
ID="$1"; PATCH="$(readlink -f "$2")"; shift 2
DIR="$(cd "$(dirname "${BASH_SOURCE[0]}")/.." && pwd)"
BASE=/dev/shm; [ -w "$BASE" ] || BASE=/tmp
TMP="$(mktemp -d "$BASE/vp_mut_XXXXXX")"
trap 'rm -rf "$TMP"' EXIT
mkdir -p "$TMP/repo" && cp -r /repo/src "$TMP/repo/src" || exit 2
( cd "$TMP/repo" && patch -p1 --quiet < "$PATCH" ) || { echo "PATCH-FAILED $PATCH"; exit 2; }
find "$TMP/repo" -name '*.orig' -delete
# sensitivity runs stop at the first violation unless MUT_FULL=1 (then every root cause is searched and shrunk)
[ -n "$MUT_FULL" ] || export VP_FAILFAST_FLAG="$TMP/flag"
VP_REPO_SRC="$TMP/repo/src" VP_OUT="$TMP/out" "$DIR/check" "$ID" "$@" | sed "s#$TMP#<scratch>#g" | grep -v "^  finding" | head -20
rc=${PIPESTATUS[0]}
echo "mutant=$(basename "$PATCH") check=$ID exit=$rc"
exit 0
