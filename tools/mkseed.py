#!/usr/bin/env python3
"""tools/mkseed.py <ID> <n> [extra text]  -> creates worktree /tmp/seed_<ID>_<n> and prints the agent prompt path."""
import json, subprocess, sys
from pathlib import Path
V = Path(__file__).resolve().parent.parent
pid, n = sys.argv[1], sys.argv[2]
extra = sys.argv[3] if len(sys.argv) > 3 else ""
props = {json.loads(l)["id"]: json.loads(l) for l in (V / "properties.jsonl").read_text().splitlines() if l.strip()}
p = props[pid]
tag = f"seed_{pid}_{n}"
wt = f"/tmp/{tag}"
subprocess.run(["git", "-C", "/repo", "worktree", "add", "--detach", wt, "HEAD"], check=True, capture_output=True)
s = (V / "tools" / "prompts" / "seed_prompt.txt").read_text()
s = (s.replace("@@WT@@", wt).replace("@@TAG@@", tag).replace("@@ID@@", pid).replace("@@TITLE@@", p["title"])
     .replace("@@STATEMENT@@", p["statement"]).replace("@@QUANT@@", p["quantifier"]["text"]).replace("@@EXTRA@@", extra))
out = Path(f"/tmp/{tag}_prompt.txt")
out.write_text(s)
print(out)
