#!/bin/bash
# Runs the repository's pinned test suite (guard off: no hook exists) and compares the passed set with BASELINE.json.
OUT=$(mktemp /tmp/vp_junit_XXXX.xml)
cd /repo && env -u IBL_NEUROPIXEL_VERIF /venv/bin/python -m pytest -ra -q -p no:cacheprovider --timeout=900 --continue-on-collection-errors --junitxml=$OUT > /tmp/vp_baseline.log 2>&1
python3 - "$OUT" <<'PY'
import json, sys, xml.etree.ElementTree as ET
base = json.load(open('/root/.vp/BASELINE.json'))
want = set(base['stable_pass'])
passed = set()
for tc in ET.parse(sys.argv[1]).getroot().iter('testcase'):
    if not any(c.tag in ('failure', 'error', 'skipped') for c in tc):
        passed.add(f"{tc.get('classname')}::{tc.get('name')}")
missing = sorted(want - passed)
print(f"stable_pass expected {len(want)}, of which passing now {len(want & passed)}")
for m in missing:
    print("  NOT PASSING:", m)
sys.exit(1 if missing else 0)
PY
rc=$?
rm -f $OUT
exit $rc
