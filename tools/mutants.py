#!/usr/bin/env python3
"""Hand-written mutants (property-breaking edits that keep the repo's tests green), used for sensitivity runs.

mutants/specs/<ID>.json: [{"name": "C01/gain_unpermuted", "property": "C01", "file": "src/spikeglx.py",
                      "old": "...", "new": "...", "note": "..."}]
usage: tools/mutants.py build            -> writes mutants/<name>.patch (unified diff against /repo)
       tools/mutants.py run [ID ...] [--tier quick] [--cases N] -> runs each mutant of the given properties through
                                            tools/mutation_run.sh and prints a table (exit 1 expected = caught)
"""
import difflib
import json
import subprocess
import sys
from pathlib import Path

V = Path(__file__).resolve().parent.parent
REPO = Path("/repo")


def _specs():
    out = []
    for f in sorted((V / "mutants" / "specs").glob("*.json")):
        out.extend(json.loads(f.read_text()))
    return out


def build():
    specs = _specs()
    for s in specs:
        src = (REPO / s["file"]).read_text()
        if s["old"] not in src:
            print(f"!! {s['name']}: 'old' text not found in {s['file']}")
            continue
        new = src.replace(s["old"], s["new"], 1)
        diff = difflib.unified_diff(src.splitlines(True), new.splitlines(True), f"a/{s['file']}", f"b/{s['file']}")
        out = V / "mutants" / (s["name"] + ".patch")
        out.parent.mkdir(parents=True, exist_ok=True)
        out.write_text("".join(diff))
    print(f"{len(specs)} mutants built")


def run(ids, extra):
    specs = _specs()
    rows = []
    for s in specs:
        if ids and s["property"] not in ids:
            continue
        patch = V / "mutants" / (s["name"] + ".patch")
        r = subprocess.run([str(V / "tools" / "mutation_run.sh"), s["property"], str(patch), *extra],
                           capture_output=True, text=True)
        last = [l for l in r.stdout.splitlines() if l.startswith("mutant=")]
        viol = [l for l in r.stdout.splitlines() if l.startswith("VIOLATION")]
        status = last[-1].split("exit=")[-1] if last else "?"
        rows.append((s["name"], status, len(viol)))
        print(f"{s['name']:45s} exit={status} violations={len(viol)}", flush=True)
        if status not in ("1",):
            print(r.stdout[-1500:])
    missed = [r for r in rows if r[1] != "1"]
    print(f"caught {len(rows) - len(missed)}/{len(rows)}")
    return 1 if missed else 0


if __name__ == "__main__":
    if sys.argv[1] == "build":
        build()
    else:
        args = sys.argv[2:]
        ids = [a for a in args if a.startswith("C") and len(a) <= 4]
        extra = [a for a in args if a not in ids]
        sys.exit(run(ids, extra))
