#!/bin/bash
# tools/seed_verify.sh <seed dir containing patch.diff + demo.py> <ID> [--no-suite] [check args...]
# Confirms an independently written breaking change: (1) demo exits 0 on the current tree and non-zero with the patch,
# (2) the repository suite passes as in BASELINE.json with the patch, (3) runs ./check <ID> against the patched copy.
SD="$(readlink -f "$1")"; ID="$2"; shift 2
NOSUITE=0; if [ "$1" == "--no-suite" ]; then NOSUITE=1; shift; fi
DIR="$(cd "$(dirname "${BASH_SOURCE[0]}")/.." && pwd)"
TMP="$(mktemp -d /dev/shm/vp_seed_XXXXXX)"
trap 'rm -rf "$TMP"' EXIT
mkdir -p "$TMP/repo" && cp -r /repo/src /repo/setup.py /repo/README.md /repo/requirements.txt "$TMP/repo/" 2>/dev/null
( cd "$TMP/repo" && patch -p1 --quiet < "$SD/patch.diff" ) || { echo "PATCH-FAILED"; exit 2; }
find "$TMP/repo" -name '*.orig' -delete
if [ -n "$SEED_FAST" ]; then
  # re-verification of an already confirmed change against changed CHECKS: the demonstration is not repeated (rc = "-"),
  # and the check stops at its first violation
  rc0=-; rc1=-
  export VP_FAILFAST_FLAG="$TMP/flag"
else
echo "== demo on current tree"
( cd /tmp && PYTHONPATH=/repo/src timeout 900 /venv/bin/python "$SD/demo.py" > "$TMP/demo_clean.log" 2>&1 ); rc0=$?
echo "   exit=$rc0"
echo "== demo with patch"
( cd /tmp && PYTHONPATH="$TMP/repo/src" timeout 900 /venv/bin/python "$SD/demo.py" > "$TMP/demo_patched.log" 2>&1 ); rc1=$?
echo "   exit=$rc1"; tail -3 "$TMP/demo_patched.log" | sed 's/^/   | /'
fi
if [ $NOSUITE == 0 ]; then
  echo "== repository suite with patch"
  mkdir -p "$TMP/tmpdir"
  ( cd "$TMP/repo" && TMPDIR="$TMP/tmpdir" PYTHONPATH="$TMP/repo/src" /venv/bin/python -m pytest -q -p no:cacheprovider --timeout=900 --continue-on-collection-errors --junitxml="$TMP/junit.xml" src/tests > "$TMP/suite.log" 2>&1 )
  python3 - "$TMP/junit.xml" <<'PY'
import json, sys, xml.etree.ElementTree as ET
want = set(json.load(open('/root/.vp/BASELINE.json'))['stable_pass'])
passed = set()
for tc in ET.parse(sys.argv[1]).getroot().iter('testcase'):
    if not any(c.tag in ('failure', 'error', 'skipped') for c in tc):
        passed.add(f"{tc.get('classname')}::{tc.get('name')}")
missing = sorted(want - passed)
print(f"   stable_pass {len(want & passed)}/{len(want)}" + ("" if not missing else f"  NOT PASSING: {missing}"))
PY
fi
echo "== ./check $ID against the patched copy"
VP_REPO_SRC="$TMP/repo/src" VP_OUT="$TMP/out" "$DIR/check" "$ID" "$@" | sed "s#$TMP#<scratch>#g" | grep -v "^  finding" | head -12
echo "check_exit=${PIPESTATUS[0]} demo_clean=$rc0 demo_patched=$rc1"
