#!/usr/bin/env python3
"""Regenerates MANIFEST.json from the check modules present in vp/checks and tools/manifest_meta.json."""
import json
from pathlib import Path
V = Path(__file__).resolve().parent.parent
meta = json.loads((V / "tools" / "manifest_meta.json").read_text())
props = [json.loads(l) for l in (V / "properties.jsonl").read_text().splitlines() if l.strip()]
checks, na = [], []
for p in props:
    pid = p["id"]
    m = meta["checks"].get(pid)
    if m and (V / "vp" / "checks" / f"{pid.lower()}.py").exists() and not m.get("disabled"):
        checks.append({
            "property_id": pid,
            "quick_cmd": f"./check {pid} --tier quick",
            "thorough_cmd": f"./check {pid} --tier thorough",
            "evidence_file": f"evidence/{pid}.json",
            "replay_cmd_template": f"./check {pid} --replay {{path}}",
            "engine": "hypothesis-driver",
            "level_claimed": {"category": m["level"], "text": m["text"], "design_ref": f"DESIGN.md section 4, {pid}"},
            "level_note": m["note"],
            "technique": m["technique"],
        })
    else:
        na.append({"property_id": pid, "reason": (m or {}).get("na_reason", "check not built yet (work in progress); "
                   "property-based testing applies, see DESIGN.md section 4")})
man = {
    "version": 1,
    "setup_cmd": meta["setup_cmd"],
    "hooks": meta["hooks"],
    "engines": meta["engines"],
    "checks": checks,
    "notes": meta["notes"],
    "not_applicable": na,
}
(V / "MANIFEST.json").write_text(json.dumps(man, indent=1) + "\n")
print(f"{len(checks)} checks, {len(na)} not_applicable")
