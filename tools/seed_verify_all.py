#!/usr/bin/env python3
"""tools/seed_verify_all.py [ID ...] [--update-meta]  - runs tools/seed_verify.sh --no-suite for every seeded change
(seeded/<ID>/<n>/) against the CURRENT checks and prints one line per seed; writes seeded/STATUS.json
({seed: {check_exit, demo_clean, demo_patched, kinds}}). With --update-meta the result is also recorded in each meta.json
under "verified_by_main_session" (keeping a hand-written "check" note if it starts with MISSED)."""
import json
import re
import subprocess
import sys
from pathlib import Path

V = Path(__file__).resolve().parent.parent
args = [a for a in sys.argv[1:] if not a.startswith("--")]
update = "--update-meta" in sys.argv
status_file = V / "seeded" / "STATUS.json"
status = json.loads(status_file.read_text()) if status_file.exists() else {}
for d in sorted((V / "seeded").glob("C*/*/")):
    pid, n = d.parent.name, d.name
    if args and pid not in args and f"{pid}/{n}" not in args:
        continue
    if not (d / "patch.diff").exists():
        continue
    r = subprocess.run([str(V / "tools" / "seed_verify.sh"), str(d), pid, "--no-suite"], capture_output=True, text=True)
    txt = r.stdout
    ex = re.search(r"check_exit=(\d+) demo_clean=(\d+|-) demo_patched=(\d+|-)", txt)
    kinds = sorted(set(re.findall(r"replays/C\d\d/(.+?)-[0-9a-f]{16}\.json", txt)))
    if not ex:
        print(f"{pid}/{n}: ?? {txt[-300:]}")
        continue
    status = json.loads(status_file.read_text()) if status_file.exists() else {}   # other instances may run in parallel
    prev = status.get(f"{pid}/{n}", {})
    if ex.group(2) == "-":    # SEED_FAST: demonstration results are those of the earlier full verification
        if "demo_clean" not in prev:
            print(f"{pid}/{n}: no earlier full verification on record - run without SEED_FAST")
            continue
        dc, dp = prev["demo_clean"], prev["demo_patched"]
    else:
        dc, dp = int(ex.group(2)), int(ex.group(3))
    rec = {"check_exit": int(ex.group(1)), "demo_clean": dc, "demo_patched": dp, "kinds": kinds}
    status[f"{pid}/{n}"] = rec
    ok = rec["check_exit"] == 1 and rec["demo_clean"] == 0 and rec["demo_patched"] != 0
    print(f"{pid}/{n}: {'caught' if ok else 'ATTENTION'} {rec}", flush=True)
    status_file.write_text(json.dumps(status, indent=1, sort_keys=True))
    if update:
        mp = d / "meta.json"
        meta = json.loads(mp.read_text())
        v = meta.get("verified_by_main_session", {})
        note = v.get("check", "")
        v.update({"demo_on_current_tree_exit": rec["demo_clean"], "demo_with_patch_exit": rec["demo_patched"],
                  "check_now": f"./check {pid} (quick tier) against the patched copy -> exit {rec['check_exit']}; kinds: {', '.join(kinds)}"})
        if not note:
            v["check"] = v["check_now"]
        v.setdefault("repo_suite_with_patch", "84/84 stable_pass tests pass (tools/seed_verify.sh at collection time)")
        meta["verified_by_main_session"] = v
        mp.write_text(json.dumps(meta, indent=1))
