#!/usr/bin/env python3
"""Prints the markdown table of the automatic mutation sampling (mutants/auto/*.json) for DESIGN.md section 8.6."""
import glob
import json
print("| property | mutation sites in the anchored functions | sampled | killed | survived | harness / timeout |")
print("|---|---|---|---|---|---|")
T = [0, 0, 0, 0, 0]
for f in sorted(glob.glob("/verif/mutants/auto/C*.json")):
    d = json.load(open(f))
    ms = [m for m in d["mutants"] if m["status"] not in ("invalid", "stale")]
    k = sum(m["status"] == "killed" for m in ms)
    s = sum(m["status"] == "survived" for m in ms)
    h = sum(m["status"] in ("harness", "timeout") for m in ms)
    print(f"| {d['property']} | {d.get('n_sites_total', '?')} | {len(ms)} | {k} | {s} | {h} |")
    for i, v in enumerate((d.get("n_sites_total", 0), len(ms), k, s, h)):
        T[i] += v
print(f"| all | {T[0]} | {T[1]} | {T[2]} | {T[3]} | {T[4]} |")
