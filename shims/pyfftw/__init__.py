"""NumPy/SciPy stand-in for the two pyfftw entry points used by ibldsp.voltage.decompress_destripe_cbin.
pyfftw is absent from this sandbox (the property's anchor says so). Semantics reproduced: single precision plans
(float32 <-> complex64), input copied (cast) into the plan's input array, output array of the plan returned (and reused
by the next call), backward transforms normalised, shape mismatch is an error as with a real FFTW plan."""
import numpy as np
import scipy.fft

__version__ = "0.0-shim"


def empty_aligned(shape, dtype="float64", order="C", n=None):
    return np.empty(shape, dtype=dtype, order=order)


def zeros_aligned(shape, dtype="float64", order="C", n=None):
    return np.zeros(shape, dtype=dtype, order=order)


class FFTW:
    def __init__(self, input_array, output_array, axes=(-1,), direction="FFTW_FORWARD", flags=("FFTW_MEASURE",), threads=1,
                 **kwargs):
        assert len(axes) == 1
        self.input_array = input_array
        self.output_array = output_array
        self.axis = axes[0]
        self.direction = direction
        in_c = np.iscomplexobj(input_array)
        out_c = np.iscomplexobj(output_array)
        if direction == "FFTW_FORWARD":
            assert (not in_c) and out_c, "only r2c forward plans are supported by the shim"
            assert output_array.shape[self.axis] == input_array.shape[self.axis] // 2 + 1
        else:
            assert in_c and (not out_c), "only c2r backward plans are supported by the shim"
            assert input_array.shape[self.axis] == output_array.shape[self.axis] // 2 + 1

    def __call__(self, input_array=None, output_array=None, normalise_idft=True, **kwargs):
        if input_array is not None:
            if np.shape(input_array) != self.input_array.shape:
                raise ValueError("Invalid shape: the new input array should be the same shape as the input array used to "
                                 "instantiate the object.")
            self.input_array[...] = input_array  # cast into the plan's (single precision) input array, like pyfftw
        if self.direction == "FFTW_FORWARD":
            self.output_array[...] = scipy.fft.rfft(self.input_array, axis=self.axis)
        else:
            n = self.output_array.shape[self.axis]
            res = scipy.fft.irfft(self.input_array, n=n, axis=self.axis)
            if not normalise_idft:
                res = res * n
            self.output_array[...] = res
        return self.output_array
