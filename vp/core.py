"""Core types shared by every check: findings, the per-case context, case hashing, known findings.

A check module (vp/checks/cXX.py) exposes

    ID, LEVEL, RULE, ASSUMPTIONS
    BUDGET = {"quick": n_cases, "thorough": n_cases}
    strategy(tier)            -> hypothesis strategy producing a JSON-serialisable case (dict)
    run_case(case, ctx)       -> None; reports through ctx (pure function of case + code under test)
    enumerate_cases(tier)     -> optional iterable of cases explored exhaustively (finite domains)
    KNOWN = {key: predicate(case, finding) -> bool}   optional signature predicates for known findings

Everything random is drawn by Hypothesis; bulk arrays are regenerated inside run_case from integer
seeds stored in the case, so a case is small, hashable and replayable without Hypothesis.
"""
import contextlib
import hashlib
import json
import os
import sys
import traceback
from pathlib import Path

VERIF = Path(__file__).resolve().parent.parent
REPO_SRC = Path(os.environ.get("VP_REPO_SRC", "/repo/src")).resolve()


class HarnessAbort(BaseException):
    """Raised to stop a Hypothesis run on a harness (not SUT) error; BaseException so nothing swallows it."""


class Finding:
    __slots__ = ("kind", "msg")

    def __init__(self, kind, msg):
        self.kind = kind
        self.msg = str(msg)[:2000]

    def to_json(self):
        return {"kind": self.kind, "msg": self.msg}


def _innermost_repo_frame(tb):
    """(file, function) of the innermost traceback frame that lies in the repository sources."""
    best = None
    for fr in traceback.extract_tb(tb):
        try:
            p = Path(fr.filename).resolve()
        except Exception:
            continue
        if str(p).startswith(str(REPO_SRC)):
            best = (p.relative_to(REPO_SRC).as_posix(), fr.name)
    return best


_CRASH = object()


class Ctx:
    """Collects what one executed case produced: findings, class labels, the non-triviality flag."""

    CRASH = _CRASH

    def __init__(self, scratch=None):
        self.findings = []
        self.classes = []
        self.nontrivial = False
        self.scratch = scratch  # per-process scratch directory (Path) for file-based checks
        self.stats = {}

    # -- reporting -----------------------------------------------------------------------------
    def fail(self, kind, msg=""):
        self.findings.append(Finding(kind, msg))

    def check(self, cond, kind, msg=""):
        if not cond:
            if callable(msg):
                try:
                    msg = msg()
                except Exception as e:  # noqa - the message is a courtesy: formatting what broken code returned must not
                    msg = f"(no detail: formatting the message raised {type(e).__name__}: {e})"  # turn a finding into a harness error
            self.fail(kind, msg)
        return bool(cond)

    def label(self, *names):
        self.classes.extend(names)

    def stat(self, name, value, how="max"):
        """Keep a running extreme of a measured margin (reported in the evidence)."""
        cur = self.stats.get(name)
        if cur is None:
            self.stats[name] = value
        elif how == "max":
            self.stats[name] = max(cur, value)
        else:
            self.stats[name] = min(cur, value)

    # -- calling the code under test ------------------------------------------------------------
    def call(self, kind, fn, *args, expect=(), **kwargs):
        """Call SUT code. An exception becomes a finding `<kind>:crash:<Type>@file:function` (bucketed by type
        and innermost repository frame, never by message) and Ctx.CRASH is returned. Exception types in
        `expect` are returned as the exception instance instead (contract: 'raises on invalid input')."""
        try:
            return fn(*args, **kwargs)
        except expect as e:  # noqa
            return e
        except Exception as e:  # noqa
            fr = _innermost_repo_frame(e.__traceback__)
            where = f"{fr[0]}:{fr[1]}" if fr else "outside-repo"
            self.fail(f"{kind}:crash:{type(e).__name__}@{where}", f"{type(e).__name__}: {e}")
            return _CRASH


def case_hash(case):
    return hashlib.sha1(json.dumps(case, sort_keys=True, default=str).encode()).hexdigest()[:16]


def load_known(prop_id):
    """Lines of KNOWN_FINDINGS.txt: `known: property=C01 key=<key> <text>` / `fixed: property=... <commit> <text>`.
    Returns {key: text} for the `known:` lines of this property. `fixed:` lines suppress nothing."""
    out = {}
    f = VERIF / "KNOWN_FINDINGS.txt"
    if not f.exists():
        return out
    for line in f.read_text().splitlines():
        line = line.strip()
        if not line.startswith("known:"):
            continue
        parts = line.split()
        kv = dict(p.split("=", 1) for p in parts[1:3] if "=" in p)
        if kv.get("property") == prop_id and "key" in kv:
            out[kv["key"]] = " ".join(parts[3:])
    return out


def eprint(*a):
    print(*a, file=sys.stderr, flush=True)


@contextlib.contextmanager
def debug_logging():
    """Process state a caller may legitimately have: logging switched on at DEBUG level for every logger (a script that did
    logging.basicConfig(level=logging.DEBUG)). Messages go to a NullHandler; levels and the global disable are restored."""
    import logging
    root = logging.getLogger()
    names = ("ibllib", "ibldsp", "ibldsp.waveform_extraction")
    prev_disable = logging.root.manager.disable
    prev = {n: logging.getLogger(n).level for n in names}
    prev_root = root.level
    h = logging.NullHandler()
    logging.disable(logging.NOTSET)
    root.addHandler(h)
    root.setLevel(logging.DEBUG)
    for n in names:
        logging.getLogger(n).setLevel(logging.DEBUG)
    try:
        yield
    finally:
        for n, lv in prev.items():
            logging.getLogger(n).setLevel(lv)
        root.setLevel(prev_root)
        root.removeHandler(h)
        logging.disable(prev_disable)
