"""Second engine (thorough tier only): coverage-guided fuzzing of a check's property with Atheris / libFuzzer.

The SAME property is fuzzed - the check module's Hypothesis strategy decodes libFuzzer's byte string into a case
(`test.hypothesis.fuzz_one_input`), `run_case` is the oracle - but the search is guided by branch coverage of the
repository modules (instrumented at import) instead of Hypothesis' own heuristics. Findings matched by a KNOWN predicate
are ignored exactly as in the driver. The first unknown finding is written as a replay file and ends the campaign.

usage: python -m vp.fuzz_atheris <ID> --out DIR [--runs N] [--seconds S] [--seed N]
prints one JSON line: {"execs":..., "cov":..., "ft":..., "finding": null | {"kind":..., "replay":...}}
exit 0 always (the driver decides); a time budget hit is reported, never treated as a violation.
"""
import argparse
import json
import os
import re
import subprocess
import sys
import tempfile
from pathlib import Path

VERIF = Path(__file__).resolve().parent.parent


def _child(args):
    sys.path.insert(0, str(VERIF / ".deps"))
    import atheris
    from vp.core import Ctx, case_hash, load_known
    with atheris.instrument_imports(include=["spikeglx", "neuropixel", "ibldsp", "neurowaveforms"]):
        import importlib
        mod = importlib.import_module(f"vp.checks.{args.id.lower()}")
        from vp import sut
        for name in ("spikeglx", "neuropixel", "utils", "fourier"):
            try:
                getattr(sut, name)()
            except Exception:  # noqa
                pass
    import hypothesis
    from hypothesis import given, settings, HealthCheck
    import logging
    import warnings
    warnings.simplefilter("ignore")
    logging.disable(logging.CRITICAL)
    import numpy as np
    np.seterr(all="ignore")
    known_keys = sorted(load_known(mod.ID))
    preds = getattr(mod, "KNOWN", {})
    scratch = Path(tempfile.mkdtemp(prefix="vp_ath_", dir="/dev/shm" if os.path.isdir("/dev/shm") else None))
    out = Path(args.out)
    out.mkdir(parents=True, exist_ok=True)
    state = {"n": 0}

    @settings(database=None, deadline=None, suppress_health_check=list(HealthCheck))
    @given(mod.strategy("thorough"))
    def prop(case):
        state["n"] += 1
        ctx = Ctx(scratch=scratch)
        mod.run_case(case, ctx)
        for f in ctx.findings:
            if any(preds.get(k) and preds[k](case, f) for k in known_keys):
                continue
            name = re.sub(r"[^A-Za-z0-9_.@-]+", "_", f.kind)[:80] + "-" + case_hash(case) + ".json"
            (out / name).write_text(json.dumps({"property": mod.ID, "kind": f.kind, "msg": f.msg, "case": case,
                                                "engine": "atheris"}, indent=1, default=str))
            (out / "FOUND").write_text(json.dumps({"kind": f.kind, "replay": str(out / name)}))
            sys.stderr.write(f"\nATHERIS-FOUND {f.kind}\n")
            sys.stderr.flush()
            os._exit(0)

    corpus = out / "corpus"
    corpus.mkdir(exist_ok=True)
    argv = [sys.argv[0], f"-runs={args.runs}", f"-max_total_time={args.seconds}", f"-seed={args.seed}", "-max_len=8192",
            "-print_final_stats=1", str(corpus)]
    atheris.Setup(argv, prop.hypothesis.fuzz_one_input)
    atheris.Fuzz()


def run(prop_id, out, runs, seconds, seed, repo_src=None):
    """Called by the driver: runs the campaign in a subprocess, returns a summary dict."""
    env = dict(os.environ)
    env["PYTHONPATH"] = os.pathsep.join([str(VERIF), str(VERIF / "shims"), repo_src or env.get("VP_REPO_SRC", "/repo/src"), str(VERIF / ".deps")])
    cmd = ["/venv/bin/python", "-m", "vp.fuzz_atheris", prop_id, "--child", "--out", str(out), "--runs", str(runs),
           "--seconds", str(seconds), "--seed", str(seed)]
    try:
        r = subprocess.run(cmd, env=env, capture_output=True, text=True, timeout=seconds + 300, cwd=str(VERIF))
        err = r.stderr
    except subprocess.TimeoutExpired as e:
        err = (e.stderr or b"").decode(errors="replace") if isinstance(e.stderr, bytes) else (e.stderr or "")
    summary = {"engine": "atheris", "execs": 0, "cov": None, "ft": None, "finding": None, "available": True}
    if "No module named 'atheris'" in err or "ModuleNotFoundError" in err and "atheris" in err:
        summary["available"] = False
        return summary
    m = re.findall(r"#(\d+)\s+\w+\s+cov: (\d+) ft: (\d+)", err)
    if m:
        summary["execs"], summary["cov"], summary["ft"] = int(m[-1][0]), int(m[-1][1]), int(m[-1][2])
    m2 = re.search(r"stat::number_of_executed_units:\s*(\d+)", err)
    if m2:
        summary["execs"] = int(m2.group(1))
    found = Path(out) / "FOUND"
    if found.exists():
        summary["finding"] = json.loads(found.read_text())
    elif "Traceback" in err and "ATHERIS-FOUND" not in err and not m:
        summary["error"] = err[-1500:]
    return summary


if __name__ == "__main__":
    ap = argparse.ArgumentParser()
    ap.add_argument("id")
    ap.add_argument("--child", action="store_true")
    ap.add_argument("--out", required=True)
    ap.add_argument("--runs", type=int, default=100000)
    ap.add_argument("--seconds", type=int, default=120)
    ap.add_argument("--seed", type=int, default=1)
    a = ap.parse_args()
    if a.child:
        _child(a)
    else:
        print(json.dumps(run(a.id, a.out, a.runs, a.seconds, a.seed)))
