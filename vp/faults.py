"""Harness-side fault injection: wrap a function/method so that its k-th call raises, count calls otherwise.
No hook in the repository is needed: the wrapped objects are patched in the harness process only, and restored."""
import contextlib
import threading


class InjectedFault(OSError):
    """Raised at the chosen event. An OSError (e.g. 'No space left on device') is what a real I/O failure looks like and,
    unlike a BaseException, it travels through thread pools."""


class Crash(BaseException):
    """A process kill at the chosen event: BaseException, so no `except Exception` in the code under test swallows it."""


class Counter:
    def __init__(self, fail_at=None, exc=InjectedFault, label="event"):
        self.n = 0
        self.fail_at = fail_at
        self.exc = exc
        self.fired = False
        self.log = []
        self.lock = threading.Lock()

    def event(self, name):
        with self.lock:
            i = self.n
            self.n += 1
            self.log.append(name)
            if self.fail_at is not None and i == self.fail_at and not self.fired:
                self.fired = True
                raise self.exc(28, f"injected fault at event {i} ({name})") if issubclass(self.exc, OSError) \
                    else self.exc(f"injected crash at event {i} ({name})")


@contextlib.contextmanager
def patched(counter, targets):
    """targets: list of (object, attribute name, event name, when) with when in {'before', 'after'}.
    Each call of obj.attr becomes an event of `counter` (before or after the real call)."""
    saved = []
    try:
        for obj, attr, name, when in targets:
            orig = getattr(obj, attr)
            saved.append((obj, attr, obj.__dict__.get(attr, None), attr in obj.__dict__))

            def make(orig=orig, name=name, when=when):
                def wrapper(*a, **k):
                    if when == "before":
                        counter.event(name)
                        return orig(*a, **k)
                    r = orig(*a, **k)
                    counter.event(name)
                    return r
                return wrapper
            setattr(obj, attr, make())
        yield counter
    finally:
        for obj, attr, old, had in reversed(saved):
            if had:
                setattr(obj, attr, old)
            else:
                try:
                    delattr(obj, attr)
                except AttributeError:
                    pass
