"""C19 - Clock synchronisation recovers the affine map and only true event pairs (ibldsp.utils.sync_timestamps)."""
import numpy as np
from hypothesis import strategies as st

from vp import sut
from vp.gens import weighted

ID = "C19"
LEVEL = "exploration"
RULE = ("Case = n in 30..300 true events with irregular gaps in [0.5, 10] s regenerated from a seed (uniform / bimodal at "
        "both bounds incl. exact 0.5 and 10 / skewed to short gaps / uniform in a band at least 1 s wide / 8-10 s with a "
        "fifth of 0.5-0.6 s gaps / multiples of 1/8, 1/4 or 1/2 s), start 0..5000 s, "
        "drift in [-100, 100] ppm incl. 0 and both bounds, offset in [-600, 600] s incl. bounds, 0..5 events removed on "
        "each side at any position (ends and runs favoured), jitter amplitude J in [0, 0.1] ms (uniform, +-J, or the "
        "adversarial sign(t - mean) pattern), linear or interpolating mode, optionally the last gap re-drawn so that "
        "max-min of both series is an exact integer; one case in twelve is drawn inside the regime the second "
        "assignment exists for (270..300 events, gaps 7-10 s or 8-10 s with a fifth short, |drift| 85..100 ppm so that "
        "|drift| x duration exceeds two bins, jitter >= 0.02 ms, three in four interpolating, two in three in the "
        "default call form). Call form drawn per case: return_indices False (default, returns (f, drift)) or True "
        "(returns (f, drift, ia, ib)); tbin, return_indices=False, linear=False each left out or passed explicitly "
        "with the documented default value; options as keywords or positionally; inputs as fresh arrays, read-only "
        "arrays or strided views. A return_indices=False case also calls the True form with otherwise identical "
        "arguments: it supplies the pairs and the matched span, both results are validated, and the two maps must "
        "agree within 1 ms at the held-out times (documented as one fit with or without the indices). "
        "tsb = (1+d)*tsa + b + jitter. Oracle (ground truth of the "
        "generator): every returned index pair is the same true event (exact); returned pairs / events present on both "
        "sides >= 0.95; |f(t) - ((1+d)t + b)| <= 1 ms at held-out times inside the matched span (events removed from "
        "either side, gap midpoints over the train and the three at each end, random times); |reported drift - d| <= J*sum|t-mean|/sum(t-mean)^2 + 0.01 ppm on the "
        "returned pairs (the deterministic bound of a least-squares slope under |jitter| <= J); in linear mode f is "
        "affine (second difference ~ 0); the input arrays are unchanged after the call (callers go on using them). "
        "Non-trivial = events missing on both sides AND |drift| > 10 ppm. "
        "Distinct = distinct case hash.")
ASSUMPTIONS = ["'irregular spacing' is read as gaps that vary over the range: nearly periodic trains (all gaps within a "
               "few 0.1 s bins of each other; the narrowest generated class is a band 1 s wide) are not generated - with "
               "an arbitrary offset and missing end events their correspondence is not identifiable (scratch runs: the "
               "unchanged code returns shifted pairs for 1-50 % of trains whose gaps all lie within 0.2 s)",
               "tbin = 0.1 only (left at its default or passed explicitly); inputs are float64 numpy arrays, sorted, one "
               "dimensional (writeable, read-only or strided). Python lists are not generated: the docstring asks for "
               "vectors, every caller passes arrays and the unchanged code reads tsa.shape (AttributeError on a list)",
               "return_indices=False results are judged inside the matched span reported by the return_indices=True call "
               "on the same input (the two forms are documented as the same fit)",
               "held-out times lie inside the span of the returned pairs (no extrapolation claim)",
               "the drift tolerance assumes the reported drift is a least-squares slope over the returned pairs",
               "KNOWN coarse_peak_split (genuine defect, corpus/C19/coarse_peak_split_bounds.json): wrong pairs / recall "
               "are suppressed only in cases whose binned cross-correlation, recomputed by the check from the generated "
               "data, is at least as high at a lag away from the true pairs as at them (about 1 case in 10^5)"]
BUDGET = {"quick": 12000, "thorough": 400000}
SHRINK = {"quick": True, "thorough": True}

TOL_MAP = 1e-3          # s, "millisecond-scale tolerance" of the statement
MIN_RECALL = 0.95       # "nearly all true correspondences are returned"
DRIFT_SLACK_PPM = 0.01  # numerical slack on top of the deterministic least-squares bound
JMAX = 1e-4
CRASH_KIND = "C19.sync"
TBIN = 0.1              # the documented default of tbin; also the value passed when tbin is given explicitly
INPUT_KINDS = ["array", "array", "readonly", "strided"]


# --------------------------------------------------------------------------------------------------
# generator

def _st_missing(n):
    pos = st.one_of(st.integers(0, n - 1), st.sampled_from([0, 1, 2, n - 3, n - 2, n - 1]))
    free = st.lists(pos, min_size=0, max_size=5, unique=True)
    run = st.builds(lambda a, k: list(range(a, min(n, a + k))), st.integers(0, n - 1), st.integers(1, 5))
    head = st.integers(0, 5).map(lambda k: list(range(k)))
    tail = st.integers(0, 5).map(lambda k: list(range(n - k, n)))
    return st.one_of(free, free, run, head, tail).map(sorted)


def _draw_call_form(draw, case, long_drift):
    """How sync_timestamps is called (signature: tsa, tsb, tbin=0.1, return_indices=False, linear=False). All False =
    the plain default call sync_timestamps(tsa, tsb) when linear is False (the minimal case under shrinking)."""
    case["return_indices"] = draw(st.sampled_from([False, False, True])) if long_drift else draw(st.booleans())
    case["pass_tbin"] = draw(st.booleans())      # tbin=0.1 given explicitly / left at its default
    case["pass_ri"] = draw(st.booleans())        # return_indices=False given explicitly / left out (True is always given)
    case["pass_linear"] = draw(st.booleans())    # linear=False given explicitly / left out (True is always given)
    case["positional"] = draw(st.sampled_from([False, False, True]))  # options as keywords / positionally
    case["input_kind"] = draw(st.sampled_from(INPUT_KINDS))


@st.composite
def _case(draw):
    # one case in twelve is built inside the regime in which the first (constant offset, one bin) assignment cannot
    # reach the ends of the train: |drift| * duration > 2 * tbin, with jitter, mostly interpolating mode
    long_drift = draw(st.sampled_from([False] * 11 + [True]))
    if long_drift:
        n = draw(st.one_of(st.integers(270, 300), st.sampled_from([299, 300])))
        gap_mode = draw(st.sampled_from(["band", "band", "long_short"]))
    else:
        n = draw(st.one_of(st.integers(30, 300), st.integers(30, 60), st.sampled_from([30, 31, 299, 300])))
        gap_mode = draw(st.sampled_from(["uniform", "uniform", "bounds", "skewed", "grid", "band", "long_short"]))
    case = {"n": n, "gap_mode": gap_mode, "seed": draw(st.integers(0, 2 ** 32 - 1))}
    if long_drift:
        if gap_mode == "band":
            lo = draw(st.floats(7.0, 9.0))
            case["band"] = [lo, 10.0 - lo]
        case["start"] = draw(st.integers(0, 40000)) / 8.0 + draw(st.floats(0, 0.124))
        case["drift_ppm"] = draw(st.sampled_from([-1.0, 1.0])) * draw(st.one_of(st.floats(85, 100), st.just(100.0)))
        case["offset"] = draw(st.one_of(st.floats(-600, 600), st.floats(-5, 5), st.sampled_from([0.0, 60.0, -60.0])))
        case["jitter"] = draw(st.one_of(st.floats(0.2 * JMAX, JMAX), st.just(JMAX)))
        case["jitter_mode"] = draw(st.sampled_from(["uniform", "uniform", "extreme", "adversarial"]))
        case["miss_a"] = draw(_st_missing(n))
        case["miss_b"] = draw(_st_missing(n))
        case["linear"] = draw(st.sampled_from([False, False, False, True]))
        case["intspan"] = False
        _draw_call_form(draw, case, True)
        return case
    if gap_mode == "band":
        # gaps uniform in [lo, lo + width], width >= 1 s (narrower bands are nearly periodic, see ASSUMPTIONS)
        width = draw(st.floats(1.0, 9.5))
        case["band"] = [draw(st.floats(0.5, 10.0 - width)), width]
    exact = False
    if gap_mode == "grid":
        case["grid"] = draw(st.sampled_from([0.125, 0.25, 0.5]))
        exact = draw(st.booleans())  # drift 0, jitter 0, offset on the grid: every time stamp is an exact dyadic number
    case["start"] = draw(st.integers(0, 40000)) / 8.0 + (0.0 if gap_mode == "grid" else draw(st.floats(0, 0.124)))
    if exact:
        case["drift_ppm"] = 0.0
        case["offset"] = draw(st.integers(-4800, 4800)) / 8.0
        case["jitter"] = 0.0
    else:
        case["drift_ppm"] = draw(st.one_of(st.floats(-100, 100), st.floats(-100, 100),
                                           st.sampled_from([-100.0, 100.0, 0.0, 10.0, -10.0, 99.99])))
        case["offset"] = draw(st.one_of(st.floats(-600, 600), st.floats(-5, 5), st.floats(-0.2, 0.2),
                                        st.sampled_from([-600.0, 600.0, 0.0, 0.05, -0.05, 60.0, -60.0])))
        case["jitter"] = draw(st.one_of(st.floats(0, JMAX), st.sampled_from([0.0, JMAX, JMAX])))
    case["jitter_mode"] = draw(st.sampled_from(["uniform", "uniform", "extreme", "adversarial"]))
    case["miss_a"] = draw(_st_missing(n))
    case["miss_b"] = draw(_st_missing(n))
    case["linear"] = draw(st.booleans())
    case["intspan"] = draw(st.sampled_from([False] * 9 + [True]))
    _draw_call_form(draw, case, False)
    return case


@st.composite
def _parabola_case(draw):
    """ibldsp.utils.parabolic_max is the sub-bin peak interpolation the coarse offset rests on (anchored mechanism):
    samples of exact parabolas a - b (i - c)^2, vertex anywhere incl. outside the sampled range, 1-D and 2-D input."""
    ns = draw(st.integers(3, 64))
    rows = []
    for _ in range(draw(st.integers(1, 5))):
        c = draw(st.one_of(st.floats(-2.0, ns + 1.0), st.floats(0.51, ns - 1.51 if ns > 3 else 0.9), st.integers(0, ns - 1).map(float)))
        rows.append({"a": draw(st.floats(-100.0, 100.0)), "b": draw(st.floats(1e-3, 10.0)), "c": float(c)})
    return {"mode": "parabola", "ns": ns, "rows": rows, "as2d": draw(st.booleans()) or len(rows) > 1}


def strategy(tier):
    return weighted((15, _case()), (1, _parabola_case()))


def _gaps(case, rng):
    n, mode = case["n"], case["gap_mode"]
    m = n - 1
    if mode == "uniform":
        return rng.uniform(0.5, 10.0, m)
    if mode == "bounds":
        which = rng.integers(0, 4, m)
        u = rng.uniform(0, 0.3, m)
        g = np.where(which == 0, 0.5, np.where(which == 1, 10.0, np.where(which == 2, 0.5 + u, 10.0 - u)))
        # both clusters present, otherwise the train is nearly periodic
        g[rng.integers(0, m)] = 10.0 - rng.uniform(0, 0.3)
        g[(rng.integers(0, m) + 1) % m] = 0.5 + rng.uniform(0, 0.3)
        return g
    if mode == "skewed":
        return 0.5 + 9.5 * rng.uniform(0, 1, m) ** 3
    if mode == "band":
        lo, width = case["band"]
        return np.clip(rng.uniform(lo, lo + width, m), 0.5, 10.0)
    if mode == "long_short":
        # long trains of 8-10 s gaps (largest accumulated drift) with a fifth of very short gaps (steepest local slope
        # error of an interpolant under jitter)
        return np.where(rng.uniform(0, 1, m) < 0.2, rng.uniform(0.5, 0.6, m), rng.uniform(8.0, 10.0, m))
    g = case["grid"]
    return g * rng.integers(int(round(0.5 / g)), int(round(10.0 / g)) + 1, m)


def build(case):
    """Regenerate the two observed series and the ground truth from the case. Returns a dict; never raises on cases of
    the strategy."""
    rng = np.random.default_rng(case["seed"])
    n = case["n"]
    d = case["drift_ppm"] * 1e-6
    b = case["offset"]
    J = case["jitter"]
    gaps = _gaps(case, rng)
    ta = case["start"] + np.r_[0.0, np.cumsum(gaps)]
    u = rng.uniform(-1, 1, n)
    if case["jitter_mode"] == "extreme":
        u = np.where(u >= 0, 1.0, -1.0)
    elif case["jitter_mode"] == "adversarial":
        u = np.where(ta >= ta.mean(), 1.0, -1.0) * (1.0 if u[0] >= 0 else -1.0)
    jit = J * u
    keep_a = np.ones(n, bool)
    keep_a[case["miss_a"]] = False
    keep_b = np.ones(n, bool)
    keep_b[case["miss_b"]] = False
    tb = ta * (1 + d) + b + jit
    jeff = J
    if case.get("intspan"):
        ta, tb = _force_integer_span(ta, tb, jit, d, b, keep_a, keep_b)
        jeff = J + 1e-9  # the two end points were moved by rounding amounts to make the span exact
    ida = np.flatnonzero(keep_a)
    idb = np.flatnonzero(keep_b)
    return {"tsa": ta[ida].copy(), "tsb": tb[idb].copy(), "ida": ida, "idb": idb, "ta": ta, "tb": tb, "d": d, "b": b,
            "J": jeff, "keep_a": keep_a, "keep_b": keep_b}


def _force_integer_span(ta, tb, jit, d, b, keep_a, keep_b):
    """Move the events from the one that carries the overall maximum onwards (<= 0.5 s, gap stays in [0.5, 10]) so that
    max - min over both observed series is an exact integer in floating point. The affine relation is kept."""
    Q = 2.0 ** 20
    ia0, ia1 = np.flatnonzero(keep_a)[[0, -1]]
    ib0, ib1 = np.flatnonzero(keep_b)[[0, -1]]
    ta = ta.copy()
    # 1. the minimum on a 2^-20 s lattice (global shift of clock A below one microsecond)
    if ta[ia0] <= tb[ib0]:
        target = np.round(ta[ia0] * Q) / Q
        ta += target - ta[ia0]
        ta[ia0] = target
        tb = ta * (1 + d) + b + jit
        vmin = target
    else:
        target = np.round(tb[ib0] * Q) / Q
        ta += (target - tb[ib0]) / (1 + d)
        tb = ta * (1 + d) + b + jit
        tb[ib0] = target
        vmin = target
    # 2. the maximum at vmin + integer
    on_a = ta[ia1] >= tb[ib1]
    k = ia1 if on_a else ib1
    vmax = ta[k] if on_a else tb[k]
    scale = 1.0 if on_a else (1 + d)
    gap = ta[k] - ta[k - 1]
    N = np.round(vmax - vmin)
    if gap + (N - (vmax - vmin)) / scale > 10.0:
        N -= 1
    elif gap + (N - (vmax - vmin)) / scale < 0.5:
        N += 1
    ta[k:] += (N - (vmax - vmin)) / scale
    tb[k:] = ta[k:] * (1 + d) + b + jit[k:]
    if on_a:
        ta[k] = vmin + N
    else:
        tb[k] = vmin + N
    return ta, tb


def bins_short(tsa, tsb, tbin=0.1):
    """True when the largest bin index floor((tmax-tmin)/tbin) does not fit in int(ceil(tmax-tmin)/tbin) bins."""
    tmin = min(tsa.min(), tsb.min())
    tmax = max(tsa.max(), tsb.max())
    return int(np.floor((tmax - tmin) / tbin)) >= int(np.ceil(tmax - tmin) / tbin)


def known_integer_span(case, f):
    if f.kind != CRASH_KIND + ":crash:IndexError@ibldsp/utils.py:sync_timestamps":
        return False
    t = build(case)
    return bins_short(t["tsa"], t["tsb"])


def coarse_peak_misleading(tsa, tsb, lag_true, tbin=TBIN):
    """Independent re-computation of the coarse stage on the generated data: True when the highest value of the binned
    (0/1 histograms, bin = tbin) cross-correlation outside the lags of the true pairs is at least as high as the
    highest value at them - an offset that is no multiple of tbin splits the true peak over two neighbouring lags, so
    that a one-event shift of a train with long runs of equal gaps ties with (or beats) either half.
    lag_true = (tsa_i - tsb_i) / tbin of the true pairs."""
    import scipy.signal
    tmin = min(tsa.min(), tsb.min())
    tmax = max(tsa.max(), tsb.max())
    nb = int(np.floor((tmax - tmin) / tbin)) + 1
    x = np.zeros(nb)
    y = np.zeros(nb)
    x[np.minimum(np.floor((tsa - tmin) / tbin).astype(np.int64), nb - 1)] = 1
    y[np.minimum(np.floor((tsb - tmin) / tbin).astype(np.int64), nb - 1)] = 1
    c = np.round(scipy.signal.correlate(x, y, mode="full"))
    lags = np.arange(c.size) - (nb - 1)
    inside = (lags >= np.floor(lag_true.min()) - 1) & (lags <= np.ceil(lag_true.max()) + 1)
    if not inside.any() or inside.all():
        return False
    return bool(c[~inside].max() >= c[inside].max())


def known_coarse_peak_split(case, f):
    if f.kind not in ("C19.pairs_true", "C19.recall"):
        return False
    t = build(case)
    both = t["keep_a"] & t["keep_b"]
    if not both.any():
        return False
    return coarse_peak_misleading(t["tsa"], t["tsb"], (t["ta"][both] - t["tb"][both]) / TBIN)


KNOWN = {"integer_span_one_bin_short": known_integer_span, "coarse_peak_split": known_coarse_peak_split}


# --------------------------------------------------------------------------------------------------
# oracle

def _labels(case, t, ctx):
    n = case["n"]
    ma, mb = case["miss_a"], case["miss_b"]
    dp = abs(case["drift_ppm"])
    off = abs(case["offset"])
    ctx.label("gaps_" + case["gap_mode"], "linear" if case["linear"] else "interp",
              "jit_" + case["jitter_mode"],
              "miss_both" if ma and mb else ("miss_a_only" if ma else ("miss_b_only" if mb else "miss_none")),
              "drift_0" if dp == 0 else ("drift<=10" if dp <= 10 else ("drift_bound" if dp == 100 else "drift>10")),
              "drift_neg" if case["drift_ppm"] < 0 else "drift_nonneg",
              "off_0" if off == 0 else ("off<0.1" if off < 0.1 else ("off<60" if off < 60 else ("off_bound" if off == 600 else "off>=60"))),
              "off_neg" if case["offset"] < 0 else "off_nonneg",
              "n30" if n == 30 else ("n300" if n == 300 else ("n<100" if n < 100 else "n>=100")),
              "J0" if case["jitter"] == 0 else ("Jmax" if case["jitter"] == JMAX else "J_mid"))
    if (0 in ma) or (0 in mb):
        ctx.label("miss_first")
    if (n - 1 in ma) or (n - 1 in mb):
        ctx.label("miss_last")
    if set(ma) & set(mb):
        ctx.label("miss_same_event_both")
    if len(ma) == 5 and len(mb) == 5:
        ctx.label("miss_5_5")
    span = max(t["tsa"].max(), t["tsb"].max()) - min(t["tsa"].min(), t["tsb"].min())
    if span == np.round(span):
        ctx.label("span_exact_integer")
    if off > (t["ta"][-1] - t["ta"][0]):
        ctx.label("series_disjoint_in_time")
    if ma and mb and dp > 10:
        ctx.nontrivial = True
    # call form
    ri = bool(case.get("return_indices", True))
    args, kw = call_form(case, ri)
    ctx.label("ri_true" if ri else "ri_false", "in_" + case.get("input_kind", "array"),
              "tbin_explicit" if (len(args) >= 1 or "tbin" in kw) else "tbin_default")
    if not args and not kw:
        ctx.label("call_plain_default")
    if args:
        ctx.label("call_positional_%d" % len(args))
    if not ri and (len(args) >= 2 or "return_indices" in kw):
        ctx.label("ri_false_explicit")
    if not case["linear"] and (len(args) >= 3 or "linear" in kw):
        ctx.label("linear_false_explicit")
    # regime in which the first assignment (constant offset, threshold one bin) cannot reach the ends of the train
    if dp * 1e-6 * (t["ta"][-1] - t["ta"][0]) > 2 * TBIN:
        ctx.label("drift_x_duration>0.2s")
        if not case["linear"] and case["jitter"] > 0:
            ctx.label("drift_x_duration>0.2s_interp_jitter")
            if not ri:
                ctx.label("drift_x_duration>0.2s_interp_jitter_ri_false")


def call_form(case, ri):
    """(args, kwargs) that follow tsa, tsb for the drawn call form with return_indices = ri. Options equal to their
    documented default are left out unless the case says to pass them; positional forms pass the shortest prefix of
    (tbin, return_indices, linear) that contains everything that has to be passed. Old cases (no call-form fields):
    keywords return_indices=..., linear=... as before."""
    lin = bool(case["linear"])
    vals = [TBIN, bool(ri), lin]
    need = [bool(case.get("pass_tbin", False)), bool(case.get("pass_ri", True)) or bool(ri),
            bool(case.get("pass_linear", True)) or lin]
    if case.get("positional", False):
        k = max([i + 1 for i in range(3) if need[i]] or [0])
        return tuple(vals[:k]), {}
    return (), {name: v for name, v, q in zip(("tbin", "return_indices", "linear"), vals, need) if q}


def _input(x, kind):
    """A fresh float64 array holding x in the drawn layout (the original is kept for the unchanged-inputs check)."""
    if kind == "strided":
        buf = np.full(2 * x.size + 1, np.nan)
        buf[1::2] = x
        return buf[1::2]
    y = x.copy()
    if kind == "readonly":
        y.flags.writeable = False
    return y


def _sync(case, t, ri, ctx):
    """One call of the code under test in the drawn form; returns the validated tuple or None (finding reported)."""
    kind = case.get("input_kind", "array")
    a, b = _input(t["tsa"], kind), _input(t["tsb"], kind)
    args, kw = call_form(case, ri)
    r = ctx.call(CRASH_KIND, sut.utils().sync_timestamps, a, b, *args, **kw)
    if r is ctx.CRASH:
        return None
    nret = 4 if ri else 2
    if not ctx.check(isinstance(r, tuple) and len(r) == nret and callable(r[0]), "C19.return_shape",
                     lambda: f"return_indices={ri}: expected a tuple of {nret} (function, drift{', ia, ib' if ri else ''}), got "
                             f"{type(r).__name__} of length {len(r) if hasattr(r, '__len__') else '?'}"):
        return None
    # the caller's series are his own: tests and callers go on using tsa / tsb after the call
    ctx.check(np.array_equal(a, t["tsa"]) and np.array_equal(b, t["tsb"]), "C19.inputs_modified",
              "sync_timestamps changed the contents of an input array")
    try:
        dr = float(r[1]) if np.ndim(r[1]) == 0 else None
    except (TypeError, ValueError):
        dr = None
    if not ctx.check(dr is not None and np.isfinite(dr), "C19.drift_type",
                     lambda: f"return_indices={ri}: reported drift is not a finite real scalar: {r[1]!r}"[:300]):
        return None
    return (r[0], dr) + tuple(r[2:])


def _held_out_times(case, t, lo, hi):
    """Times at which the true map is known and that took no part in the fit: events removed from either side, gap
    midpoints (a sample over the train and the three at each end), random times; restricted to the matched span."""
    rng = np.random.default_rng(case["seed"] ^ 0x5DEECE66D)
    ta = t["ta"]
    mids = (ta[1:] + ta[:-1]) / 2
    # order of the first three groups and the single rng draw are those of the earlier version of this check
    th = np.r_[ta[~t["keep_a"]], mids[:: max(1, mids.size // 25)], rng.uniform(lo, hi, 16),
               ta[~t["keep_b"]], mids[:3], mids[-3:]]
    return th[(th >= lo) & (th <= hi)]


def _check_map_and_drift(case, t, f, drift, th, tm, lo, hi, ctx):
    d, b, J = t["d"], t["b"], t["J"]
    got = ctx.call("C19.map_eval", lambda: np.asarray(f(th), dtype=float))
    if got is not ctx.CRASH:
        if ctx.check(got.shape == th.shape and np.all(np.isfinite(got)), "C19.map_finite", "mapping returns non-finite values or a wrong shape"):
            err = float(np.max(np.abs(got - (th * (1 + d) + b)))) if th.size else 0.0
            ctx.stat("map_err_s", err)
            if J >= 1e-6:
                ctx.stat("map_err_over_jitter", err / J)
            ctx.check(err <= TOL_MAP, "C19.map_error", lambda: f"|f(t) - truth| = {err:.3g} s > {TOL_MAP} s at a held-out time inside the matched span")
        else:
            got = ctx.CRASH
        if case["linear"]:
            # docstring: linear=True restricts the fit to linear -> second differences vanish, also outside the span
            x = np.array([lo - 100.0, (lo + hi) / 2, hi + 100.0 + (hi - lo)])
            x[1] = (x[0] + x[2]) / 2
            y = ctx.call("C19.map_eval", lambda: np.asarray(f(x), dtype=float))
            if y is not ctx.CRASH and y.shape == (3,):
                sd = float(abs(y[0] + y[2] - 2 * y[1]))
                ctx.stat("linear_second_diff_s", sd)
                ctx.check(sd <= 1e-7, "C19.linear_affine", lambda: f"linear=True but f is not affine: second difference {sd:.3g} s")
    # drift
    c = tm - tm.mean()
    bound_ppm = J * np.sum(np.abs(c)) / np.sum(c ** 2) * 1e6
    derr = abs(drift - case["drift_ppm"])
    ctx.stat("drift_err_ppm", derr)
    ctx.stat("drift_err_minus_bound_ppm", derr - bound_ppm)  # must stay below DRIFT_SLACK_PPM
    if J >= 1e-6:
        ctx.stat("drift_err_over_bound", derr / bound_ppm)
    ctx.check(derr <= bound_ppm + DRIFT_SLACK_PPM, "C19.drift",
              lambda: f"reported drift {drift:.6f} ppm, true {case['drift_ppm']:.6f} ppm, error {derr:.4g} > bound {bound_ppm:.4g} + {DRIFT_SLACK_PPM}")
    return got


def _run_parabola(case, ctx):
    ns, rows = case["ns"], case["rows"]
    i = np.arange(ns)
    x = np.stack([r["a"] - r["b"] * (i - r["c"]) ** 2 for r in rows])
    ctx.label("parabola", "parabola_2d" if case["as2d"] else "parabola_1d")
    arg = x if case["as2d"] else x[0]
    r = ctx.call("C19.parabolic_max", sut.utils().parabolic_max, arg.copy())
    if r is ctx.CRASH:
        return
    if not ctx.check(isinstance(r, tuple) and len(r) == 2, "C19.parabola", "parabolic_max does not return (position, value)"):
        return
    want = (len(rows),) if case["as2d"] else ()
    if not ctx.check(np.shape(r[0]) == want and np.shape(r[1]) == want, "C19.parabola",
                     lambda: f"parabolic_max returns shapes {np.shape(r[0])}, {np.shape(r[1])} for input {arg.shape}"):
        return
    ip, mx = np.atleast_1d(r[0]).astype(float), np.atleast_1d(r[1]).astype(float)
    for j, row in enumerate(rows if case["as2d"] else rows[:1]):
        im = int(np.argmax(x[j]))
        if im == 0 or im == ns - 1:
            ctx.label("vertex_at_edge")  # documented: no interpolation on the edge samples
            ctx.check(ip[j] == im and mx[j] == x[j, im], "C19.parabola",
                      lambda: f"row {row}: maximum on edge sample {im}, got ({ip[j]}, {mx[j]}) instead of ({im}, {x[j, im]})")
        else:
            ctx.label("vertex_interior")
            ctx.nontrivial = ctx.nontrivial or row["c"] != round(row["c"])
            ei = abs(ip[j] - row["c"])
            em = abs(mx[j] - row["a"]) / (1 + abs(row["a"]))
            ctx.stat("err_parabola_vertex", ei)
            ctx.check(ei <= 1e-6 and em <= 1e-6, "C19.parabola",
                      lambda: f"row {row} (ns={ns}): got vertex {ip[j]!r}, value {mx[j]!r}")


def run_case(case, ctx):
    if case.get("mode") == "parabola":
        return _run_parabola(case, ctx)
    t = build(case)
    _labels(case, t, ctx)
    tsa, tsb, ida, idb = t["tsa"], t["tsb"], t["ida"], t["idb"]
    if bins_short(tsa, tsb):
        ctx.label("bins_short")
    ri = bool(case.get("return_indices", True))
    # the drawn form first; the default form (function, drift) carries no indices, so the documented other form of the
    # same fit is called as well: it supplies the pairs (checked below as always) and with them the matched span
    prim = _sync(case, t, ri, ctx)
    if prim is None:
        return
    full = prim if ri else _sync(case, t, True, ctx)
    if full is None:
        return
    ia = np.asarray(full[2])
    ib = np.asarray(full[3])
    ok = (ia.ndim == 1 and ib.ndim == 1 and ia.size == ib.size and ia.dtype.kind in "iu" and ib.dtype.kind in "iu"
          and (ia.size == 0 or (ia.min() >= 0 and ia.max() < tsa.size and ib.min() >= 0 and ib.max() < tsb.size)))
    if not ctx.check(ok, "C19.indices_valid", lambda: f"index arrays invalid: ia {ia.shape} {ia.dtype}, ib {ib.shape} {ib.dtype}, "
                                                       f"sizes {tsa.size}/{tsb.size}"):
        return
    # (1) every returned pair is a true correspondence, no event is used twice
    ev_a, ev_b = ida[ia], idb[ib]
    wrong = np.flatnonzero(ev_a != ev_b)
    ctx.check(wrong.size == 0, "C19.pairs_true",
              lambda: f"{wrong.size} of {ia.size} returned pairs are not the same event, e.g. tsa[{ia[wrong[0]]}] (event {ev_a[wrong[0]]}) "
                      f"paired with tsb[{ib[wrong[0]]}] (event {ev_b[wrong[0]]})")
    ctx.check(np.unique(ia).size == ia.size and np.unique(ib).size == ib.size, "C19.pairs_unique", "an index is returned twice")
    # (2) recall
    both = np.flatnonzero(t["keep_a"] & t["keep_b"])
    good = np.intersect1d(ev_a[ev_a == ev_b], both).size
    recall = good / both.size
    ctx.stat("min_recall", recall)
    ctx.check(recall >= MIN_RECALL, "C19.recall", lambda: f"{good} of {both.size} true correspondences returned (recall {recall:.3f} < {MIN_RECALL})")
    if wrong.size or ia.size < 2:
        return
    # (3) the mapping at held-out times inside the matched span and (4) the reported drift - of every form called
    lo, hi = tsa[ia].min(), tsa[ia].max()
    th = _held_out_times(case, t, lo, hi)
    if th.size:
        if (th < lo + 0.1 * (hi - lo)).any() and (th > hi - 0.1 * (hi - lo)).any():
            ctx.label("held_out_near_both_ends")
    tm = tsa[ia]
    got = _check_map_and_drift(case, t, prim[0], prim[1], th, tm, lo, hi, ctx)
    if not ri:
        ref = _check_map_and_drift(case, t, full[0], full[1], th, tm, lo, hi, ctx)
        # (5) (function, drift) and (function, drift, ia, ib) are documented as the same fit with or without the indices
        if got is not ctx.CRASH and ref is not ctx.CRASH and th.size:
            dis = float(np.max(np.abs(got - ref)))
            ctx.stat("forms_disagree_s", dis)
            ctx.check(dis <= TOL_MAP, "C19.forms_agree",
                      lambda: f"maps returned with return_indices False and True differ by {dis:.3g} s > {TOL_MAP} s at a held-out time inside the matched span")
