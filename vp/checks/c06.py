"""C06 - Chunked destripe-to-file writes every sample exactly once, for any worker count."""
from pathlib import Path

import numpy as np
import scipy.signal
from hypothesis import strategies as st

from vp import sut
from vp.gens import meta as gm, recording as rec

ID = "C06"
LEVEL = "exploration"
RULE = ("Case = generated recording (NP1 3B2 / NP2.1 / NP2.4 header, 64..96 AP channels + sync, bin or cbin, ns 2500..40000, "
        "low-amplitude coloured content with common stripes, 0..4 saturated stretches placed anywhere incl. batch seams, a "
        "random full-range sync word per sample) x batch size 2304..8192 (multiples of 256) x a list of worker counts from "
        "1..8 x {k-filter with explicit padding <= channels | CAR} x {reject_channels, whitening scalar/matrix, padding "
        "ns2add, nc_out with/without sync, append, a final non-append run over the files of an earlier longer run}. Workers run under joblib's threading backend (same per-worker offsets "
        "and seeks); the thorough tier adds real loky process pools for a subset. Oracle: (a) size == (ns+ns2add)*nc_out*2; "
        "(b) sync column == source sync bit for bit; (c) bytes identical for every worker count vs 1 worker; (d) reference "
        "pipeline in the harness - per batch [k(N-2048), k(N-2048)+N): saturation -> taper -> voltage.destripe (in-memory) -> "
        "mute (AP only) -> int16, keep [1024, N-1024) (first from 0, last to the end) - agrees within 1 LSB with >= 99 % of "
        "samples identical; (e) append: file == run1 || run2; (f) saturation file has ns entries equal to the saturation "
        "rule, RMS and timestamps have one row per batch. Non-trivial = >= 2 workers whose boundary does not coincide with a "
        "batch seam AND >= 3 batches AND a saturated stretch present. Distinct = case hash.")
ASSUMPTIONS = ["pyfftw is replaced by /verif/shims/pyfftw (float32 in / complex64 out over scipy.fft): the repository's chunking "
               "logic is what is verified, not FFTW; hence the 1 LSB tolerance against the float64 reference",
               "the harness owns worker count and chunk boundaries, not the OS interleaving of the workers",
               "with more than one worker the saturation flags of batch-final samples are not compared (two batches write them, "
               "the later writer wins, and the order is schedule dependent)"]
BUDGET = {"quick": 72, "thorough": 1500}
SHRINK = {"quick": False, "thorough": False}
TAPER = 1024


@st.composite
def _case(draw):
    gen = draw(st.sampled_from(["3B2", "NP2.1", "NP2.4"]))
    n = draw(st.sampled_from([64, 80, 96]))
    spec = draw(gm.st_spec(gens=(gen,), n_choices=(n,), allow_lf=False, ns_range=(2500, 2500),
                           patterns=("dense", "random") if gen != "NP2.4" else ("dense", "interleaved", "random")))
    spec["n_acq"] = n
    spec["nsync"] = 1
    # NP1: per-channel gains as drawn by the metadata grammar (uniform or random per channel)
    nbatch = 256 * draw(st.integers(9, 32))
    stride = nbatch - 2 * TAPER
    nb = draw(st.integers(1, 9))
    ns = (nb - 1) * stride + draw(st.integers(2 * TAPER + 2, nbatch)) if nb > 1 else draw(st.integers(2500, max(2501, nbatch)))
    ns = int(min(max(ns, 2500), 40000))
    fit = draw(st.integers(0, 5))
    if fit == 0:
        # the recording ends exactly where a batch ends (ns == nbatch + j * stride), or one sample before / after that
        ns = nbatch + (nb - 1) * stride + draw(st.sampled_from([0, 0, 0, -1, 1]))
        while ns > 40000 and nb > 1:
            nb -= 1
            ns -= stride
        ns = max(ns, 2500)
    elif draw(st.integers(0, 3)) == 0 and nb > 1:
        # aim at the tail: the batch before the last ends r samples before the end of the file, so a last worker that stops
        # at nworkers * int(ns / nworkers) < ns instead of ns would never write the tail
        ns = (nb - 2) * stride + nbatch + draw(st.integers(1, 5))
    spec["ns"] = ns
    workers = sorted(set(draw(st.lists(st.integers(2, 8), min_size=1, max_size=2))))
    kfilter = draw(st.booleans())
    case = {"spec": spec, "nbatch": nbatch, "workers": workers, "k_filter": kfilter,
            "ntr_pad": draw(st.sampled_from([None, 0, 10, 30, n // 2])) if kfilter else None,
            "lagc": draw(st.sampled_from([None, 300, 3000])),
            "cbin": draw(st.booleans()), "content_seed": draw(st.integers(0, 2 ** 31)),
            "nsat": draw(st.sampled_from([0, 1, 2, 4])), "sat_seam": draw(st.booleans()),
            "reject": draw(st.booleans()) and ns >= 12000,
            "wrot": draw(st.sampled_from([None, None, "scalar", "matrix"])),
            "ns2add": draw(st.sampled_from([0, 0, 7, 500])), "drop_sync": draw(st.integers(0, 4)) == 0,
            "append": draw(st.integers(0, 3)) == 0, "loky": False,
            # a final non-append run onto the output path of an earlier, LONGER run (its out.bin and the rms / time
            # placeholder files are still there and hold more data than this run produces)
            "rerun_over_longer": draw(st.booleans()),
            "debug_log": draw(st.sampled_from([False, False, False, True]))}
    return case


def strategy(tier):
    if tier == "thorough":
        return st.builds(lambda c, k: dict(c, loky=(k == 0)), _case(), st.integers(0, 9))
    return _case()


def _content(spec, case):
    """Low amplitude (far from saturation and from the slew limit) coloured noise + common stripes + saturated stretches."""
    ns, n = spec["ns"], spec["n"]
    rng = np.random.default_rng(case["content_seed"])
    maxint = spec.get("maxint") or 512
    amp = max(4.0, maxint / 40)
    x = scipy.signal.lfilter([1, 0.8, 0.5], [1], rng.standard_normal((ns + 2, n)), axis=0)[2:] * amp / 3
    t = np.arange(ns)[:, None]
    x += amp * 0.5 * np.sin(2 * np.pi * t * rng.uniform(0.005, 0.05)) * rng.uniform(0.5, 1, size=(1, n))
    D = np.zeros((ns, n + 1), dtype=np.int16)
    D[:, :n] = np.round(x).astype(np.int16)
    stretches = []
    stride = case["nbatch"] - 2 * TAPER
    for i in range(case["nsat"]):
        length = int(rng.integers(3, 200))
        if case["sat_seam"] and i == 0 and ns > stride + 50:
            k = int(rng.integers(1, max(2, ns // stride)))
            start = int(np.clip(k * stride + TAPER - length // 2 + rng.integers(-40, 40), 0, ns - length))
        else:
            start = int(rng.integers(0, max(1, ns - length)))
        frac = rng.uniform(0.3, 1.0)
        chans = rng.permutation(n)[: max(1, int(frac * n))]
        D[start:start + length, chans[:, None].T] = (maxint - 1) * rng.choice([-1, 1])
        stretches.append((start, length, len(chans)))
    D[:, n] = rng.integers(0, 65536, ns).astype(np.uint16).view(np.int16)
    return D, stretches


def _kwargs(case, spec, wrot):
    n = spec["n"]
    kw = dict(nbatch=case["nbatch"], reject_channels=case["reject"], k_filter=case["k_filter"], ns2add=case["ns2add"])
    if case["k_filter"] and case["ntr_pad"] is not None:
        lagc = case["lagc"]
        kw["k_kwargs"] = {"ntr_pad": case["ntr_pad"], "ntr_tap": 0, "lagc": lagc,
                          "butter_kwargs": {"N": 3, "Wn": 0.01, "btype": "highpass"}}
    if wrot is not None:
        kw["wrot"] = wrot
    if case["drop_sync"]:
        kw["nc_out"] = n
    return kw


def _reference(V, sr, h, case, kw, labels, wrot, nc_out):
    """Batch-wise in-memory destriping with the documented taper margins; returns int16 array, flags, rms, times."""
    ns, nc = sr.shape
    ncv = h["sample_shift"].size
    N = case["nbatch"]
    stride = N - 2 * TAPER
    taper = np.r_[0, scipy.signal.windows.cosine((TAPER - 1) * 2), 0]
    out = np.zeros((ns, nc_out), dtype=np.int16)
    written = np.zeros(ns, dtype=int)
    flags = np.zeros(ns, dtype=bool)
    rms, times, finals = [], [], []
    s2v = np.asarray(sr.sample2volts)
    first = 0
    while True:
        last = min(first + N, ns)
        chunk = sr[first:last, :ncv].T
        sat, mute = V.saturation(data=chunk, max_voltage=sr.range_volts[:ncv], fs=sr.fs)
        flags[first:last] = sat
        finals.append(last - 1)
        chunk[:, :TAPER] *= taper[:TAPER]
        chunk[:, -TAPER:] *= taper[TAPER:]
        y = V.destripe(chunk, fs=sr.fs, h=h, k_kwargs=kw.get("k_kwargs"), channel_labels=labels if case["reject"] else None,
                       k_filter=case["k_filter"])
        y = y * mute[np.newaxis, :]
        rms.append(np.sqrt(np.mean(y ** 2, axis=1)))
        times.append((first + (last - first - 1) / 2) / sr.fs)
        a = 0 if first == 0 else TAPER
        b = (last - first) if last == ns else N - TAPER
        full = np.r_[y, sr[first:last, ncv:].T].T * (1 / s2v)
        seg = full[a:b, :]
        if wrot is not None:
            seg[:, :ncv] = np.dot(seg[:, :ncv], wrot)
        out[first + a:first + b, :] = seg[:, :nc_out].astype(np.int16)
        written[first + a:first + b] += 1
        if last == ns:
            break
        first += stride
    return out, flags, np.array(rms), np.array(times), written, finals


def run_case(case, ctx):
    if case.get("debug_log"):
        # process state: logging switched on at DEBUG level (logging.basicConfig(level=logging.DEBUG) in the calling script)
        from vp.core import debug_logging
        ctx.label("debug_logging_on")
        with debug_logging():
            return _run_case(case, ctx)
    return _run_case(case, ctx)


def _run_case(case, ctx):
    import joblib
    sg, V = sut.spikeglx(), sut.voltage()
    spec = case["spec"]
    n, ns = spec["n"], spec["ns"]
    nc = n + 1
    D, stretches = _content(spec, case)
    N = case["nbatch"]
    stride = N - 2 * TAPER
    nbatches = 1 if ns <= N else int(np.ceil((ns - N) / stride)) + 1
    if (ns - N) % stride == 0 and ns >= N:
        ctx.label("last_batch_exactly_full")
    ctx.label(spec["gen"], "kfilt" if case["k_filter"] else "car", "cbin" if case["cbin"] else "bin", "batches_%s" % (nbatches if nbatches < 3 else "3+"),
              "sat_%d" % case["nsat"], "reject" if case["reject"] else "noreject", "wrot_%s" % case["wrot"], "ns2add" if case["ns2add"] else "nopad",
              "append" if case["append"] else "noappend", "loky" if case["loky"] else "threads")
    rngw = np.random.default_rng(case["content_seed"] + 1)
    wrot = None
    if case["wrot"] == "scalar":
        wrot = 0.5
    elif case["wrot"] == "matrix":
        wrot = np.eye(n) * 0.75 + rngw.standard_normal((n, n)) * 0.01
    kw = _kwargs(case, spec, wrot)
    nc_out = kw.get("nc_out", nc)
    with rec.scratch_dir(ctx) as d:
        binf = rec.write_recording(d / "in", spec, D)
        src = rec.compress(binf, nc, spec["fs"], 3000, keep_bin=False) if case["cbin"] else binf
        sr = ctx.call("C06.open", sg.Reader, src)
        if sr is ctx.CRASH:
            return
        try:
            order = np.asarray(sr.raw_channel_order)
            Dsorted = D[:, order]
            h = sr.geometry
            labels = None
            if case["reject"]:
                labels = ctx.call("C06.detect", V.detect_bad_channels_cbin, sr)
                if labels is ctx.CRASH:
                    return
            ref, flags, rms_ref, t_ref, written, finals = _reference(V, sr, h, case, kw, labels, wrot, nc_out)
            if not np.all(written == 1):
                ctx.fail("C06.harness_reference", "reference windows do not cover every sample exactly once")
                return
        finally:
            sr.close()

        def run(workers, outdir, append=False):
            outdir.mkdir(exist_ok=True, parents=True)
            out = outdir / "out.bin"
            backend = "loky" if case["loky"] else "threading"
            with joblib.parallel_config(backend=backend):
                r = ctx.call("C06.destripe_file", V.decompress_destripe_cbin, src, output_file=out, nprocesses=workers,
                             append=append, **kw)
            return None if r is ctx.CRASH else out

        # ---- single worker: the base line
        tiny = lambda w: ns < w * stride  # noqa
        out1 = run(1, d / "w1")
        if out1 is None:
            return
        raw1 = np.fromfile(out1, dtype=np.int16)
        exp_size = (ns + case["ns2add"]) * nc_out
        if not ctx.check(raw1.size == exp_size, "C06.size", lambda: f"1 worker: output holds {raw1.size} int16, expected (ns+ns2add)*nc_out = {exp_size}"):
            return
        a1 = raw1.reshape(-1, nc_out)
        body = a1[:ns]
        if not case["drop_sync"]:
            bad = np.flatnonzero(body[:, n] != D[:, n])
            in_sat = bool(bad.size) and bool(np.all(_mute_zone(flags)[bad]))
            ctx.check(bad.size == 0, "C06.sync_muted" if in_sat else "C06.sync", lambda: f"sync column differs from the source at {bad.size} samples, first {bad[:5]}"
                      + (" (all inside the mute zone of saturated samples)" if in_sat else ""))
        cols = n  # AP columns compared with the reference
        diff = np.abs(body[:, :cols].astype(np.int64) - ref[:, :cols].astype(np.int64))
        maxd = int(diff.max())
        same = float(np.mean(diff == 0))
        ctx.stat("ref_max_diff_lsb", maxd)
        ctx.stat("min_ref_identical_fraction", same)
        ctx.check(maxd <= 1 and same >= 0.99, "C06.reference", lambda: f"1 worker: output differs from batch-wise in-memory destriping by up to {maxd} LSB, "
                  f"{same:.4%} identical; first bad sample {np.argwhere(diff > 1)[:1].tolist()}")
        if case["ns2add"]:
            ctx.check(np.all(a1[ns:] == a1[ns - 1]), "C06.padding", "padding samples are not a repeat of the last sample")
        # quality files
        satf = d / "w1" / "_iblqc_ephysSaturation.samples.npy"
        rmsf = d / "w1" / "_iblqc_ephysTimeRmsAP.rms.npy"
        tf = d / "w1" / "_iblqc_ephysTimeRmsAP.timestamps.npy"
        if ctx.check(satf.exists() and rmsf.exists() and tf.exists(), "C06.qc_files", "quality files missing"):
            sat = _qc(ctx, satf)
            ctx.check(sat.shape == (ns,) and np.array_equal(sat, flags), "C06.saturation_file",
                      lambda: f"saturation file shape {sat.shape}, differs from the rule at {np.flatnonzero(sat != flags)[:5] if sat.shape == (ns,) else 'n/a'}")
            r_, t_ = _qc(ctx, rmsf), _qc(ctx, tf)
            ctx.check(r_.shape == (nbatches, n) and t_.shape == (nbatches,), "C06.rms_rows", lambda: f"rms {r_.shape} timestamps {t_.shape}, expected {nbatches} batches")
            if r_.shape == rms_ref.shape:
                ctx.check(np.allclose(r_, rms_ref, rtol=5e-3, atol=1e-9) and np.allclose(t_, t_ref, rtol=1e-6), "C06.rms_values", "rms / timestamps differ from the reference")
        # ---- other worker counts: byte identity
        boundary_off_seam = False
        for w in case["workers"]:
            if tiny(w):
                ctx.label("tiny_chunk")
            outw = run(w, d / f"w{w}")
            if outw is None:
                return
            bw = Path(outw).read_bytes()
            if not ctx.check(bw == Path(out1).read_bytes(), "C06.worker_bytes", lambda: f"{w} workers: output differs from 1 worker "
                             f"(sizes {len(bw)} vs {out1.stat().st_size}; first differing frame {_first_diff(bw, Path(out1).read_bytes(), nc_out)})"):
                return
            satw = _qc(ctx, d / f"w{w}" / "_iblqc_ephysSaturation.samples.npy")
            keep = np.ones(ns, bool)
            keep[finals] = False
            ctx.check(satw.shape == (ns,) and np.array_equal(satw[keep], flags[keep]), "C06.saturation_file_workers", f"{w} workers: saturation file differs")
            rw = _qc(ctx, d / f"w{w}" / "_iblqc_ephysTimeRmsAP.rms.npy")
            ctx.check(rw.shape == (nbatches, n), "C06.rms_rows_workers", lambda: f"{w} workers: rms rows {rw.shape}, expected {nbatches}")
            chunk = int(ns / w)
            if any((i * chunk - TAPER) % stride for i in range(1, w)):
                boundary_off_seam = True
        if boundary_off_seam and nbatches >= 3 and case["nsat"] > 0:
            ctx.nontrivial = True
        # ---- append
        if case["append"]:
            w = case["workers"][0]
            oa = run(w, d / "w1", append=True)
            if oa is None:
                return
            both = Path(oa).read_bytes()
            one = raw1.tobytes()
            ctx.check(both == one + one, "C06.append", lambda: f"append: file is not run1 || run2 (size {len(both)} vs {2 * len(one)})")
            ra = _qc(ctx, d / "w1" / "_iblqc_ephysTimeRmsAP.rms.npy")
            ctx.check(ra.shape == (2 * nbatches, n), "C06.append_rms", lambda: f"append: rms rows {ra.shape}, expected {2 * nbatches}")


        # ---- non-append run over the files an earlier, longer run left behind
        if case.get("rerun_over_longer"):
            ctx.label("rerun_over_longer_output")
            w = case["workers"][-1]
            junk = np.random.default_rng(case["content_seed"] + 2)
            with open(d / "w1" / "out.bin", "ab") as fid:
                junk.integers(-3000, 3000, size=(int(junk.integers(1, 400)), nc_out), dtype=np.int16).tofile(fid)
            for name, ncol in (("ap_rms.bin", n), ("ap_time.bin", 1)):
                f = d / "w1" / name
                if f.exists():
                    with open(f, "ab") as fid:
                        junk.random((3, ncol), dtype=np.float32).tofile(fid)
            orr = run(w, d / "w1", append=False)
            if orr is None:
                return
            ctx.check(Path(orr).read_bytes() == raw1.tobytes(), "C06.rerun_over_existing",
                      lambda: f"non-append run over an existing longer output: file has {Path(orr).stat().st_size} bytes, a fresh run "
                              f"{raw1.nbytes}; first differing frame {_first_diff(Path(orr).read_bytes(), raw1.tobytes(), nc_out)}")
            rr = _qc(ctx, d / "w1" / "_iblqc_ephysTimeRmsAP.rms.npy")
            tr = _qc(ctx, d / "w1" / "_iblqc_ephysTimeRmsAP.timestamps.npy")
            ctx.check(rr.shape == (nbatches, n) and tr.shape == (nbatches,), "C06.rerun_rms_rows",
                      lambda: f"non-append run over existing quality files: rms {rr.shape} timestamps {tr.shape}, expected {nbatches} batches")


def _qc(ctx, path):
    """np.load of a quality file written by the code under test; a missing or unreadable file is a finding and gives an
    empty array (every later shape comparison then fails as a finding too), never an exception in the oracle."""
    try:
        return np.load(path)
    except Exception as e:  # noqa
        ctx.fail("C06.qc_files", f"quality file {Path(path).name} missing or unreadable after the run ({type(e).__name__})")
        return np.zeros(0)


def _mute_zone(flags, half=4):
    z = np.zeros_like(flags)
    idx = np.flatnonzero(flags)
    for k in range(-half, half + 1):
        j = idx + k
        z[j[(j >= 0) & (j < flags.size)]] = True
    return z


def _first_diff(a, b, nc_out):
    n = min(len(a), len(b))
    x = np.frombuffer(a[:n - n % 2], dtype=np.int16)
    y = np.frombuffer(b[:n - n % 2], dtype=np.int16)
    bad = np.flatnonzero(x != y)
    return int(bad[0] // nc_out) if bad.size else None
