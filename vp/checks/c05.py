"""C05 - Destriping removes ADC-skewed common noise and keeps local spikes."""
import copy
import json

import numpy as np
import scipy.signal
from hypothesis import strategies as st

from vp import sut
from vp.oracles import calib

ID = "C05"
LEVEL = "exploration"
RULE = ("Five case types. stripe: a common-mode disturbance (1-5 sinusoids, AP 300 Hz-9 kHz at 30 kHz / LFP 10-250 Hz at "
        "2.5 kHz, Gaussian envelope centred in the central half, or integer-cycle periodic, or continuous; 10 uV-2 mV; "
        "float64/float32) evaluated at the physical instants (n + shift_c)/fs with shift_c from the harness' own ADC "
        "table (NP1/NPultra slot/13, NP2 slot/16), fed to destripe / destripe_lfp with the NP1, NP2 1-shank, NP2 "
        "4-shank or NPultra header (header passed, or only neuropixel_version; 384 channels or the first 192), k-filter "
        "(default or custom pad / AGC length / corner, no channel taper) or CAR (median / average), optional label "
        "vector (3 = above a per-shank depth + isolated, scattered 1/2). Oracle: on the central half every channel "
        "not labelled 3 has rms <= -40 dB re rms(temporal filter of the input designed in the harness); channels "
        "labelled 3 equal filter + harness FFT delay (1e-9 rel). spike: own Ricker / Gaussian-derivative / Gaussian "
        "template (sigma 1.5-5 samples, 50-500 uV) on the <= 8 nearest sites of the same shank with amplitude "
        "A/(1+k)^p, p in [2,4], sampled with the ADC skew, over 2-10 uV independent (+ optional common) noise, peak "
        "site at the bottom end, the top end / brain boundary or anywhere; kept = (destripe(bg+spike) - destripe(bg)) "
        "/ highpass(un-skewed spike) at the reference peak must be >= 0.9; CAR output has zero median (mean) per "
        "sample over the channels not labelled 3 (1e-12 scale). The peak site is additionally enumerated over every "
        "channel (thorough) / every 8th + 8 at both ends (quick) of the four headers with a fixed spike. labels: noise "
        "+ stripe, label vector with 3s and 1/2s farther than 100 um from any 3; replacing the data of the 3-labelled "
        "channels must leave every other output channel bit-identical and 3-labelled outputs == filter + delay. "
        "coll: car / kfilt / fk on 32-160 channels with 1-4 groups (>= 16 channels; contiguous, interleaved or "
        "shuffled; arbitrary numeric group values) and drawn operator / lagc / ntr_pad / ntr_tap / butter_kwargs / "
        "btype / kfilt / vbounds: output == the same call on each group alone written back to its rows (1e-12 scale); "
        "car output has zero median / mean per group and sample. agc: random (channels x samples) data incl. all-zero "
        "rows and zero stretches, window 1..4001 samples through (wl, si), epsilon default or > 0, lengths with ns + window "
        "== 3^k forced in one case of twelve (also as destripe / kfilt / fk batch length): out * gain == input "
        "(1e-12 scale, float32 1e-6), zero rows stay zero, all finite. Non-trivial = stripe with non-zero ADC shifts "
        "and a component >= 1 kHz (LFP >= 50 Hz); spike under the k-filter; labels with both kinds of channels; coll "
        "with >= 2 groups and a non-default operator / lagc / pad / btype / kfilt; agc with window > 1 and non-zero "
        "data. Distinct = distinct case hash. Dimensions drawn on top of every case type (all as case fields with class "
        "labels): memory layout of the data (C, Fortran order = `block.T`, window of a larger array, every other row/column, "
        "rows in reverse order (negative stride), read-only wherever the unchanged code accepts it - not for agc and for kfilt / fk with gain "
        "control and no groups, which write to their input by design), float32 / float64 data, label vector as float64 / "
        "float32 / int64 / int8 / uint8, read-only header / label / group arrays; call form of destripe / destripe_lfp: header "
        "+ version, version only (destripe_lfp: nothing = NP1), header with neuropixel_version left at its default, header "
        "with neuropixel_version=None (no re-alignment: the stripe is generated un-skewed and label-3 channels must equal "
        "the filter alone), k_filter given or left at the default, butter_kwargs default / default written out / another "
        "corner and order as Wn in Hz + fs, normalised or ndarray (the harness designs the same filter), channel_labels "
        "None / array / True (True == the call with the labels detect_bad_channels gives for the batch, AP only; LFP: shape "
        "and finiteness); agc(x) with wl / si defaulted. Re-use: the header, label and option objects of a case serve all "
        "its calls and must compare equal to deep copies afterwards (C05.argument_modified), the data array must be "
        "untouched after destripe / destripe_lfp (C05.input_modified - the repository's own CSD example filters `raw` again "
        "after destriping it); a share of the stripe / coll cases repeats the call with the same objects, directly or after "
        "a call with another header / labels / data / settings of the same shape, and requires the same answer (1e-12); "
        "agc is called again on what it returned. kfilt calls without groups (direct, or the per-group calls of the "
        "collection relation) are compared with a reference model written from the docstring: agc(wl=lagc, si=1) -> "
        "ntr_pad mirrored traces -> cosine taper over ntr_tap traces (None = ntr_pad) at both ends of the padded array "
        "-> zero-phase Butterworth along channels -> crop -> times gain (1e-9 of the output scale, float32 1e-5; measured "
        "0 and 4e-8). labels: in half of the cases the data of the channels labelled 1/2 is replaced as well - they are "
        "rebuilt from good neighbours, so the output may not change (C05.bad_channel_data_used).")
EXHAUSTIVE_NOTE = ("the peak site of a fixed spike (Ricker sigma 3 samples, 200 uV on 8 sites with 1/(1+k)^2, 5 uV "
                   "background, k-filter) is enumerated over every channel of the four dense headers in the thorough "
                   "tier (every 8th channel plus the 8 channels at both ends in the quick tier); every other dimension "
                   "(waveforms, amplitudes, labels, groupings, AGC lengths) is sampled")
ASSUMPTIONS = [
    "sample_shift is the fraction of a sampling period by which a channel is digitised after the nominal sample time: a "
    "disturbance s(t) is recorded as s((n + shift_c)/fs); the table comes from the harness (vp.oracles.calib), not from "
    "neuropixel.adc_shifts. The same table (in LF samples) is used for destripe_lfp, as the header defines it",
    "'high-passed' = zero-phase Butterworth order 3 at 300 Hz (LFP: band-pass 0.5-300 Hz), the documented defaults, "
    "designed in the harness with scipy; attenuation and kept amplitude are measured against it",
    "'confined to a few neighbouring channels' = at most 8 nearest sites of one shank, amplitude falling at least as "
    "1/(1+k)^2, 50-500 uV over 2-10 uV noise, template sigma 1.5-5 samples; wider or slower footprints lose more than "
    "10 % under the default k-filter and are outside the generated domain",
    "the attenuation is demanded for spatial filters without a channel taper (ntr_tap=0, the destripe default): a taper "
    "on the padded traces makes a common-mode input non-constant along channels by design",
    "bad channels (labels 1/2) are generated farther than 100 um (header x/y, shank ignored as interpolate_bad_channels "
    "does) from any channel labelled 3 in the metamorphic test: the interpolation, not the spatial filter, reads "
    "3-labelled neighbours and the property only excludes them from the spatial filter",
    "for LFP the stripe dies out inside the batch (Gaussian envelope, centre +- 3.5 sigma within the batch): the 0.5 Hz "
    "corner of the LFP band-pass leaves channel-dependent edge transients of seconds when the batch cuts a running "
    "stripe (17-35 dB measured); AP stripes may run through the batch edges (>= 58 dB measured)",
    "in a destripe call whose label vector contains channels labelled 1/2 every attenuation failure is attributed to the "
    "repair of those channels (kind C05.stripe_attenuation.interpolated): the residue sits on the rebuilt channels and "
    "leaks through the k-filter into their neighbours; calls without such labels carry the plain kinds",
    "agc: epsilon > 0 (with epsilon = 0 a zero stretch gives gain 0 and 0/0)",
    "an upper bound on the kept spike amplitude is not asserted (the property states a lower bound); the maximum is "
    "reported as a margin",
    "the data array handed to destripe / destripe_lfp, and every header / label / option object handed to any of the "
    "functions, is the caller's and is not changed (the unchanged code never does; the repository's CSD example and every "
    "loop over batches re-use them). agc - and through it kfilt / fk without groups - gain-controls its input in place by "
    "design: nothing is asserted about their data argument, and read-only data is outside their domain",
    "a result does not depend on what was called before in the same process: repeating a call with the same arguments "
    "gives the same answer",
    "the reference model of kfilt uses the repository's agc as a building block (its docstring fixes data * gain == input, "
    "which the agc cases check, not the window shape) and the cosine ramp documented for utils.fcn_cosine",
    "channel_labels=True for destripe_lfp runs the detector with a threshold of its own that no docstring states; only "
    "the AP form is compared with an explicit detect_bad_channels call",
]
BUDGET = {"quick": 560, "thorough": 24000}
SHRINK = {"quick": False, "thorough": False}
WALL_CAP = {"quick": 900, "thorough": 5400}

ATT_DB = 40.0
KEPT_MIN = 0.9
TOL_ID = 1e-9      # filter + delay reference vs implementation, relative to max |reference|
TOL_ZERO = {"f8": 1e-12, "f4": 1e-5}
TOL_COLL = 1e-12
TOL_KMODEL = {"f8": 1e-9, "f4": 1e-5}   # measured on the unchanged tree: 0 (float64), 4e-8 (float32)
TOL_AGC = {"f8": 1e-12, "f4": 1e-6}
DT = {"f8": np.float64, "f4": np.float32}

PROBES = {
    "NP1": {"version": 1, "nshank": 1, "gen": "3B2"},
    "NP2": {"version": 2, "nshank": 1, "gen": "NP2.1"},
    "NP2.4": {"version": 2, "nshank": 4, "gen": "NP2.4"},
    "NPultra": {"version": "NPultra", "nshank": 1, "gen": "NPultra"},
}
PROBE_NAMES = sorted(PROBES)
POW3 = {3 ** k for k in range(1, 16)}


# ------------------------------------------------------------------------------------------------
# harness-side models

def _ns_win(wl, si):
    """AGC window length in samples as documented: odd, round(wl / si) to the nearest odd number."""
    return int(np.round(wl / si / 2) * 2 + 1)


def _shifts(probe, nc):
    return np.asarray(calib.adc_table(PROBES[probe]["gen"], np.arange(nc))[1], dtype=float)


def _sos(fs, lfp):
    if lfp:
        return scipy.signal.butter(3, [0.5, 300], btype="bandpass", fs=fs, output="sos")
    return scipy.signal.butter(3, 300 / fs * 2, btype="highpass", output="sos")


def _delay(x, s):
    """Delay every row of x by s[row] samples (periodic band-limited interpolation), written with numpy's FFT."""
    ns = x.shape[1]
    X = np.fft.rfft(x, axis=1)
    k = np.arange(X.shape[1])
    X = X * np.exp(-2j * np.pi * k[None, :] * np.asarray(s)[:, None] / ns)
    return np.fft.irfft(X, ns, axis=1)


def _stripe(comps, mode, env, amp_uv, shifts, ns, fs):
    n = np.arange(ns)[None, :] + shifts[:, None]
    t = n / fs
    w = np.zeros_like(t)
    tot = 0.0
    for f, a, ph in comps:
        if mode == "periodic":
            f = max(1, int(round(f * ns / fs))) * fs / ns
        w += a * np.sin(2 * np.pi * f * t + ph)
        tot += a
    if mode == "env":
        w *= np.exp(-0.5 * ((n - env[0] * ns) / (env[1] * ns)) ** 2)
    return w * (amp_uv * 1e-6 / tot)


def _template(kind, tt, sig):
    u = tt / sig
    if kind == "ricker":
        return -(1 - u ** 2) * np.exp(-u ** 2 / 2)
    if kind == "dgauss":
        return -u * np.exp(-u ** 2 / 2) * np.exp(0.5)
    return -np.exp(-u ** 2 / 2)


def _header(ctx, probe, nc):
    P = PROBES[probe]
    h = ctx.call("C05.header", sut.neuropixel().trace_header, version=P["version"], nshank=P["nshank"])
    if h is ctx.CRASH:
        return h
    ok = isinstance(h, dict) and all(k in h and np.shape(h[k]) == (384,) for k in ("x", "y", "shank", "sample_shift"))
    if not ctx.check(ok, "C05.header", "trace_header does not return 384-long x / y / shank / sample_shift vectors"):
        return ctx.CRASH
    return {k: np.asarray(v)[:nc].copy() for k, v in h.items()}


def _labels(spec, h, nc):
    """Label vector from a small spec: 3 above a per-shank depth, isolated 3s, scattered 1/2 (optionally only farther
    than 100 um from any 3)."""
    if spec is None:
        return None
    lab = np.zeros(nc)
    y, x, shank = h["y"], h["x"], h["shank"]
    for i, s in enumerate(np.unique(shank)):
        sel = shank == s
        rows = np.unique(y[sel])
        ntop = int(round(spec["top"][i % len(spec["top"])] * rows.size))
        if ntop > 0:
            lab[sel & (y >= rows[-ntop])] = 3
    rng = np.random.default_rng(spec["seed"])
    if spec["iso3"]:
        lab[rng.choice(nc, size=spec["iso3"], replace=False)] = 3
    cand = np.flatnonzero(lab == 0)
    if spec.get("far") and np.any(lab == 3) and cand.size:
        o = np.flatnonzero(lab == 3)
        d = np.abs((x[cand, None] - x[None, o]) + 1j * (y[cand, None] - y[None, o])).min(axis=1)
        cand = cand[d > 100]
    nbad = min(spec["bad"], cand.size)
    if nbad:
        lab[rng.choice(cand, size=nbad, replace=False)] = rng.integers(1, 3, size=nbad)
    return lab


def _shape_ok(ctx, y, shape, kind):
    ok = isinstance(y, np.ndarray) and y.shape == tuple(shape)
    if not ctx.check(ok, kind + ".shape", lambda: f"returned {type(y).__name__} of shape {getattr(y, 'shape', None)}, expected {tuple(shape)}"):
        return False
    return ctx.check(bool(np.all(np.isfinite(y))), kind + ".finite", "output contains NaN or Inf")


# ------------------------------------------------------------------------------------------------
# call forms, memory layouts and argument bookkeeping (options / re-use / arguments / layout dimensions)

LAYOUTS_BIG = ["C", "F", "sliced", "neg", "ro", "ro_F"]     # destripe inputs (384 x ns): no layout that doubles the memory
LAYOUTS_SMALL = ["C", "F", "strided", "neg", "ro"]          # car / kfilt / fk / agc inputs
LAB_DT = {"f8": np.float64, "f4": np.float32, "i8": np.int64, "i1": np.int8, "u1": np.uint8}
TOL_REPEAT = 1e-12


def _lay(x, layout):
    """The values of the 2-D array x as a new array object in the drawn memory layout. F: Fortran order (what `block.T`
    of a (samples, channels) reader block is); sliced: a window of a larger array (rows not adjacent in memory);
    strided: every other row and column of a larger array; neg: rows stored in reverse order (negative row stride; unlike
    a block reversed on both axes it cannot be flattened without a copy); ro / ro_F: read-only (what np.memmap(mode='r')
    hands out)."""
    x = np.asarray(x)
    n0, n1 = x.shape
    if layout in ("F", "ro_F"):
        v = np.array(x, order="F")
    elif layout == "sliced":
        big = np.zeros((n0 + 3, n1 + 5), x.dtype)
        big[2:-1, 3:-2] = x
        v = big[2:-1, 3:-2]
    elif layout == "strided":
        big = np.zeros((2 * n0, 2 * n1 + 1), x.dtype)
        big[::2, 1::2] = x
        v = big[::2, 1::2]
    elif layout == "neg":
        v = np.array(x[::-1], order="C")[::-1]
    else:
        v = np.array(x, order="C")
    if layout.startswith("ro"):
        v.flags.writeable = False
    return v


def _eq(a, b):
    """Same type, structure and values (arguments before / after a call)."""
    if isinstance(a, dict):
        return isinstance(b, dict) and list(a.keys()) == list(b.keys()) and all(_eq(a[k], b[k]) for k in a)
    if isinstance(a, np.ndarray):
        if not (isinstance(b, np.ndarray) and a.dtype == b.dtype and a.shape == b.shape):
            return False
        try:
            return bool(np.array_equal(a, b, equal_nan=True))
        except TypeError:
            return bool(np.array_equal(a, b))
    if isinstance(a, (list, tuple)):
        return type(a) is type(b) and len(a) == len(b) and all(_eq(u, v) for u, v in zip(a, b))
    return type(a) is type(b) and (a == b or (a != a and b != b))


def _args_untouched(ctx, kw, snap, what):
    bad = sorted(set(k for k in snap if k not in kw or not _eq(kw[k], snap[k])) | set(k for k in kw if k not in snap))
    return ctx.check(not bad, "C05.argument_modified", lambda: f"{what} changed its argument(s) {bad} in place")


def _input_untouched(ctx, x_in, x_ref, what):
    same = isinstance(x_in, np.ndarray) and x_in.shape == x_ref.shape and bool(np.array_equal(x_in, x_ref))
    return ctx.check(same, "C05.input_modified", lambda: f"{what} changed the caller's data array in place")


def _butter_kw(case, fs):
    """butter_kwargs of a destripe case: None = left at its default, 'explicit' = the documented default written out,
    or {'N', 'fc' (Hz; [lo, hi] = band-pass), 'form'} with form fs (Wn in Hz + fs), norm (Wn / Nyquist) or array."""
    b = case.get("butter")
    lfp = bool(case.get("lfp"))
    if b is None:
        return None
    if b == "explicit":
        if lfp:
            return {"N": 3, "Wn": [0.5, 300], "btype": "bandpass", "fs": fs}
        return {"N": 3, "Wn": 300 / fs * 2, "btype": "highpass"}
    band = isinstance(b["fc"], list)
    out = {"N": int(b["N"]), "btype": "bandpass" if band else "highpass"}
    if b["form"] == "fs":
        out["Wn"] = list(b["fc"]) if band else b["fc"]
        out["fs"] = fs
    elif b["form"] == "array":
        out["Wn"] = np.array(b["fc"], dtype=float) / fs * 2
    else:
        out["Wn"] = [f / fs * 2 for f in b["fc"]] if band else b["fc"] / fs * 2
    return out


def _sos_case(case, fs, lfp):
    """The temporal filter of the case designed in the harness (same parametrisation as handed to the code under test)."""
    bk = _butter_kw(case, fs)
    if bk is None:
        return _sos(fs, lfp)
    return scipy.signal.butter(**bk, output="sos")


def _dargs(case, h, labels, fs):
    """Function and keyword arguments (objects that are re-used for every call of the case) in the drawn call form.
    hmode: h = header + neuropixel_version, ver = only neuropixel_version (destripe_lfp: nothing, its default is the NP1
    header), h_only = header with neuropixel_version left at its default, none = header + neuropixel_version=None
    (documented: no ADC correction). kf_form default = k_filter omitted where the drawn value is the default."""
    vo = sut.voltage()
    P = PROBES[case["probe"]]
    lfp = bool(case.get("lfp"))
    hmode = case.get("hmode", "h")
    ro = bool(case.get("aux_ro"))
    kw = {}
    if labels is True:
        kw["channel_labels"] = True
    elif labels is not None:
        lab = np.array(labels).astype(LAB_DT[case.get("lab_dtype", "f8")])
        if ro:
            lab.flags.writeable = False
        kw["channel_labels"] = lab
    hh = {k: np.array(v) for k, v in h.items()}
    if ro:
        for v in hh.values():
            v.flags.writeable = False
    bk = _butter_kw(case, fs)
    if bk is not None:
        kw["butter_kwargs"] = bk
    if not (case.get("kf_form") == "default" and bool(case["kf"]) == (not lfp)):
        kw["k_filter"] = case["kf"]
    if lfp:
        if hmode != "ver":
            kw["h"] = hh
        return vo.destripe_lfp, kw
    if case.get("kk") is not None:
        kw["k_kwargs"] = copy.deepcopy(case["kk"])
    if hmode == "ver":
        kw["neuropixel_version"] = P["version"]
    elif hmode == "h_only":
        kw["h"] = hh
    elif hmode == "none":
        kw["h"] = hh
        kw["neuropixel_version"] = None
    else:
        kw["h"] = hh
        kw["neuropixel_version"] = P["version"]
    return vo.destripe, kw


def _eff_shifts(case, nc):
    """ADC delays the recording of the case carries: none when the call says neuropixel_version=None."""
    if case.get("hmode") == "none":
        return np.zeros(nc)
    return _shifts(case["probe"], nc)


def _dim_labels(case, ctx):
    ctx.label("layout_" + case.get("layout", "C"), "kf_form_" + case.get("kf_form", "explicit"),
              "butter_" + ("default" if case.get("butter") is None else "explicit" if case.get("butter") == "explicit" else "custom"))
    if case.get("aux_ro"):
        ctx.label("header_labels_readonly")
    if case.get("labels") is not None:
        ctx.label("labels_dtype_" + case.get("lab_dtype", "f8"))


def _pollute_destripe(ctx, kind, case, fn, kw, x, fs, nc):
    """A call of the same function with DIFFERENT arguments of the same shape (other probe header / version, other
    labels, other data) between two calls with the same arguments. Only a crash is reported."""
    other = PROBE_NAMES[(PROBE_NAMES.index(case["probe"]) + 1) % len(PROBE_NAMES)]
    kw2 = copy.deepcopy(kw)
    if "h" in kw2 or fn is sut.voltage().destripe_lfp:
        h2 = _header(ctx, other, nc)
        if h2 is ctx.CRASH:
            return h2
        kw2["h"] = h2
    else:
        kw2["neuropixel_version"] = 1 if PROBES[case["probe"]]["version"] == 2 else 2
    if isinstance(kw2.get("channel_labels"), np.ndarray):
        kw2["channel_labels"] = np.array(kw2["channel_labels"][::-1])
    elif "channel_labels" not in kw2:
        lab2 = np.zeros(nc)
        lab2[-24:] = 3
        lab2[[40, 41]] = 1
        kw2["channel_labels"] = lab2
    x2 = np.array(x[::-1, ::-1] * 1.5, dtype=x.dtype, order="C")
    return ctx.call(kind, fn, x2, fs, **kw2)


def _repeat_destripe(ctx, kind, case, fn, kw, snap, x_in, x, fs, y, what):
    """Second call with the SAME argument objects (optionally after a call with different ones): same answer."""
    nc, ns = x.shape
    mode = case.get("reuse")
    ctx.label("reuse_" + str(mode))
    if mode == "polluted":
        if _pollute_destripe(ctx, kind, case, fn, kw, x, fs, nc) is ctx.CRASH:
            return
    y2 = ctx.call(kind, fn, x_in, fs, **kw)
    if y2 is ctx.CRASH or not _shape_ok(ctx, y2, (nc, ns), "C05.destripe"):
        return
    scale = float(np.max(np.abs(y))) or 1.0
    err = float(np.max(np.abs(y2 - y))) / scale
    ctx.stat("repeat_call_rel_diff", err)
    ctx.check(err <= TOL_REPEAT, "C05.repeat_call",
              lambda: f"{what}: a second call with the same argument objects"
                      f"{' after a call with another header / labels / data' if mode == 'polluted' else ''} differs from the "
                      f"first by {err:.3g} of the output scale")
    _input_untouched(ctx, x_in, x, what)
    _args_untouched(ctx, kw, snap, what)


# ------------------------------------------------------------------------------------------------
# strategies

def _st_labels(draw, far, need3, max_top=0.5, allow_bad=True):
    lo = 0.03 if need3 else 0.0
    top = [draw(st.one_of(st.just(lo), st.floats(lo, max_top))) for _ in range(draw(st.sampled_from([1, 1, 4])))]
    return {"top": [round(t, 3) for t in top], "iso3": draw(st.integers(0, 4)),
            "bad": draw(st.integers(0, 6)) if allow_bad else 0, "seed": draw(st.integers(0, 2 ** 31)), "far": far}


def _st_comps(draw, lfp):
    flo, fhi = (10.0, 250.0) if lfp else (300.0, 9000.0)
    n = draw(st.integers(1, 5))
    return [[round(draw(st.floats(flo, fhi)), 3), round(draw(st.floats(0.2, 1.0)), 3), round(draw(st.floats(0, 6.283)), 3)]
            for _ in range(n)]


def _st_kk(draw, kf):
    if draw(st.integers(0, 9)) < 6:
        return None
    if not kf:
        kk = dict(draw(st.sampled_from([{}, {"operator": "median"}, {"operator": "average"}])))
        if draw(st.booleans()):   # the dictionary a caller uses for both variants (destripe's own default goes to car too)
            kk.update({"ntr_pad": 60, "ntr_tap": 0, "lagc": 3000, "butter_kwargs": {"N": 3, "Wn": 0.01, "btype": "highpass"}})
        return kk
    return {"ntr_pad": draw(st.sampled_from([0, 20, 60])), "ntr_tap": 0,
            "lagc": draw(st.sampled_from([None, 300, 1000, 3000, 4500])),
            "butter_kwargs": {"N": 3, "Wn": draw(st.sampled_from([0.01, 0.02, 0.05])), "btype": "highpass"}}


def _kfilt_wins(case):
    """AGC windows that the spatial filter may use for this destripe case (requested one and the defaults)."""
    fs = 2500.0 if case.get("lfp") else 30000.0
    wins = [301]
    if fs >= 3000:
        wins.append(_ns_win(int(fs / 10), 1.0))
    kk = case.get("kk")
    if kk and kk.get("lagc"):
        wins.append(_ns_win(kk["lagc"], 1.0))
    return wins


def _st_ns(draw, case):
    """Batch length 4000..12000; one case in twelve takes a length for which ns + AGC window is a power of three (the
    gain convolution then runs on an odd FFT size): 3560 / 16682 with the default 3001-sample window."""
    if draw(st.integers(0, 11)) == 0:
        cand = sorted({p - w for p in (6561, 19683) for w in _kfilt_wins(case) if 3500 <= p - w <= 17000})
        if cand:
            return draw(st.sampled_from(cand))
    return draw(st.integers(4000, 12000))


def _st_butter(draw, lfp):
    """butter_kwargs: left at the default (AP 2 of 3, LFP 1 of 3), the default written out, or another corner / order in one of the
    parametrisations scipy accepts (the LFP resampler of the repository builds Wn as an array)."""
    k = draw(st.integers(0, 8))
    if k < (3 if lfp else 6):
        return None
    if k == 6:
        return "explicit"
    if lfp:
        n, fc = draw(st.sampled_from([(3, [2.0, 200.0]), (2, [0.5, 300.0]), (2, [2.0, 200.0]), (3, [1.0, 400.0])]))
        return {"N": n, "fc": list(fc), "form": draw(st.sampled_from(["fs", "norm", "array"]))}
    return {"N": draw(st.sampled_from([2, 3, 4])), "fc": draw(st.sampled_from([150.0, 300.0, 600.0])),
            "form": draw(st.sampled_from(["fs", "norm", "array"]))}


def _st_hmode(draw, probe, lfp, nc):
    """How the probe geometry / ADC table reaches the call (see _dargs)."""
    if lfp:
        return "ver" if (probe == "NP1" and nc == 384 and draw(st.booleans())) else "h"
    if probe != "NP2.4" and nc == 384 and draw(st.integers(0, 3)) == 0:
        return "ver"
    return draw(st.sampled_from(["h", "h", "h", "h_only", "h_only", "none"]))


def _st_dims(draw, case):
    """Memory layout of the data, read-only header / label arrays, dtype of the label vector, k_filter given or defaulted."""
    case["layout"] = draw(st.sampled_from(["C", "C", "F", "F", "sliced", "neg", "ro", "ro_F"]))
    case["aux_ro"] = draw(st.integers(0, 3)) == 0
    case["lab_dtype"] = draw(st.sampled_from(["f8", "u1", "i8", "u1", "i1", "f4"])) if case.get("labels") else "f8"
    case["kf_form"] = draw(st.sampled_from(["explicit", "default"]))


@st.composite
def _st_stripe(draw):
    probe = draw(st.sampled_from(PROBE_NAMES))
    lfp = draw(st.integers(0, 5)) == 0
    kf = draw(st.booleans())
    nc = draw(st.sampled_from([384, 384, 384, 192]))
    hmode = _st_hmode(draw, probe, lfp, nc)
    mode = "env" if lfp else draw(st.sampled_from(["env", "env", "periodic", "cont"]))
    env = None
    if mode == "env":
        c = round(draw(st.floats(0.25, 0.75)), 3)
        if lfp:   # the stripe has to die out inside the batch: the 0.5 Hz corner makes edge transients seconds long
            env = [c, round(draw(st.floats(0.3, 1.0)) * min(c, 1 - c) / 3.5, 4)]
        else:
            env = [c, round(draw(st.floats(0.025, 0.3)), 3)]
    case = {"t": "stripe", "probe": probe, "lfp": lfp, "kf": kf, "nc": nc, "hmode": hmode,
            "comps": _st_comps(draw, lfp), "mode": mode, "env": env,
            "amp_uv": draw(st.sampled_from([10.0, 50.0, 200.0, 1000.0, 2000.0])),
            "dtype": "f4" if draw(st.integers(0, 4)) == 0 else "f8",
            "kk": None if lfp else _st_kk(draw, kf)}
    case["butter"] = _st_butter(draw, lfp)
    if isinstance(case["butter"], dict):   # the channels labelled 3 (== temporal filter + re-alignment) pin a non-default filter
        case["labels"] = _st_labels(draw, far=False, need3=True)
    else:
        case["labels"] = _st_labels(draw, far=False, need3=False) if draw(st.integers(0, 2)) == 0 else None
    _st_dims(draw, case)
    # re-use: the same argument objects a second time (2 in 15), or after a call with another header / labels / data (1 in 15)
    k = draw(st.integers(0, 29))
    case["reuse"] = "same" if k < 4 else ("polluted" if k < 6 else None)
    case["ns"] = draw(st.integers(4000, 6000)) if case["reuse"] else _st_ns(draw, case)
    return case


@st.composite
def _st_spike(draw):
    probe = draw(st.sampled_from(PROBE_NAMES))
    kf = draw(st.integers(0, 3)) != 0
    nc = draw(st.sampled_from([384, 384, 384, 192]))
    labels = _st_labels(draw, far=False, need3=True, allow_bad=False) if draw(st.integers(0, 3)) == 0 else None
    if labels:
        labels["iso3"] = 0
    where = draw(st.sampled_from(["bottom", "top", "any"]))
    sel = {"mode": where, "k": draw(st.integers(0, 7))} if where != "any" else {"mode": "any", "u": round(draw(st.floats(0, 0.999)), 4)}
    hmode = draw(st.sampled_from(["h", "h", "h", "h_only"]))
    if probe != "NP2.4" and nc == 384 and draw(st.integers(0, 5)) == 0:
        hmode = "ver"
    case = {"t": "spike", "probe": probe, "kf": kf, "nc": nc, "hmode": hmode, "lfp": False, "kk": None, "labels": labels,
            "site_sel": sel, "nsites": draw(st.integers(1, 8)), "p": round(draw(st.one_of(st.just(2.0), st.floats(2.0, 4.0))), 3),
            "amp_uv": round(draw(st.one_of(st.sampled_from([50.0, 500.0]), st.floats(50, 500))), 2),
            "bg_uv": round(draw(st.one_of(st.sampled_from([2.0, 10.0]), st.floats(2, 10))), 2),
            "common_uv": draw(st.sampled_from([0.0, 0.0, 5.0, 10.0])),
            "tmpl": draw(st.sampled_from(["ricker", "dgauss", "gauss"])),
            "sig": round(draw(st.one_of(st.sampled_from([1.5, 5.0]), st.floats(1.5, 5.0))), 3),
            "t0": round(draw(st.floats(0.3, 0.7)), 5), "bg_seed": draw(st.integers(0, 2 ** 31))}
    _st_dims(draw, case)
    case["ns"] = _st_ns(draw, case)
    return case


@st.composite
def _st_labels_case(draw):
    probe = draw(st.sampled_from(PROBE_NAMES))
    lfp = draw(st.integers(0, 3)) == 0
    nc = draw(st.sampled_from([384, 384, 192]))
    case = {"t": "labels", "probe": probe, "lfp": lfp, "kf": draw(st.booleans()), "nc": nc,
            "hmode": _st_hmode(draw, probe, lfp, nc), "kk": None, "labels": _st_labels(draw, far=True, need3=True),
            "comps": _st_comps(draw, lfp)[:2], "amp_uv": draw(st.sampled_from([0.0, 50.0, 500.0])),
            "bg_uv": draw(st.sampled_from([2.0, 5.0, 10.0])), "bg_seed": draw(st.integers(0, 2 ** 31)),
            "alt_seed": draw(st.integers(0, 2 ** 31)), "alt_gain": draw(st.sampled_from([0.0, 1.0, 30.0, 1000.0]))}
    case["ns"] = draw(st.integers(4000, 8000))
    case["butter"] = _st_butter(draw, lfp)
    _st_dims(draw, case)
    case["dtype"] = "f4" if draw(st.integers(0, 3)) == 0 else "f8"
    case["alt_bad"] = draw(st.booleans())
    case["lab_mode"] = "true" if draw(st.integers(0, 3)) == 0 else "array"
    return case


def _st_groups(draw):
    ng = draw(st.sampled_from([1, 2, 2, 3, 4]))
    sizes = [draw(st.integers(16, 40)) for _ in range(ng)]
    vals = draw(st.lists(st.sampled_from([0, 1, 2, 3, -1, 7, 2.5, 10, 384]), min_size=ng, max_size=ng, unique=True))
    if draw(st.booleans()):
        vals = list(range(ng))
    return {"sizes": sizes, "vals": vals, "mode": draw(st.sampled_from(["blocks", "interleaved", "shuffled"])),
            "seed": draw(st.integers(0, 2 ** 31)), "float": draw(st.booleans())}


@st.composite
def _st_coll(draw):
    fn = draw(st.sampled_from(["car", "kfilt", "kfilt", "fk", "fk"]))
    groups = _st_groups(draw)
    if fn == "car" and draw(st.integers(0, 3)) == 0:
        groups = None
    if fn == "kfilt" and draw(st.integers(0, 3)) == 0:
        groups = None   # no collection: the call is compared with the reference model of kfilt directly
    gmin = min(groups["sizes"]) if groups else 16
    case = {"t": "coll", "fn": fn, "groups": groups, "nc1": draw(st.integers(16, 64)), "seed": draw(st.integers(0, 2 ** 31)),
            "scale": draw(st.sampled_from([1.0, 1e-5, 300.0]))}
    ns = draw(st.integers(48, 600))
    s = {}
    wins = [301]
    if fn == "car":
        op = draw(st.sampled_from([None, "median", "average", "average"]))
        if op:
            s["operator"] = op
        if draw(st.integers(0, 3)) == 0:
            s.update({"ntr_pad": 60, "ntr_tap": 0, "lagc": 3000})   # destripe hands its k_kwargs to car
    elif fn == "kfilt":
        if draw(st.integers(0, 3)) != 0:
            s["lagc"] = draw(st.sampled_from([None, 0, 21, 76, 1000, 300]))
        if draw(st.integers(0, 2)) != 0:   # none, a few, more than a quarter of the channels of the smallest group
            s["ntr_pad"] = draw(st.one_of(st.integers(0, min(12, gmin)), st.integers(gmin // 4 + 1, gmin)))
        if draw(st.booleans()):
            s["ntr_tap"] = draw(st.one_of(st.none(), st.integers(0, 8)))
        if draw(st.booleans()):
            s["butter_kwargs"] = {"N": draw(st.integers(1, 4)), "Wn": draw(st.sampled_from([0.02, 0.1, 0.25, 0.4])),
                                  "btype": draw(st.sampled_from(["highpass", "highpass", "lowpass"]))}
        if s.get("lagc"):
            wins.append(_ns_win(s["lagc"], 1.0))
    else:
        si = draw(st.sampled_from([0.002, 0.002, 1 / 2500, 1 / 30000]))
        dx = draw(st.sampled_from([1, 1, 20e-6, 25.0]))
        v0 = dx / si
        lo = draw(st.sampled_from([0.05, 0.2, 1.0, 3.0]))
        s.update({"si": si, "dx": dx, "vbounds": [lo * v0, lo * v0 * draw(st.sampled_from([1.5, 2.0, 4.0]))]})
        if draw(st.integers(0, 2)) != 0:
            s["btype"] = draw(st.sampled_from(["lowpass", "lp", "highpass", "hp"]))
        if draw(st.booleans()):
            s["ntr_pad"] = draw(st.integers(0, min(12, gmin)))
        if draw(st.integers(0, 2)) == 0:
            s["ntr_tap"] = draw(st.integers(0, 8))
        if draw(st.integers(0, 2)) != 0:
            s["lagc"] = draw(st.sampled_from([None, 0, 0.5, 20 * si, 75 * si]))
        if draw(st.integers(0, 2)) != 0:
            k0 = draw(st.sampled_from([0.02, 0.05, 0.2])) / dx
            s["kfilt"] = {"bounds": [k0, 2 * k0], "btype": draw(st.sampled_from(["highpass", "lowpass"]))}
        wins = [_ns_win(0.5, si)]
        if s.get("lagc"):
            wins.append(_ns_win(s["lagc"], si))
    case["s"] = s
    case["dtype"] = "f4" if draw(st.integers(0, 4)) == 0 else "f8"
    case["layout"] = draw(st.sampled_from(LAYOUTS_SMALL))
    case["coll_ro"] = draw(st.integers(0, 3)) == 0
    case["reuse"] = draw(st.sampled_from([None, None, "same", "polluted"]))
    if draw(st.integers(0, 9)) == 0:   # batch length + AGC window == 3^k (odd FFT size in the gain convolution)
        cand = [p - w for p in (243, 729) for w in wins if 48 <= p - w <= 700]
        if cand:
            ns = draw(st.sampled_from(cand))
    case["ns"] = ns
    return case


@st.composite
def _st_agc(draw, tier):
    ns_win = 2 * draw(st.one_of(st.integers(0, 40), st.integers(0, 2000))) + 1
    form = "default" if draw(st.integers(0, 5)) == 0 else "explicit"
    if form == "default":
        ns_win = 251   # agc(x): wl=0.5 s at si=0.002 s
    if draw(st.integers(0, 11)) == 0:
        kmax = 8 if tier == "thorough" else 7
        tot = 3 ** draw(st.integers(3, kmax))
        ns_win = min(ns_win, tot - 8 - (tot - 8) % 2 - 1)
        ns = tot - ns_win
        pow3 = True
    else:
        ns = draw(st.one_of(st.integers(8, 300), st.integers(8, 6000)))
        pow3 = False
    si = draw(st.sampled_from([1.0, 0.002, 1 / 30000, 1 / 2500]))
    # wl such that round(wl / si / 2) * 2 + 1 == ns_win, away from the rounding ties
    wl = (ns_win - 1 + draw(st.sampled_from([0.0, 0.4, -0.4]))) * si
    if _ns_win(wl, si) != ns_win:
        wl = (ns_win - 1) * si
    if form == "default" and ns_win == 251:
        wl, si = 0.5, 0.002
    else:
        form = "explicit"
    nc = draw(st.one_of(st.integers(2, 24), st.integers(1, 24)))   # a single row is C- and Fortran-contiguous at once
    return {"t": "agc", "nc": nc, "ns": ns, "wl": wl, "si": si, "ns_win": ns_win, "pow3": pow3, "form": form,
            "layout": draw(st.sampled_from(["C", "C", "F", "strided", "neg"])), "again": draw(st.integers(0, 2)) == 0,
            "eps": draw(st.sampled_from([None, None, 1e-8, 1e-6, 1e-3, 1.0])),
            "dtype": "f4" if draw(st.integers(0, 4)) == 0 else "f8",
            "scale": draw(st.sampled_from([1.0, 1e-5, 1e-6, 3e4])),
            "zero_rows": sorted(draw(st.sets(st.integers(0, nc - 1), max_size=min(3, nc)))),
            "zero_stretch": draw(st.booleans()), "sparse": draw(st.integers(0, 4)) == 0,
            "seed": draw(st.integers(0, 2 ** 31))}


@st.composite
def _case(draw, tier):
    t = draw(st.sampled_from(["stripe"] * 6 + ["spike"] * 4 + ["labels"] * 2 + ["coll"] * 6 + ["agc"] * 2))
    if t == "stripe":
        return draw(_st_stripe())
    if t == "spike":
        return draw(_st_spike())
    if t == "labels":
        return draw(_st_labels_case())
    if t == "coll":
        return draw(_st_coll())
    return draw(_st_agc(tier))


def strategy(tier):
    return _case(tier)


# ------------------------------------------------------------------------------------------------
# enumeration: spike peak site over every depth

_ENUM_SPIKE = {"t": "spike", "kf": True, "nc": 384, "hmode": "h", "lfp": False, "kk": None, "labels": None, "nsites": 8,
               "p": 2.0, "amp_uv": 200.0, "bg_uv": 5.0, "common_uv": 0.0, "tmpl": "ricker", "sig": 3.0, "t0": 0.50003,
               "bg_seed": 20240517, "ns": 4000}


def enum_shards(tier):
    if tier == "thorough":
        sites = list(range(384))
        nsh = 8
    else:
        sites = sorted(set(range(0, 8)) | set(range(376, 384)) | set(range(8, 376, 8)))
        nsh = 3
    out = []
    for p in PROBE_NAMES:
        for i in range(nsh):
            out.append({"probe": p, "sites": sites[i::nsh]})
    return out


def enum_cases(desc):
    for s in desc["sites"]:
        c = dict(_ENUM_SPIKE)
        c["probe"] = desc["probe"]
        c["site_sel"] = {"mode": "abs", "site": s}
        yield c


# ------------------------------------------------------------------------------------------------
# known findings (each key recognises exactly one diagnosed root cause)

KNOWN = {
    "car_collection_operator": lambda case, f: f.kind == "C05.coll.car.operator_dropped",
    "kfilt_collection_lagc": lambda case, f: f.kind == "C05.coll.kfilt.lagc_dropped",
    "kfilt_collection_pad": lambda case, f: f.kind == "C05.coll.kfilt.pad_dropped",
    "fk_collection_btype": lambda case, f: f.kind == "C05.coll.fk.btype_dropped",
    "fk_collection_kfilt": lambda case, f: f.kind == "C05.coll.fk.kfilt_dropped",
    "stripe_on_interpolated_channels": lambda case, f: f.kind == "C05.stripe_attenuation.interpolated",
}


# ------------------------------------------------------------------------------------------------
# run

def run_case(case, ctx):
    t = case["t"]
    if t == "stripe":
        _run_stripe(case, ctx)
    elif t == "spike":
        _run_spike(case, ctx)
    elif t == "labels":
        _run_labels(case, ctx)
    elif t == "coll":
        _run_coll(case, ctx)
    else:
        _run_agc(case, ctx)


def _common_labels(case, ctx, labels):
    ctx.label("t_" + case["t"], "probe_" + case["probe"], "kfilt" if case["kf"] else "car",
              "lfp" if case.get("lfp") else "ap", "hmode_" + case.get("hmode", "h"), "nc%d" % case["nc"],
              "labels" if labels is not None else "nolabels")
    if any((case["ns"] + w) in POW3 for w in _kfilt_wins(case)):
        ctx.label("ns_plus_agc_window_pow3")
    if labels is not None:
        if np.any((labels == 1) | (labels == 2)):
            ctx.label("labels_bad")
        if np.any(labels == 3):
            ctx.label("labels_outside")


def _check_outside(ctx, y, ref, shifts, labels, kind="C05.outside_untouched"):
    """Channels labelled 3 must come back as temporal filter + re-alignment only."""
    l3 = np.flatnonzero(labels == 3)
    if l3.size == 0:
        return
    exp = _delay(ref[l3], shifts[l3])
    scale = float(np.max(np.abs(ref))) or 1.0
    err = float(np.max(np.abs(y[l3] - exp))) / scale
    ctx.stat("outside_rel_err", err)
    ctx.check(err <= TOL_ID, kind, lambda: f"channels labelled 3 differ from temporal filter + ADC re-alignment by {err:.3g} "
                                           f"of the signal scale (first channel {int(l3[0])})")


def _run_stripe(case, ctx):
    nc, ns, lfp = case["nc"], case["ns"], case["lfp"]
    fs = 2500.0 if lfp else 30000.0
    h = _header(ctx, case["probe"], nc)
    if h is ctx.CRASH:
        return
    shifts = _eff_shifts(case, nc)
    labels = _labels(case["labels"], h, nc)
    _common_labels(case, ctx, labels)
    _dim_labels(case, ctx)
    ctx.label("stripe_" + case["mode"], "dtype_" + case["dtype"], "kk_custom" if case["kk"] is not None else "kk_default")
    if case["kk"] and case["kk"].get("operator"):
        ctx.label("car_" + case["kk"]["operator"])
    fnt = 50.0 if lfp else 1000.0
    hi = any(c[0] >= fnt for c in case["comps"])
    ctx.label("stripe_hf" if hi else "stripe_lf_only")
    if hi and np.any(shifts != 0):
        ctx.nontrivial = True
    x = _stripe(case["comps"], case["mode"], case["env"], case["amp_uv"], shifts, ns, fs).astype(DT[case["dtype"]])
    kind_call = "C05.destripe_lfp" if lfp else "C05.destripe"
    what = "destripe_lfp" if lfp else "destripe"
    x_in = _lay(x, case.get("layout", "C"))
    fn, kw = _dargs(case, h, labels, fs)
    snap = copy.deepcopy(kw)
    y = ctx.call(kind_call, fn, x_in, fs, **kw)
    if y is ctx.CRASH or not _shape_ok(ctx, y, (nc, ns), "C05.destripe"):
        return
    # callers keep using the raw block and the header after destriping (the repository's CSD example filters `raw` again)
    _input_untouched(ctx, x_in, x, what)
    _args_untouched(ctx, kw, snap, what)
    ref = scipy.signal.sosfiltfilt(_sos_case(case, fs, lfp), x)
    good = np.flatnonzero(labels == 0) if labels is not None else np.arange(nc)
    interp = np.flatnonzero((labels == 1) | (labels == 2)) if labels is not None else np.arange(0)
    sl = slice(ns // 4, ns - ns // 4)
    r_ref = float(np.sqrt(np.mean(ref[good, sl] ** 2)))
    if not r_ref > 0:
        ctx.label("stripe_degenerate")
        return
    tag = "lfp" if lfp else ("kfilt" if case["kf"] else "car")
    # channels labelled 1/2 are rebuilt from their neighbours before the spatial filter: what the repair leaves of the
    # stripe (on the rebuilt channel and, through the k-filter, on its neighbours) is one root cause with its own kind
    k_plain = "C05.stripe_attenuation" + (".lfp" if lfp else "")
    k_rep = "C05.stripe_attenuation.interpolated"
    for chans, name, kind in ((good, "with_repaired_neighbours_" if interp.size else "", k_rep if interp.size else k_plain),
                              (interp, "repaired_", k_rep)):
        if chans.size == 0:
            continue
        rc = np.sqrt(np.mean(y[chans][:, sl] ** 2, axis=1))
        att = float(-20 * np.log10(max(float(rc.max()) / r_ref, 1e-30)))
        att_all = float(-20 * np.log10(max(float(np.sqrt(np.mean(rc ** 2))) / r_ref, 1e-30)))
        ctx.stat("min_stripe_att_db_%sworst_channel_%s" % (name, tag), att)
        if not name:
            ctx.stat("min_stripe_att_db_all_channels_" + tag, att_all)
        ctx.check(att >= ATT_DB, kind,
                  lambda: f"common-mode stripe attenuated by only {att:.1f} dB on {name.replace('_', ' ')}channel "
                          f"{int(chans[int(np.argmax(rc))])} ({att_all:.1f} dB over all such channels), {tag}, probe "
                          f"{case['probe']}, {int(interp.size)} channels labelled 1/2")
    if labels is not None:
        _check_outside(ctx, y, ref, shifts, labels)
    if case.get("reuse"):
        _repeat_destripe(ctx, kind_call, case, fn, kw, snap, x_in, x, fs, y, what)


_BG_CACHE = {}


def _run_spike(case, ctx):
    nc, ns, kf = case["nc"], case["ns"], case["kf"]
    fs = 30000.0
    h = _header(ctx, case["probe"], nc)
    if h is ctx.CRASH:
        return
    shifts = _shifts(case["probe"], nc)
    labels = _labels(case["labels"], h, nc)
    _common_labels(case, ctx, labels)
    _dim_labels(case, ctx)
    inside = np.flatnonzero(labels != 3) if labels is not None else np.arange(nc)
    sel = case["site_sel"]
    if sel["mode"] == "abs":
        site = int(sel["site"])
    elif sel["mode"] == "bottom":
        site = int(inside[min(sel["k"], inside.size - 1)])
    elif sel["mode"] == "top":
        site = int(inside[max(inside.size - 1 - sel["k"], 0)])
    else:
        site = int(inside[int(sel["u"] * inside.size)])
    ctx.label("site_" + sel["mode"], "tmpl_" + case["tmpl"], "nsites_%d" % case["nsites"])
    same = np.flatnonzero(h["shank"] == h["shank"][site])
    d = np.hypot(h["x"][same] - h["x"][site], h["y"][same] - h["y"][site])
    order = same[np.argsort(d, kind="stable")][:case["nsites"]]
    if order[0] != site:   # several sites at distance 0 cannot happen on a dense layout, keep the peak first anyway
        order = np.r_[site, order[order != site]][:case["nsites"]]
    rng = np.random.default_rng(case["bg_seed"])
    bg = rng.standard_normal((nc, ns)) * (case["bg_uv"] * 1e-6)
    if case["common_uv"]:
        bg += rng.standard_normal((1, ns)) * (case["common_uv"] * 1e-6)
    t0 = case["t0"] * ns
    n = np.arange(ns)
    x1 = bg.copy()
    sp0 = None
    for k, ch in enumerate(order):
        a = case["amp_uv"] * 1e-6 / (1 + k) ** case["p"]
        x1[ch] += a * _template(case["tmpl"], n + shifts[ch] - t0, case["sig"])
        if k == 0:
            sp0 = a * _template(case["tmpl"], n - t0, case["sig"])
    key = json.dumps([str(sut.voltage().__file__), case["probe"], nc, ns, kf, case["bg_seed"], case["bg_uv"], case["common_uv"],
                      case["labels"], case.get("layout", "C"), case.get("hmode", "h"), case.get("kf_form", "explicit"),
                      case.get("lab_dtype", "f8"), bool(case.get("aux_ro"))], sort_keys=True)
    layout = case.get("layout", "C")
    fn, kw = _dargs(case, h, labels, fs)   # the same header / label / option objects serve both calls
    snap = copy.deepcopy(kw)
    y0 = _BG_CACHE.get(key)
    if y0 is None:
        bg_in = _lay(bg, layout)
        y0 = ctx.call("C05.destripe", fn, bg_in, fs, **kw)
        if y0 is ctx.CRASH or not _shape_ok(ctx, y0, (nc, ns), "C05.destripe"):
            return
        _input_untouched(ctx, bg_in, bg, "destripe")
        del bg_in
        _BG_CACHE.clear()
        _BG_CACHE[key] = y0
    x1_in = _lay(x1, layout)
    y1 = ctx.call("C05.destripe", fn, x1_in, fs, **kw)
    if y1 is ctx.CRASH or not _shape_ok(ctx, y1, (nc, ns), "C05.destripe"):
        return
    _input_untouched(ctx, x1_in, x1, "destripe")
    _args_untouched(ctx, kw, snap, "destripe")
    del x1_in
    ref = scipy.signal.sosfiltfilt(_sos(fs, False), sp0)
    i = int(np.argmax(np.abs(ref)))
    kept = float((y1[site, i] - y0[site, i]) / ref[i])
    tag = "kfilt" if kf else "car"
    ctx.stat("min_spike_kept_" + tag, kept)
    ctx.stat("max_spike_kept_" + tag, kept)
    if kf:
        ctx.nontrivial = True
    ctx.check(kept >= KEPT_MIN, "C05.spike_kept",
              lambda: f"spike at channel {site} ({case['nsites']} sites, {case['amp_uv']} uV over {case['bg_uv']} uV, {tag}, "
                      f"{case['probe']}) keeps {kept:.3f} of its high-passed amplitude")
    if not kf:
        # CAR through destripe: zero median over the channels that went through the spatial filter
        m = np.median(y1[inside], axis=0)
        scale = float(np.max(np.abs(y1[inside]))) or 1.0
        err = float(np.max(np.abs(m))) / scale
        ctx.stat("destripe_car_median_rel", err)
        ctx.check(err <= TOL_ZERO["f8"], "C05.destripe_car_zero",
                  lambda: f"median over the referenced channels is {err:.3g} of the scale after destripe(k_filter=False)")
    if labels is not None and np.any(labels == 3):
        ref_all = scipy.signal.sosfiltfilt(_sos(fs, False), x1[labels == 3])
        full = np.zeros((nc, ns))
        full[labels == 3] = ref_all
        _check_outside(ctx, y1, full, shifts, labels)


def _run_labels(case, ctx):
    nc, ns, lfp = case["nc"], case["ns"], case["lfp"]
    fs = 2500.0 if lfp else 30000.0
    h = _header(ctx, case["probe"], nc)
    if h is ctx.CRASH:
        return
    shifts = _eff_shifts(case, nc)
    labels = _labels(case["labels"], h, nc)
    _common_labels(case, ctx, labels)
    _dim_labels(case, ctx)
    dtype = case.get("dtype", "f8")
    layout = case.get("layout", "C")
    ctx.label("dtype_" + dtype)
    rng = np.random.default_rng(case["bg_seed"])
    x = rng.standard_normal((nc, ns)) * (case["bg_uv"] * 1e-6)
    if case["amp_uv"]:
        x += _stripe(case["comps"], "cont", None, case["amp_uv"], shifts, ns, fs)
    kind = "C05.destripe_lfp" if lfp else "C05.destripe"
    what = "destripe_lfp" if lfp else "destripe"
    if case.get("lab_mode") == "true":
        _run_labels_true(case, ctx, x.astype(DT[dtype]), fs, h, kind, what)
        return
    l3 = labels == 3
    bad = (labels == 1) | (labels == 2)
    if l3.any() and (~l3).any():
        ctx.nontrivial = True
    x2 = x.copy()
    rng2 = np.random.default_rng(case["alt_seed"])
    x2[l3] = rng2.standard_normal((int(l3.sum()), ns)) * (case["bg_uv"] * 1e-6 * case["alt_gain"])
    x3 = None
    if case.get("alt_bad") and bad.any():
        # channels labelled 1 (dead) / 2 (noisy) are rebuilt from their good neighbours: what they recorded is irrelevant
        ctx.label("alt_bad_channels")
        x3 = x2.copy()
        x2[bad] = rng2.standard_normal((int(bad.sum()), ns)) * (case["bg_uv"] * 1e-6 * max(case["alt_gain"], 1.0))
    ctx.label("alt_gain_%g" % case["alt_gain"])
    x, x2 = x.astype(DT[dtype]), x2.astype(DT[dtype])
    fn, kw = _dargs(case, h, labels, fs)   # the same header / label / option objects serve both calls
    snap = copy.deepcopy(kw)
    x_in = _lay(x, layout)
    y = ctx.call(kind, fn, x_in, fs, **kw)
    if y is ctx.CRASH or not _shape_ok(ctx, y, (nc, ns), "C05.destripe"):
        return
    _input_untouched(ctx, x_in, x, what)
    del x_in
    x2_in = _lay(x2, layout)
    y2 = ctx.call(kind, fn, x2_in, fs, **kw)
    if y2 is ctx.CRASH or not _shape_ok(ctx, y2, (nc, ns), "C05.destripe"):
        return
    _input_untouched(ctx, x2_in, x2, what)
    _args_untouched(ctx, kw, snap, what)
    del x2_in
    same = np.array_equal(y[~l3], y2[~l3])
    if not same:
        dmax = float(np.max(np.abs(y[~l3] - y2[~l3])))
        ctx.stat("labels_leak_abs", dmax)
        from_bad = False
        if x3 is not None:   # diagnosis only: which of the two replacements leaks
            y3 = ctx.call(kind, fn, _lay(x3.astype(DT[dtype]), layout), fs, **kw)
            if y3 is ctx.CRASH or not _shape_ok(ctx, y3, (nc, ns), "C05.destripe"):
                return
            from_bad = bool(np.array_equal(y[~l3], y3[~l3]))
        if from_bad:
            ctx.fail("C05.bad_channel_data_used",
                     f"changing the data recorded on the {int(bad.sum())} channels labelled 1/2 (which are rebuilt from their "
                     f"neighbours) changes the output by up to {dmax:.3g} V (input noise {case['bg_uv']} uV)")
        else:
            ctx.fail("C05.outside_excluded",
                     f"changing the data of the {int(l3.sum())} channels labelled 3 changes the other output channels by up "
                     f"to {dmax:.3g} V (input noise {case['bg_uv']} uV)")
    sos = _sos_case(case, fs, lfp)
    for xx, yy in ((x, y), (x2, y2)):
        full = np.zeros((nc, ns))
        full[l3] = scipy.signal.sosfiltfilt(sos, xx[l3])
        if np.max(np.abs(full)) > 0:
            _check_outside(ctx, yy, full, shifts, labels)
        else:
            ctx.check(not np.any(yy[l3]), "C05.outside_untouched", "all-zero channels labelled 3 come back non-zero")


def _run_labels_true(case, ctx, x, fs, h, kind, what):
    """channel_labels=True ('deduces the bad channels from the data provided'): the answer is the one for the labels that
    the repository's detector gives for this very batch. destripe_lfp runs the detector with settings of its own that
    no docstring states: only the shape and finiteness of its answer are asserted."""
    nc, ns = x.shape
    lfp = bool(case.get("lfp"))
    ctx.label("labels_true")
    # a dead and a loud channel so that the detector has something to report
    x = x.copy()
    x[nc // 3] = 0
    x[nc // 2] *= 40
    fn, kw = _dargs(case, h, True, fs)
    snap = copy.deepcopy(kw)
    x_in = _lay(x, case.get("layout", "C"))
    y = ctx.call(kind, fn, x_in, fs, **kw)
    if y is ctx.CRASH or not _shape_ok(ctx, y, (nc, ns), "C05.destripe"):
        return
    _input_untouched(ctx, x_in, x, what)
    _args_untouched(ctx, kw, snap, what)
    if lfp:
        return
    det = ctx.call("C05.detect_bad_channels", sut.voltage().detect_bad_channels, x.copy(), fs)
    if det is ctx.CRASH:
        return
    ok = isinstance(det, tuple) and len(det) == 2 and isinstance(det[0], np.ndarray) and det[0].shape == (nc,)
    if not ctx.check(ok, "C05.detect_bad_channels.shape", "detect_bad_channels does not return (labels of length nc, features)"):
        return
    ctx.nontrivial = bool(np.any(det[0] != 0))
    kw2 = dict(kw)
    kw2["channel_labels"] = det[0].copy()
    y_exp = ctx.call(kind, fn, x.copy(), fs, **kw2)
    if y_exp is ctx.CRASH or not _shape_ok(ctx, y_exp, (nc, ns), "C05.destripe"):
        return
    scale = float(np.max(np.abs(y_exp))) or 1.0
    err = float(np.max(np.abs(y - y_exp))) / scale
    ctx.stat("labels_true_rel_diff", err)
    ctx.check(err <= TOL_REPEAT, "C05.labels_true",
              lambda: f"destripe(channel_labels=True) differs by {err:.3g} of the output scale from destripe with the labels "
                      f"detect_bad_channels gives for the same batch ({int(np.sum(det[0] != 0))} channels flagged)")


# ---- collections / referencing

def _collection(g, nc_default):
    if g is None:
        return None, nc_default
    vals = [float(v) for v in g["vals"]] if g["float"] else g["vals"]
    seq = []
    if g["mode"] == "interleaved":
        left = list(g["sizes"])
        while any(left):
            for i, v in enumerate(vals):
                if left[i]:
                    seq.append(v)
                    left[i] -= 1
    else:
        for v, n in zip(vals, g["sizes"]):
            seq.extend([v] * n)
    coll = np.array(seq)
    if g["mode"] == "shuffled":
        coll = coll[np.random.default_rng(g["seed"]).permutation(coll.size)]
    return coll, coll.size


def _same(a, b, scale, tol=TOL_COLL):
    if np.array_equal(a, b):
        return True, 0.0
    d = float(np.max(np.abs(np.asarray(a, dtype=np.float64) - np.asarray(b, dtype=np.float64)))) / scale
    return d <= tol, d


def _cos_ramp(b0, b1, i):
    """0 up to b0, 1 from b1 on, half a cosine period in between (utils.fcn_cosine: 'soft thresholding ... cosine taper')."""
    i = np.asarray(i, dtype=float)
    out = (1 - np.cos((i - b0) / (b1 - b0) * np.pi)) / 2
    out[i <= b0] = 0
    out[i >= b1] = 1
    return out


def _kfilt_model(ctx, x, s):
    """kfilt without collection as its docstring describes it: automatic gain control over lagc samples (the repository's
    agc with si=1, checked on its own by the agc cases), ntr_pad mirrored traces on each side, cosine apodisation over
    ntr_tap traces on each side of the padded array (ntr_tap=None: ntr_pad), zero-phase Butterworth along the channels,
    padding removed, gain multiplied back."""
    x = np.array(x, order="C")
    nx, ns = x.shape
    bk = s.get("butter_kwargs") or {"N": 3, "Wn": 0.1, "btype": "highpass"}
    pad = int(s.get("ntr_pad", 0))
    tap = s.get("ntr_tap")
    tap = pad if tap is None else tap
    lagc = s.get("lagc", 300)
    nxp = nx + 2 * pad
    if lagc:
        r = ctx.call("C05.agc", sut.voltage().agc, x, wl=lagc, si=1.0)
        if r is ctx.CRASH:
            return r
        ok = isinstance(r, tuple) and len(r) == 2 and all(isinstance(a, np.ndarray) and a.shape == (nx, ns) for a in r)
        if not ctx.check(ok, "C05.agc.shape", "agc does not return (data, gain) of the input shape"):
            return ctx.CRASH
        xf, gain = np.array(r[0], dtype=np.float64), np.array(r[1], dtype=np.float64)
    else:
        xf, gain = x.astype(np.float64), 1.0
    if pad > 0:
        xf = np.concatenate([xf[:pad][::-1], xf, xf[-pad:][::-1]], axis=0)
    if tap > 0:
        i = np.arange(nxp)
        xf = xf * (_cos_ramp(0, tap, i) * (1 - _cos_ramp(nxp - tap, nxp, i)))[:, None]
    xf = scipy.signal.sosfiltfilt(scipy.signal.butter(**copy.deepcopy(bk), output="sos"), xf, axis=0)
    if pad > 0:
        xf = xf[pad:nxp - pad]
    return xf * gain


def _per_group(ctx, kind, fn, x, coll, kw):
    out = np.zeros_like(x)
    for c in np.unique(coll):
        sel = coll == c
        r = ctx.call(kind, fn, x[sel].copy(), **copy.deepcopy(kw))
        if r is ctx.CRASH:
            return r
        if not (isinstance(r, np.ndarray) and r.shape == x[sel].shape):
            ctx.fail(kind + ".shape", f"{fn.__name__} on one group of shape {x[sel].shape} returned shape {getattr(r, 'shape', None)}")
            return ctx.CRASH
        out[sel] = r
    return out


def _drop(kw, *names):
    return {k: v for k, v in kw.items() if k not in names}


def _kfilt_direct(ctx, Y, x, coll, s, dtype, scale):
    """kfilt calls without collection (Y: their results written to the rows of each group) against the reference model."""
    M = np.zeros(x.shape)
    for c in np.unique(coll):
        sel = coll == c
        m = _kfilt_model(ctx, x[sel], s)
        if m is ctx.CRASH:
            return
        M[sel] = m
    if not np.all(np.isfinite(M)):
        ctx.label("kfilt_model_not_finite")
        return
    ref = float(np.max(np.abs(M))) or scale
    err = float(np.max(np.abs(np.asarray(Y, dtype=np.float64) - M))) / ref
    ctx.stat("kfilt_model_rel_err_" + dtype, err)
    ctx.label("kfilt_model", "kfilt_tap_" + ("default" if s.get("ntr_tap") is None else "0" if s["ntr_tap"] == 0 else "gt0"),
              "kfilt_pad_" + ("0" if not s.get("ntr_pad") else "gt0"))
    ctx.check(err <= TOL_KMODEL[dtype], "C05.kfilt_model",
              lambda: f"kfilt({s}) on {x.shape[0]} channels x {x.shape[1]} samples differs by {err:.3g} of the output scale from "
                      f"gain control -> mirrored padding -> cosine taper -> zero-phase Butterworth along channels -> crop -> gain")


def _run_coll(case, ctx):
    vo = sut.voltage()
    fn_name, s = case["fn"], copy.deepcopy(case["s"])
    coll, nc = _collection(case["groups"], case["nc1"])
    ns = case["ns"]
    dtype = case.get("dtype", "f8")
    rng = np.random.default_rng(case["seed"])
    x = rng.standard_normal((nc, ns)) * rng.uniform(0.3, 3, (nc, 1)) + rng.standard_normal((1, ns))
    x += np.sin(np.arange(ns) / 7.0)[None, :] * np.linspace(-1, 1, nc)[:, None]
    x = (x * case["scale"]).astype(DT[dtype])
    scale = float(np.max(np.abs(x)))
    ng = 0 if coll is None else np.unique(coll).size
    ctx.label("t_coll", "fn_" + fn_name, "groups_%d" % ng, "dtype_" + dtype)
    if case["groups"]:
        ctx.label("coll_" + case["groups"]["mode"])
    fn = getattr(vo, fn_name)
    tol = TOL_COLL if dtype == "f8" else 1e-6
    # without groups the gain control works on (and needs to write to) the caller's array; with groups, or without gain
    # control, and for car the unchanged code accepts read-only data
    agc_on = fn_name != "car" and bool(s.get("lagc", 300 if fn_name == "kfilt" else 0.5))
    layout = case.get("layout", "C")
    if layout.startswith("ro") and coll is None and agc_on:
        layout = "C"
    ctx.label("layout_" + layout)
    nd = []   # non default settings that the recursion has to carry
    if fn_name == "car":
        if s.get("operator") == "average":
            nd.append("operator")
        ctx.label("car_op_%s" % s.get("operator"))
    elif fn_name == "kfilt":
        if "lagc" in s and s["lagc"] != 300:
            nd.append("lagc")
        if s.get("ntr_pad", 0) != 0 or s.get("ntr_tap") not in (None, 0):
            nd.append("pad")
        if "butter_kwargs" in s:
            nd.append("butter")
    else:
        if s.get("btype", "highpass").lower() in ("lowpass", "lp"):
            nd.append("btype")
        if s.get("kfilt") is not None:
            nd.append("kfilt")
        if "lagc" in s and s["lagc"] != 0.5:
            nd.append("lagc")
        if s.get("ntr_pad", 0) != 0 or s.get("ntr_tap") not in (None, 0):
            nd.append("pad")
    ctx.label(*["nd_" + fn_name + "_" + n for n in nd])
    if ng >= 2 and nd:
        ctx.nontrivial = True
    kind = "C05.coll." + fn_name
    kwc = copy.deepcopy(s)
    if coll is not None:
        kwc["collection"] = coll.copy()
        if case.get("coll_ro"):
            kwc["collection"].flags.writeable = False
            ctx.label("collection_readonly")
    snap = copy.deepcopy(kwc)
    G = ctx.call(kind, fn, _lay(x, layout), **kwc)
    if G is ctx.CRASH or not _shape_ok(ctx, G, (nc, ns), kind):
        return
    _args_untouched(ctx, kwc, snap, fn_name)
    if case.get("reuse"):
        # the same option objects (dicts, lists, group vector) and the same data a second time, optionally after a call
        # with other settings and other data of the same shape
        ctx.label("reuse_" + case["reuse"])
        if case["reuse"] == "polluted":
            kw2 = copy.deepcopy(kwc)
            if fn_name == "car":
                kw2["operator"] = "average" if s.get("operator", "median") == "median" else "median"
            elif fn_name == "kfilt":
                kw2["lagc"] = None if s.get("lagc", 300) else 50
                kw2["butter_kwargs"] = {"N": 2, "Wn": 0.3, "btype": "lowpass"}
            else:
                kw2["btype"] = "lowpass" if s.get("btype", "highpass").lower() in ("highpass", "hp") else "highpass"
                kw2["vbounds"] = [2 * v for v in s["vbounds"]]
            if ctx.call(kind, fn, np.array(x[::-1, ::-1] * 1.5, dtype=x.dtype, order="C"), **kw2) is ctx.CRASH:
                return
        G2 = ctx.call(kind, fn, _lay(x, layout), **kwc)
        if G2 is ctx.CRASH or not _shape_ok(ctx, G2, (nc, ns), kind):
            return
        ok2, d2 = _same(G2, G, scale, TOL_REPEAT)
        ctx.check(ok2, kind + ".repeat_call",
                  lambda: f"{fn_name}: a second call with the same arguments"
                          f"{' after a call with other settings' if case['reuse'] == 'polluted' else ''} differs from the first "
                          f"by {d2:.3g} of the data scale ({s})")
        _args_untouched(ctx, kwc, snap, fn_name)
    E = None
    if fn_name == "kfilt" and coll is None:
        _kfilt_direct(ctx, G, x, np.zeros(nc), s, dtype, scale)
    dropped = []
    if coll is not None:
        E = _per_group(ctx, kind + ".single_group", fn, x, coll, s)
        if E is ctx.CRASH:
            return
        if fn_name == "kfilt":
            _kfilt_direct(ctx, E, x, coll, s, dtype, scale)
        ok, d = _same(G, E, scale, tol)
        ctx.stat("coll_rel_diff_when_equal", d if ok else 0.0)
        if not ok:
            # diagnose: which setting did the recursion lose (one kind per root cause)
            alts = []
            if fn_name == "car" and "operator" in nd:
                alts = [(("operator",), ["operator_dropped"])]
            elif fn_name == "kfilt":
                if "lagc" in nd:
                    alts.append((("lagc",), ["lagc_dropped"]))
                if "pad" in nd:
                    alts.append((("ntr_pad", "ntr_tap"), ["pad_dropped"]))
                if "lagc" in nd and "pad" in nd:
                    alts.append((("lagc", "ntr_pad", "ntr_tap"), ["lagc_dropped", "pad_dropped"]))
            elif fn_name == "fk":
                if "btype" in nd:
                    alts.append((("btype",), ["btype_dropped"]))
                if "kfilt" in nd:
                    alts.append((("kfilt",), ["kfilt_dropped"]))
                if "btype" in nd and "kfilt" in nd:
                    alts.append((("btype", "kfilt"), ["btype_dropped", "kfilt_dropped"]))
            for names, kinds in alts:
                A = _per_group(ctx, kind + ".single_group", fn, x, coll, _drop(s, *names))
                if A is ctx.CRASH:
                    return
                if _same(G, A, scale, tol)[0]:
                    dropped = kinds
                    break
            msg = (f"{fn_name}(x, collection={ng} groups {case['groups']['mode']}, {s}) differs from the same call on each "
                   f"group alone by {d:.3g} of the data scale")
            if dropped:
                for k in dropped:
                    ctx.fail(kind + "." + k, msg + f"; it equals the per-group result with {k.split('_')[0]} left at its default")
            else:
                ctx.fail(kind, msg)
    if fn_name == "car":
        op = s.get("operator", "median")
        if "operator_dropped" in dropped:
            ctx.label("car_zero_skipped_operator_dropped")
            return
        red = np.median if op == "median" else np.mean
        worst = 0.0
        groups = [np.ones(nc, bool)] if coll is None else [coll == c for c in np.unique(coll)]
        for sel in groups:
            worst = max(worst, float(np.max(np.abs(red(G[sel].astype(np.float64), axis=0)))))
        err = worst / scale
        ctx.stat("car_zero_rel_" + dtype, err)
        ctx.check(err <= TOL_ZERO[dtype], "C05.car_zero_" + ("median" if op == "median" else "mean"),
                  lambda: f"car(operator={op!r}, {ng} groups): |{op}| over a group reaches {err:.3g} of the data scale")


# ---- gain control

def _run_agc(case, ctx):
    vo = sut.voltage()
    nc, ns, dtype = case["nc"], case["ns"], case["dtype"]
    rng = np.random.default_rng(case["seed"])
    x = rng.standard_normal((nc, ns)) * rng.uniform(0.1, 10, (nc, 1)) * case["scale"]
    if case["sparse"]:
        x *= rng.random((nc, ns)) < 0.05
    if case["zero_stretch"] and ns >= 4:
        a = int(rng.integers(0, ns // 2))
        x[:, a:a + max(1, ns // 3)] = 0
    x[case["zero_rows"]] = 0
    x0 = x.astype(DT[dtype])
    layout = case.get("layout", "C")   # agc writes to its input by design: no read-only layout
    x = _lay(x0, layout)
    nw = _ns_win(case["wl"], case["si"])
    form = case.get("form", "explicit")
    ctx.label("t_agc", "dtype_" + dtype, "agc_win_1" if nw == 1 else ("agc_win_gt_ns" if nw > ns else "agc_win_lt_ns"),
              "agc_eps_default" if case["eps"] is None else "agc_eps_given", "layout_" + layout, "agc_form_" + form)
    if (ns + nw) in POW3:
        ctx.label("agc_pow3")
    if case["zero_rows"]:
        ctx.label("agc_zero_rows")
    if nw > 1 and np.any(x0):
        ctx.nontrivial = True
    kw = {} if case["eps"] is None else {"epsilon": case["eps"]}
    if form != "default":   # default form: agc(x) with the documented wl=0.5 s, si=0.002 s (251 samples)
        kw.update({"wl": case["wl"], "si": case["si"]})
    r = ctx.call("C05.agc", vo.agc, x, **kw)
    if r is ctx.CRASH:
        return
    ok = isinstance(r, tuple) and len(r) == 2 and all(isinstance(a, np.ndarray) and a.shape == (nc, ns) for a in r)
    if not ctx.check(ok, "C05.agc.shape", "agc does not return (data, gain) of the input shape"):
        return
    out, gain = r
    if not ctx.check(bool(np.all(np.isfinite(out)) and np.all(np.isfinite(gain))), "C05.agc.finite", "NaN/Inf in data or gain"):
        return
    scale = float(np.max(np.abs(x0))) or 1.0
    err = float(np.max(np.abs(out.astype(np.float64) * gain - x0))) / scale
    ctx.stat("agc_product_rel_" + dtype, err)
    ctx.check(err <= TOL_AGC[dtype], "C05.agc_product",
              lambda: f"out * gain differs from the input by {err:.3g} of the data scale (window {nw}, ns {ns})")
    z = np.flatnonzero(~np.any(x0, axis=1))
    if z.size:
        ctx.check(not np.any(out[z]), "C05.agc_zero_channel", "an all-zero channel does not stay zero")
    if case.get("again"):
        # a second call, on what the first one returned (in this code base the caller's own array, gain-controlled in place)
        ctx.label("agc_again")
        x1 = np.array(out, order="C")
        r = ctx.call("C05.agc", vo.agc, out, **kw)
        if r is ctx.CRASH:
            return
        ok = isinstance(r, tuple) and len(r) == 2 and all(isinstance(a, np.ndarray) and a.shape == (nc, ns) for a in r)
        if not ctx.check(ok, "C05.agc.shape", "agc does not return (data, gain) of the input shape"):
            return
        out2, gain2 = r
        if not ctx.check(bool(np.all(np.isfinite(out2)) and np.all(np.isfinite(gain2))), "C05.agc.finite", "NaN/Inf in data or gain"):
            return
        scale1 = float(np.max(np.abs(x1))) or 1.0
        err2 = float(np.max(np.abs(out2.astype(np.float64) * gain2 - x1))) / scale1
        ctx.stat("agc_product_rel_" + dtype, err2)
        ctx.check(err2 <= TOL_AGC[dtype], "C05.agc_product",
                  lambda: f"second call: out * gain differs from the input by {err2:.3g} of the data scale (window {nw}, ns {ns})")
