"""C05 - Destriping removes ADC-skewed common noise and keeps local spikes."""
import copy
import json

import numpy as np
import scipy.signal
from hypothesis import strategies as st

from vp import sut
from vp.oracles import calib

ID = "C05"
LEVEL = "exploration"
RULE = ("Five case types. stripe: a common-mode disturbance (1-5 sinusoids, AP 300 Hz-9 kHz at 30 kHz / LFP 10-250 Hz at "
        "2.5 kHz, Gaussian envelope centred in the central half, or integer-cycle periodic, or continuous; 10 uV-2 mV; "
        "float64/float32) evaluated at the physical instants (n + shift_c)/fs with shift_c from the harness' own ADC "
        "table (NP1/NPultra slot/13, NP2 slot/16), fed to destripe / destripe_lfp with the NP1, NP2 1-shank, NP2 "
        "4-shank or NPultra header (header passed, or only neuropixel_version; 384 channels or the first 192), k-filter "
        "(default or custom pad / AGC length / corner, no channel taper) or CAR (median / average), optional label "
        "vector (3 = above a per-shank depth + isolated, scattered 1/2). Oracle: on the central half every channel "
        "not labelled 3 has rms <= -40 dB re rms(temporal filter of the input designed in the harness); channels "
        "labelled 3 equal filter + harness FFT delay (1e-9 rel). spike: own Ricker / Gaussian-derivative / Gaussian "
        "template (sigma 1.5-5 samples, 50-500 uV) on the <= 8 nearest sites of the same shank with amplitude "
        "A/(1+k)^p, p in [2,4], sampled with the ADC skew, over 2-10 uV independent (+ optional common) noise, peak "
        "site at the bottom end, the top end / brain boundary or anywhere; kept = (destripe(bg+spike) - destripe(bg)) "
        "/ highpass(un-skewed spike) at the reference peak must be >= 0.9; CAR output has zero median (mean) per "
        "sample over the channels not labelled 3 (1e-12 scale). The peak site is additionally enumerated over every "
        "channel (thorough) / every 8th + 8 at both ends (quick) of the four headers with a fixed spike. labels: noise "
        "+ stripe, label vector with 3s and 1/2s farther than 100 um from any 3; replacing the data of the 3-labelled "
        "channels must leave every other output channel bit-identical and 3-labelled outputs == filter + delay. "
        "coll: car / kfilt / fk on 32-160 channels with 1-4 groups (>= 16 channels; contiguous, interleaved or "
        "shuffled; arbitrary numeric group values) and drawn operator / lagc / ntr_pad / ntr_tap / butter_kwargs / "
        "btype / kfilt / vbounds: output == the same call on each group alone written back to its rows (1e-12 scale); "
        "car output has zero median / mean per group and sample. agc: random (channels x samples) data incl. all-zero "
        "rows and zero stretches, window 1..4001 samples through (wl, si), epsilon default or > 0, lengths with ns + window "
        "== 3^k forced in one case of twelve (also as destripe / kfilt / fk batch length): out * gain == input "
        "(1e-12 scale, float32 1e-6), zero rows stay zero, all finite. Non-trivial = stripe with non-zero ADC shifts "
        "and a component >= 1 kHz (LFP >= 50 Hz); spike under the k-filter; labels with both kinds of channels; coll "
        "with >= 2 groups and a non-default operator / lagc / pad / btype / kfilt; agc with window > 1 and non-zero "
        "data. Distinct = distinct case hash.")
EXHAUSTIVE_NOTE = ("the peak site of a fixed spike (Ricker sigma 3 samples, 200 uV on 8 sites with 1/(1+k)^2, 5 uV "
                   "background, k-filter) is enumerated over every channel of the four dense headers in the thorough "
                   "tier (every 8th channel plus the 8 channels at both ends in the quick tier); every other dimension "
                   "(waveforms, amplitudes, labels, groupings, AGC lengths) is sampled")
ASSUMPTIONS = [
    "sample_shift is the fraction of a sampling period by which a channel is digitised after the nominal sample time: a "
    "disturbance s(t) is recorded as s((n + shift_c)/fs); the table comes from the harness (vp.oracles.calib), not from "
    "neuropixel.adc_shifts. The same table (in LF samples) is used for destripe_lfp, as the header defines it",
    "'high-passed' = zero-phase Butterworth order 3 at 300 Hz (LFP: band-pass 0.5-300 Hz), the documented defaults, "
    "designed in the harness with scipy; attenuation and kept amplitude are measured against it",
    "'confined to a few neighbouring channels' = at most 8 nearest sites of one shank, amplitude falling at least as "
    "1/(1+k)^2, 50-500 uV over 2-10 uV noise, template sigma 1.5-5 samples; wider or slower footprints lose more than "
    "10 % under the default k-filter and are outside the generated domain",
    "the attenuation is demanded for spatial filters without a channel taper (ntr_tap=0, the destripe default): a taper "
    "on the padded traces makes a common-mode input non-constant along channels by design",
    "bad channels (labels 1/2) are generated farther than 100 um (header x/y, shank ignored as interpolate_bad_channels "
    "does) from any channel labelled 3 in the metamorphic test: the interpolation, not the spatial filter, reads "
    "3-labelled neighbours and the property only excludes them from the spatial filter",
    "for LFP the stripe dies out inside the batch (Gaussian envelope, centre +- 3.5 sigma within the batch): the 0.5 Hz "
    "corner of the LFP band-pass leaves channel-dependent edge transients of seconds when the batch cuts a running "
    "stripe (17-35 dB measured); AP stripes may run through the batch edges (>= 58 dB measured)",
    "in a destripe call whose label vector contains channels labelled 1/2 every attenuation failure is attributed to the "
    "repair of those channels (kind C05.stripe_attenuation.interpolated): the residue sits on the rebuilt channels and "
    "leaks through the k-filter into their neighbours; calls without such labels carry the plain kinds",
    "agc: epsilon > 0 (with epsilon = 0 a zero stretch gives gain 0 and 0/0)",
    "an upper bound on the kept spike amplitude is not asserted (the property states a lower bound); the maximum is "
    "reported as a margin",
]
BUDGET = {"quick": 560, "thorough": 24000}
SHRINK = {"quick": False, "thorough": False}
WALL_CAP = {"quick": 900, "thorough": 5400}

ATT_DB = 40.0
KEPT_MIN = 0.9
TOL_ID = 1e-9      # filter + delay reference vs implementation, relative to max |reference|
TOL_ZERO = {"f8": 1e-12, "f4": 1e-5}
TOL_COLL = 1e-12
TOL_AGC = {"f8": 1e-12, "f4": 1e-6}
DT = {"f8": np.float64, "f4": np.float32}

PROBES = {
    "NP1": {"version": 1, "nshank": 1, "gen": "3B2"},
    "NP2": {"version": 2, "nshank": 1, "gen": "NP2.1"},
    "NP2.4": {"version": 2, "nshank": 4, "gen": "NP2.4"},
    "NPultra": {"version": "NPultra", "nshank": 1, "gen": "NPultra"},
}
PROBE_NAMES = sorted(PROBES)
POW3 = {3 ** k for k in range(1, 16)}


# ------------------------------------------------------------------------------------------------
# harness-side models

def _ns_win(wl, si):
    """AGC window length in samples as documented: odd, round(wl / si) to the nearest odd number."""
    return int(np.round(wl / si / 2) * 2 + 1)


def _shifts(probe, nc):
    return np.asarray(calib.adc_table(PROBES[probe]["gen"], np.arange(nc))[1], dtype=float)


def _sos(fs, lfp):
    if lfp:
        return scipy.signal.butter(3, [0.5, 300], btype="bandpass", fs=fs, output="sos")
    return scipy.signal.butter(3, 300 / fs * 2, btype="highpass", output="sos")


def _delay(x, s):
    """Delay every row of x by s[row] samples (periodic band-limited interpolation), written with numpy's FFT."""
    ns = x.shape[1]
    X = np.fft.rfft(x, axis=1)
    k = np.arange(X.shape[1])
    X = X * np.exp(-2j * np.pi * k[None, :] * np.asarray(s)[:, None] / ns)
    return np.fft.irfft(X, ns, axis=1)


def _stripe(comps, mode, env, amp_uv, shifts, ns, fs):
    n = np.arange(ns)[None, :] + shifts[:, None]
    t = n / fs
    w = np.zeros_like(t)
    tot = 0.0
    for f, a, ph in comps:
        if mode == "periodic":
            f = max(1, int(round(f * ns / fs))) * fs / ns
        w += a * np.sin(2 * np.pi * f * t + ph)
        tot += a
    if mode == "env":
        w *= np.exp(-0.5 * ((n - env[0] * ns) / (env[1] * ns)) ** 2)
    return w * (amp_uv * 1e-6 / tot)


def _template(kind, tt, sig):
    u = tt / sig
    if kind == "ricker":
        return -(1 - u ** 2) * np.exp(-u ** 2 / 2)
    if kind == "dgauss":
        return -u * np.exp(-u ** 2 / 2) * np.exp(0.5)
    return -np.exp(-u ** 2 / 2)


def _header(ctx, probe, nc):
    P = PROBES[probe]
    h = ctx.call("C05.header", sut.neuropixel().trace_header, version=P["version"], nshank=P["nshank"])
    if h is ctx.CRASH:
        return h
    ok = isinstance(h, dict) and all(k in h and np.shape(h[k]) == (384,) for k in ("x", "y", "shank", "sample_shift"))
    if not ctx.check(ok, "C05.header", "trace_header does not return 384-long x / y / shank / sample_shift vectors"):
        return ctx.CRASH
    return {k: np.asarray(v)[:nc].copy() for k, v in h.items()}


def _labels(spec, h, nc):
    """Label vector from a small spec: 3 above a per-shank depth, isolated 3s, scattered 1/2 (optionally only farther
    than 100 um from any 3)."""
    if spec is None:
        return None
    lab = np.zeros(nc)
    y, x, shank = h["y"], h["x"], h["shank"]
    for i, s in enumerate(np.unique(shank)):
        sel = shank == s
        rows = np.unique(y[sel])
        ntop = int(round(spec["top"][i % len(spec["top"])] * rows.size))
        if ntop > 0:
            lab[sel & (y >= rows[-ntop])] = 3
    rng = np.random.default_rng(spec["seed"])
    if spec["iso3"]:
        lab[rng.choice(nc, size=spec["iso3"], replace=False)] = 3
    cand = np.flatnonzero(lab == 0)
    if spec.get("far") and np.any(lab == 3) and cand.size:
        o = np.flatnonzero(lab == 3)
        d = np.abs((x[cand, None] - x[None, o]) + 1j * (y[cand, None] - y[None, o])).min(axis=1)
        cand = cand[d > 100]
    nbad = min(spec["bad"], cand.size)
    if nbad:
        lab[rng.choice(cand, size=nbad, replace=False)] = rng.integers(1, 3, size=nbad)
    return lab


def _destripe(ctx, kind, case, x, fs, h, labels):
    vo = sut.voltage()
    P = PROBES[case["probe"]]
    kw = {}
    if labels is not None:
        kw["channel_labels"] = labels.copy()
    if case.get("lfp"):
        return ctx.call(kind, vo.destripe_lfp, x, fs, h=copy.deepcopy(h), k_filter=case["kf"], **kw)
    if case.get("kk") is not None:
        kw["k_kwargs"] = copy.deepcopy(case["kk"])
    if case.get("hmode") == "ver":
        return ctx.call(kind, vo.destripe, x, fs, neuropixel_version=P["version"], k_filter=case["kf"], **kw)
    return ctx.call(kind, vo.destripe, x, fs, h=copy.deepcopy(h), neuropixel_version=P["version"], k_filter=case["kf"], **kw)


def _shape_ok(ctx, y, shape, kind):
    ok = isinstance(y, np.ndarray) and y.shape == tuple(shape)
    if not ctx.check(ok, kind + ".shape", lambda: f"returned {type(y).__name__} of shape {getattr(y, 'shape', None)}, expected {tuple(shape)}"):
        return False
    return ctx.check(bool(np.all(np.isfinite(y))), kind + ".finite", "output contains NaN or Inf")


# ------------------------------------------------------------------------------------------------
# strategies

def _st_labels(draw, far, need3, max_top=0.5, allow_bad=True):
    lo = 0.03 if need3 else 0.0
    top = [draw(st.one_of(st.just(lo), st.floats(lo, max_top))) for _ in range(draw(st.sampled_from([1, 1, 4])))]
    return {"top": [round(t, 3) for t in top], "iso3": draw(st.integers(0, 4)),
            "bad": draw(st.integers(0, 6)) if allow_bad else 0, "seed": draw(st.integers(0, 2 ** 31)), "far": far}


def _st_comps(draw, lfp):
    flo, fhi = (10.0, 250.0) if lfp else (300.0, 9000.0)
    n = draw(st.integers(1, 5))
    return [[round(draw(st.floats(flo, fhi)), 3), round(draw(st.floats(0.2, 1.0)), 3), round(draw(st.floats(0, 6.283)), 3)]
            for _ in range(n)]


def _st_kk(draw, kf):
    if draw(st.integers(0, 9)) < 6:
        return None
    if not kf:
        return draw(st.sampled_from([{}, {"operator": "median"}, {"operator": "average"}]))
    return {"ntr_pad": draw(st.sampled_from([0, 20, 60])), "ntr_tap": 0,
            "lagc": draw(st.sampled_from([None, 300, 1000, 3000, 4500])),
            "butter_kwargs": {"N": 3, "Wn": draw(st.sampled_from([0.01, 0.02, 0.05])), "btype": "highpass"}}


def _kfilt_wins(case):
    """AGC windows that the spatial filter may use for this destripe case (requested one and the defaults)."""
    fs = 2500.0 if case.get("lfp") else 30000.0
    wins = [301]
    if fs >= 3000:
        wins.append(_ns_win(int(fs / 10), 1.0))
    kk = case.get("kk")
    if kk and kk.get("lagc"):
        wins.append(_ns_win(kk["lagc"], 1.0))
    return wins


def _st_ns(draw, case):
    """Batch length 4000..12000; one case in twelve takes a length for which ns + AGC window is a power of three (the
    gain convolution then runs on an odd FFT size): 3560 / 16682 with the default 3001-sample window."""
    if draw(st.integers(0, 11)) == 0:
        cand = sorted({p - w for p in (6561, 19683) for w in _kfilt_wins(case) if 3500 <= p - w <= 17000})
        if cand:
            return draw(st.sampled_from(cand))
    return draw(st.integers(4000, 12000))


@st.composite
def _st_stripe(draw):
    probe = draw(st.sampled_from(PROBE_NAMES))
    lfp = draw(st.integers(0, 5)) == 0
    kf = draw(st.booleans())
    nc = draw(st.sampled_from([384, 384, 384, 192]))
    hmode = "ver" if (not lfp and probe != "NP2.4" and nc == 384 and draw(st.integers(0, 3)) == 0) else "h"
    mode = "env" if lfp else draw(st.sampled_from(["env", "env", "periodic", "cont"]))
    env = None
    if mode == "env":
        c = round(draw(st.floats(0.25, 0.75)), 3)
        if lfp:   # the stripe has to die out inside the batch: the 0.5 Hz corner makes edge transients seconds long
            env = [c, round(draw(st.floats(0.3, 1.0)) * min(c, 1 - c) / 3.5, 4)]
        else:
            env = [c, round(draw(st.floats(0.025, 0.3)), 3)]
    case = {"t": "stripe", "probe": probe, "lfp": lfp, "kf": kf, "nc": nc, "hmode": hmode,
            "comps": _st_comps(draw, lfp), "mode": mode, "env": env,
            "amp_uv": draw(st.sampled_from([10.0, 50.0, 200.0, 1000.0, 2000.0])),
            "dtype": "f4" if draw(st.integers(0, 4)) == 0 else "f8",
            "kk": None if lfp else _st_kk(draw, kf),
            "labels": _st_labels(draw, far=False, need3=False) if draw(st.integers(0, 2)) == 0 else None}
    case["ns"] = _st_ns(draw, case)
    return case


@st.composite
def _st_spike(draw):
    probe = draw(st.sampled_from(PROBE_NAMES))
    kf = draw(st.integers(0, 3)) != 0
    nc = draw(st.sampled_from([384, 384, 384, 192]))
    labels = _st_labels(draw, far=False, need3=True, allow_bad=False) if draw(st.integers(0, 3)) == 0 else None
    if labels:
        labels["iso3"] = 0
    where = draw(st.sampled_from(["bottom", "top", "any"]))
    sel = {"mode": where, "k": draw(st.integers(0, 7))} if where != "any" else {"mode": "any", "u": round(draw(st.floats(0, 0.999)), 4)}
    case = {"t": "spike", "probe": probe, "kf": kf, "nc": nc, "hmode": "h", "lfp": False, "kk": None, "labels": labels,
            "site_sel": sel, "nsites": draw(st.integers(1, 8)), "p": round(draw(st.one_of(st.just(2.0), st.floats(2.0, 4.0))), 3),
            "amp_uv": round(draw(st.one_of(st.sampled_from([50.0, 500.0]), st.floats(50, 500))), 2),
            "bg_uv": round(draw(st.one_of(st.sampled_from([2.0, 10.0]), st.floats(2, 10))), 2),
            "common_uv": draw(st.sampled_from([0.0, 0.0, 5.0, 10.0])),
            "tmpl": draw(st.sampled_from(["ricker", "dgauss", "gauss"])),
            "sig": round(draw(st.one_of(st.sampled_from([1.5, 5.0]), st.floats(1.5, 5.0))), 3),
            "t0": round(draw(st.floats(0.3, 0.7)), 5), "bg_seed": draw(st.integers(0, 2 ** 31))}
    case["ns"] = _st_ns(draw, case)
    return case


@st.composite
def _st_labels_case(draw):
    probe = draw(st.sampled_from(PROBE_NAMES))
    lfp = draw(st.integers(0, 7)) == 0
    case = {"t": "labels", "probe": probe, "lfp": lfp, "kf": draw(st.booleans()), "nc": draw(st.sampled_from([384, 384, 192])),
            "hmode": "h", "kk": None, "labels": _st_labels(draw, far=True, need3=True),
            "comps": _st_comps(draw, lfp)[:2], "amp_uv": draw(st.sampled_from([0.0, 50.0, 500.0])),
            "bg_uv": draw(st.sampled_from([2.0, 5.0, 10.0])), "bg_seed": draw(st.integers(0, 2 ** 31)),
            "alt_seed": draw(st.integers(0, 2 ** 31)), "alt_gain": draw(st.sampled_from([0.0, 1.0, 30.0, 1000.0]))}
    case["ns"] = draw(st.integers(4000, 8000))
    return case


def _st_groups(draw):
    ng = draw(st.sampled_from([1, 2, 2, 3, 4]))
    sizes = [draw(st.integers(16, 40)) for _ in range(ng)]
    vals = draw(st.lists(st.sampled_from([0, 1, 2, 3, -1, 7, 2.5, 10, 384]), min_size=ng, max_size=ng, unique=True))
    if draw(st.booleans()):
        vals = list(range(ng))
    return {"sizes": sizes, "vals": vals, "mode": draw(st.sampled_from(["blocks", "interleaved", "shuffled"])),
            "seed": draw(st.integers(0, 2 ** 31)), "float": draw(st.booleans())}


@st.composite
def _st_coll(draw):
    fn = draw(st.sampled_from(["car", "kfilt", "kfilt", "fk", "fk"]))
    groups = _st_groups(draw)
    if fn == "car" and draw(st.integers(0, 3)) == 0:
        groups = None
    gmin = min(groups["sizes"]) if groups else 16
    case = {"t": "coll", "fn": fn, "groups": groups, "nc1": draw(st.integers(16, 64)), "seed": draw(st.integers(0, 2 ** 31)),
            "scale": draw(st.sampled_from([1.0, 1e-5, 300.0]))}
    ns = draw(st.integers(48, 600))
    s = {}
    wins = [301]
    if fn == "car":
        op = draw(st.sampled_from([None, "median", "average", "average"]))
        if op:
            s["operator"] = op
        if draw(st.integers(0, 3)) == 0:
            s.update({"ntr_pad": 60, "ntr_tap": 0, "lagc": 3000})   # destripe hands its k_kwargs to car
        case["dtype"] = "f4" if draw(st.integers(0, 4)) == 0 else "f8"
    elif fn == "kfilt":
        if draw(st.integers(0, 3)) != 0:
            s["lagc"] = draw(st.sampled_from([None, 0, 21, 76, 1000, 300]))
        if draw(st.booleans()):
            s["ntr_pad"] = draw(st.integers(0, min(12, gmin)))
        if draw(st.booleans()):
            s["ntr_tap"] = draw(st.integers(0, 8))
        if draw(st.booleans()):
            s["butter_kwargs"] = {"N": draw(st.integers(1, 4)), "Wn": draw(st.sampled_from([0.02, 0.1, 0.25, 0.4])),
                                  "btype": draw(st.sampled_from(["highpass", "highpass", "lowpass"]))}
        if s.get("lagc"):
            wins.append(_ns_win(s["lagc"], 1.0))
    else:
        si = draw(st.sampled_from([0.002, 0.002, 1 / 2500, 1 / 30000]))
        dx = draw(st.sampled_from([1, 1, 20e-6, 25.0]))
        v0 = dx / si
        lo = draw(st.sampled_from([0.05, 0.2, 1.0, 3.0]))
        s.update({"si": si, "dx": dx, "vbounds": [lo * v0, lo * v0 * draw(st.sampled_from([1.5, 2.0, 4.0]))]})
        if draw(st.integers(0, 2)) != 0:
            s["btype"] = draw(st.sampled_from(["lowpass", "lp", "highpass", "hp"]))
        if draw(st.booleans()):
            s["ntr_pad"] = draw(st.integers(0, min(12, gmin)))
        if draw(st.integers(0, 2)) == 0:
            s["ntr_tap"] = draw(st.integers(0, 8))
        if draw(st.integers(0, 2)) != 0:
            s["lagc"] = draw(st.sampled_from([None, 0, 0.5, 20 * si, 75 * si]))
        if draw(st.integers(0, 2)) != 0:
            k0 = draw(st.sampled_from([0.02, 0.05, 0.2])) / dx
            s["kfilt"] = {"bounds": [k0, 2 * k0], "btype": draw(st.sampled_from(["highpass", "lowpass"]))}
        wins = [_ns_win(0.5, si)]
        if s.get("lagc"):
            wins.append(_ns_win(s["lagc"], si))
    case["s"] = s
    if draw(st.integers(0, 9)) == 0:   # batch length + AGC window == 3^k (odd FFT size in the gain convolution)
        cand = [p - w for p in (243, 729) for w in wins if 48 <= p - w <= 700]
        if cand:
            ns = draw(st.sampled_from(cand))
    case["ns"] = ns
    return case


@st.composite
def _st_agc(draw, tier):
    ns_win = 2 * draw(st.one_of(st.integers(0, 40), st.integers(0, 2000))) + 1
    if draw(st.integers(0, 11)) == 0:
        kmax = 8 if tier == "thorough" else 7
        tot = 3 ** draw(st.integers(3, kmax))
        ns_win = min(ns_win, tot - 8 - (tot - 8) % 2 - 1)
        ns = tot - ns_win
        pow3 = True
    else:
        ns = draw(st.one_of(st.integers(8, 300), st.integers(8, 6000)))
        pow3 = False
    si = draw(st.sampled_from([1.0, 0.002, 1 / 30000, 1 / 2500]))
    # wl such that round(wl / si / 2) * 2 + 1 == ns_win, away from the rounding ties
    wl = (ns_win - 1 + draw(st.sampled_from([0.0, 0.4, -0.4]))) * si
    if _ns_win(wl, si) != ns_win:
        wl = (ns_win - 1) * si
    nc = draw(st.integers(1, 24))
    return {"t": "agc", "nc": nc, "ns": ns, "wl": wl, "si": si, "ns_win": ns_win, "pow3": pow3,
            "eps": draw(st.sampled_from([None, None, 1e-8, 1e-6, 1e-3, 1.0])),
            "dtype": "f4" if draw(st.integers(0, 4)) == 0 else "f8",
            "scale": draw(st.sampled_from([1.0, 1e-5, 1e-6, 3e4])),
            "zero_rows": sorted(draw(st.sets(st.integers(0, nc - 1), max_size=min(3, nc)))),
            "zero_stretch": draw(st.booleans()), "sparse": draw(st.integers(0, 4)) == 0,
            "seed": draw(st.integers(0, 2 ** 31))}


@st.composite
def _case(draw, tier):
    t = draw(st.sampled_from(["stripe"] * 6 + ["spike"] * 4 + ["labels"] * 2 + ["coll"] * 6 + ["agc"] * 2))
    if t == "stripe":
        return draw(_st_stripe())
    if t == "spike":
        return draw(_st_spike())
    if t == "labels":
        return draw(_st_labels_case())
    if t == "coll":
        return draw(_st_coll())
    return draw(_st_agc(tier))


def strategy(tier):
    return _case(tier)


# ------------------------------------------------------------------------------------------------
# enumeration: spike peak site over every depth

_ENUM_SPIKE = {"t": "spike", "kf": True, "nc": 384, "hmode": "h", "lfp": False, "kk": None, "labels": None, "nsites": 8,
               "p": 2.0, "amp_uv": 200.0, "bg_uv": 5.0, "common_uv": 0.0, "tmpl": "ricker", "sig": 3.0, "t0": 0.50003,
               "bg_seed": 20240517, "ns": 4000}


def enum_shards(tier):
    if tier == "thorough":
        sites = list(range(384))
        nsh = 8
    else:
        sites = sorted(set(range(0, 8)) | set(range(376, 384)) | set(range(8, 376, 8)))
        nsh = 3
    out = []
    for p in PROBE_NAMES:
        for i in range(nsh):
            out.append({"probe": p, "sites": sites[i::nsh]})
    return out


def enum_cases(desc):
    for s in desc["sites"]:
        c = dict(_ENUM_SPIKE)
        c["probe"] = desc["probe"]
        c["site_sel"] = {"mode": "abs", "site": s}
        yield c


# ------------------------------------------------------------------------------------------------
# known findings (each key recognises exactly one diagnosed root cause)

KNOWN = {
    "car_collection_operator": lambda case, f: f.kind == "C05.coll.car.operator_dropped",
    "kfilt_collection_lagc": lambda case, f: f.kind == "C05.coll.kfilt.lagc_dropped",
    "kfilt_collection_pad": lambda case, f: f.kind == "C05.coll.kfilt.pad_dropped",
    "fk_collection_btype": lambda case, f: f.kind == "C05.coll.fk.btype_dropped",
    "fk_collection_kfilt": lambda case, f: f.kind == "C05.coll.fk.kfilt_dropped",
    "stripe_on_interpolated_channels": lambda case, f: f.kind == "C05.stripe_attenuation.interpolated",
}


# ------------------------------------------------------------------------------------------------
# run

def run_case(case, ctx):
    t = case["t"]
    if t == "stripe":
        _run_stripe(case, ctx)
    elif t == "spike":
        _run_spike(case, ctx)
    elif t == "labels":
        _run_labels(case, ctx)
    elif t == "coll":
        _run_coll(case, ctx)
    else:
        _run_agc(case, ctx)


def _common_labels(case, ctx, labels):
    ctx.label("t_" + case["t"], "probe_" + case["probe"], "kfilt" if case["kf"] else "car",
              "lfp" if case.get("lfp") else "ap", "hmode_" + case.get("hmode", "h"), "nc%d" % case["nc"],
              "labels" if labels is not None else "nolabels")
    if any((case["ns"] + w) in POW3 for w in _kfilt_wins(case)):
        ctx.label("ns_plus_agc_window_pow3")
    if labels is not None:
        if np.any((labels == 1) | (labels == 2)):
            ctx.label("labels_bad")
        if np.any(labels == 3):
            ctx.label("labels_outside")


def _check_outside(ctx, y, ref, shifts, labels, kind="C05.outside_untouched"):
    """Channels labelled 3 must come back as temporal filter + re-alignment only."""
    l3 = np.flatnonzero(labels == 3)
    if l3.size == 0:
        return
    exp = _delay(ref[l3], shifts[l3])
    scale = float(np.max(np.abs(ref))) or 1.0
    err = float(np.max(np.abs(y[l3] - exp))) / scale
    ctx.stat("outside_rel_err", err)
    ctx.check(err <= TOL_ID, kind, lambda: f"channels labelled 3 differ from temporal filter + ADC re-alignment by {err:.3g} "
                                           f"of the signal scale (first channel {int(l3[0])})")


def _run_stripe(case, ctx):
    nc, ns, lfp = case["nc"], case["ns"], case["lfp"]
    fs = 2500.0 if lfp else 30000.0
    h = _header(ctx, case["probe"], nc)
    if h is ctx.CRASH:
        return
    shifts = _shifts(case["probe"], nc)
    labels = _labels(case["labels"], h, nc)
    _common_labels(case, ctx, labels)
    ctx.label("stripe_" + case["mode"], "dtype_" + case["dtype"], "kk_custom" if case["kk"] is not None else "kk_default")
    if case["kk"] and case["kk"].get("operator"):
        ctx.label("car_" + case["kk"]["operator"])
    fnt = 50.0 if lfp else 1000.0
    hi = any(c[0] >= fnt for c in case["comps"])
    ctx.label("stripe_hf" if hi else "stripe_lf_only")
    if hi and np.any(shifts != 0):
        ctx.nontrivial = True
    x = _stripe(case["comps"], case["mode"], case["env"], case["amp_uv"], shifts, ns, fs).astype(DT[case["dtype"]])
    y = _destripe(ctx, "C05.destripe_lfp" if lfp else "C05.destripe", case, x.copy(), fs, h, labels)
    if y is ctx.CRASH or not _shape_ok(ctx, y, (nc, ns), "C05.destripe"):
        return
    ref = scipy.signal.sosfiltfilt(_sos(fs, lfp), x)
    good = np.flatnonzero(labels == 0) if labels is not None else np.arange(nc)
    interp = np.flatnonzero((labels == 1) | (labels == 2)) if labels is not None else np.arange(0)
    sl = slice(ns // 4, ns - ns // 4)
    r_ref = float(np.sqrt(np.mean(ref[good, sl] ** 2)))
    if not r_ref > 0:
        ctx.label("stripe_degenerate")
        return
    tag = "lfp" if lfp else ("kfilt" if case["kf"] else "car")
    # channels labelled 1/2 are rebuilt from their neighbours before the spatial filter: what the repair leaves of the
    # stripe (on the rebuilt channel and, through the k-filter, on its neighbours) is one root cause with its own kind
    k_plain = "C05.stripe_attenuation" + (".lfp" if lfp else "")
    k_rep = "C05.stripe_attenuation.interpolated"
    for chans, name, kind in ((good, "with_repaired_neighbours_" if interp.size else "", k_rep if interp.size else k_plain),
                              (interp, "repaired_", k_rep)):
        if chans.size == 0:
            continue
        rc = np.sqrt(np.mean(y[chans][:, sl] ** 2, axis=1))
        att = float(-20 * np.log10(max(float(rc.max()) / r_ref, 1e-30)))
        att_all = float(-20 * np.log10(max(float(np.sqrt(np.mean(rc ** 2))) / r_ref, 1e-30)))
        ctx.stat("min_stripe_att_db_%sworst_channel_%s" % (name, tag), att)
        if not name:
            ctx.stat("min_stripe_att_db_all_channels_" + tag, att_all)
        ctx.check(att >= ATT_DB, kind,
                  lambda: f"common-mode stripe attenuated by only {att:.1f} dB on {name.replace('_', ' ')}channel "
                          f"{int(chans[int(np.argmax(rc))])} ({att_all:.1f} dB over all such channels), {tag}, probe "
                          f"{case['probe']}, {int(interp.size)} channels labelled 1/2")
    if labels is not None:
        _check_outside(ctx, y, ref, shifts, labels)


_BG_CACHE = {}


def _run_spike(case, ctx):
    nc, ns, kf = case["nc"], case["ns"], case["kf"]
    fs = 30000.0
    h = _header(ctx, case["probe"], nc)
    if h is ctx.CRASH:
        return
    shifts = _shifts(case["probe"], nc)
    labels = _labels(case["labels"], h, nc)
    _common_labels(case, ctx, labels)
    inside = np.flatnonzero(labels != 3) if labels is not None else np.arange(nc)
    sel = case["site_sel"]
    if sel["mode"] == "abs":
        site = int(sel["site"])
    elif sel["mode"] == "bottom":
        site = int(inside[min(sel["k"], inside.size - 1)])
    elif sel["mode"] == "top":
        site = int(inside[max(inside.size - 1 - sel["k"], 0)])
    else:
        site = int(inside[int(sel["u"] * inside.size)])
    ctx.label("site_" + sel["mode"], "tmpl_" + case["tmpl"], "nsites_%d" % case["nsites"])
    same = np.flatnonzero(h["shank"] == h["shank"][site])
    d = np.hypot(h["x"][same] - h["x"][site], h["y"][same] - h["y"][site])
    order = same[np.argsort(d, kind="stable")][:case["nsites"]]
    if order[0] != site:   # several sites at distance 0 cannot happen on a dense layout, keep the peak first anyway
        order = np.r_[site, order[order != site]][:case["nsites"]]
    rng = np.random.default_rng(case["bg_seed"])
    bg = rng.standard_normal((nc, ns)) * (case["bg_uv"] * 1e-6)
    if case["common_uv"]:
        bg += rng.standard_normal((1, ns)) * (case["common_uv"] * 1e-6)
    t0 = case["t0"] * ns
    n = np.arange(ns)
    x1 = bg.copy()
    sp0 = None
    for k, ch in enumerate(order):
        a = case["amp_uv"] * 1e-6 / (1 + k) ** case["p"]
        x1[ch] += a * _template(case["tmpl"], n + shifts[ch] - t0, case["sig"])
        if k == 0:
            sp0 = a * _template(case["tmpl"], n - t0, case["sig"])
    key = json.dumps([str(sut.voltage().__file__), case["probe"], nc, ns, kf, case["bg_seed"], case["bg_uv"], case["common_uv"],
                      case["labels"]], sort_keys=True)
    y0 = _BG_CACHE.get(key)
    if y0 is None:
        y0 = _destripe(ctx, "C05.destripe", case, bg.copy(), fs, h, labels)
        if y0 is ctx.CRASH or not _shape_ok(ctx, y0, (nc, ns), "C05.destripe"):
            return
        _BG_CACHE.clear()
        _BG_CACHE[key] = y0
    y1 = _destripe(ctx, "C05.destripe", case, x1.copy(), fs, h, labels)
    if y1 is ctx.CRASH or not _shape_ok(ctx, y1, (nc, ns), "C05.destripe"):
        return
    ref = scipy.signal.sosfiltfilt(_sos(fs, False), sp0)
    i = int(np.argmax(np.abs(ref)))
    kept = float((y1[site, i] - y0[site, i]) / ref[i])
    tag = "kfilt" if kf else "car"
    ctx.stat("min_spike_kept_" + tag, kept)
    ctx.stat("max_spike_kept_" + tag, kept)
    if kf:
        ctx.nontrivial = True
    ctx.check(kept >= KEPT_MIN, "C05.spike_kept",
              lambda: f"spike at channel {site} ({case['nsites']} sites, {case['amp_uv']} uV over {case['bg_uv']} uV, {tag}, "
                      f"{case['probe']}) keeps {kept:.3f} of its high-passed amplitude")
    if not kf:
        # CAR through destripe: zero median over the channels that went through the spatial filter
        m = np.median(y1[inside], axis=0)
        scale = float(np.max(np.abs(y1[inside]))) or 1.0
        err = float(np.max(np.abs(m))) / scale
        ctx.stat("destripe_car_median_rel", err)
        ctx.check(err <= TOL_ZERO["f8"], "C05.destripe_car_zero",
                  lambda: f"median over the referenced channels is {err:.3g} of the scale after destripe(k_filter=False)")
    if labels is not None and np.any(labels == 3):
        ref_all = scipy.signal.sosfiltfilt(_sos(fs, False), x1[labels == 3])
        full = np.zeros((nc, ns))
        full[labels == 3] = ref_all
        _check_outside(ctx, y1, full, shifts, labels)


def _run_labels(case, ctx):
    nc, ns, lfp = case["nc"], case["ns"], case["lfp"]
    fs = 2500.0 if lfp else 30000.0
    h = _header(ctx, case["probe"], nc)
    if h is ctx.CRASH:
        return
    shifts = _shifts(case["probe"], nc)
    labels = _labels(case["labels"], h, nc)
    _common_labels(case, ctx, labels)
    l3 = labels == 3
    if l3.any() and (~l3).any():
        ctx.nontrivial = True
    rng = np.random.default_rng(case["bg_seed"])
    x = rng.standard_normal((nc, ns)) * (case["bg_uv"] * 1e-6)
    if case["amp_uv"]:
        x += _stripe(case["comps"], "cont", None, case["amp_uv"], shifts, ns, fs)
    x2 = x.copy()
    rng2 = np.random.default_rng(case["alt_seed"])
    x2[l3] = rng2.standard_normal((int(l3.sum()), ns)) * (case["bg_uv"] * 1e-6 * case["alt_gain"])
    ctx.label("alt_gain_%g" % case["alt_gain"])
    kind = "C05.destripe_lfp" if lfp else "C05.destripe"
    y = _destripe(ctx, kind, case, x.copy(), fs, h, labels)
    if y is ctx.CRASH or not _shape_ok(ctx, y, (nc, ns), "C05.destripe"):
        return
    y2 = _destripe(ctx, kind, case, x2.copy(), fs, h, labels)
    if y2 is ctx.CRASH or not _shape_ok(ctx, y2, (nc, ns), "C05.destripe"):
        return
    same = np.array_equal(y[~l3], y2[~l3])
    if not same:
        dmax = float(np.max(np.abs(y[~l3] - y2[~l3])))
        ctx.stat("labels_leak_abs", dmax)
    ctx.check(same, "C05.outside_excluded",
              lambda: f"changing the data of the {int(l3.sum())} channels labelled 3 changes the other output channels by up "
                      f"to {dmax:.3g} V (input noise {case['bg_uv']} uV)")
    sos = _sos(fs, lfp)
    for xx, yy in ((x, y), (x2, y2)):
        full = np.zeros((nc, ns))
        full[l3] = scipy.signal.sosfiltfilt(sos, xx[l3])
        if np.max(np.abs(full)) > 0:
            _check_outside(ctx, yy, full, shifts, labels)
        else:
            ctx.check(not np.any(yy[l3]), "C05.outside_untouched", "all-zero channels labelled 3 come back non-zero")


# ---- collections / referencing

def _collection(g, nc_default):
    if g is None:
        return None, nc_default
    vals = [float(v) for v in g["vals"]] if g["float"] else g["vals"]
    seq = []
    if g["mode"] == "interleaved":
        left = list(g["sizes"])
        while any(left):
            for i, v in enumerate(vals):
                if left[i]:
                    seq.append(v)
                    left[i] -= 1
    else:
        for v, n in zip(vals, g["sizes"]):
            seq.extend([v] * n)
    coll = np.array(seq)
    if g["mode"] == "shuffled":
        coll = coll[np.random.default_rng(g["seed"]).permutation(coll.size)]
    return coll, coll.size


def _same(a, b, scale):
    if np.array_equal(a, b):
        return True, 0.0
    d = float(np.max(np.abs(a - b))) / scale
    return d <= TOL_COLL, d


def _per_group(ctx, kind, fn, x, coll, kw):
    out = np.zeros_like(x)
    for c in np.unique(coll):
        sel = coll == c
        r = ctx.call(kind, fn, x[sel].copy(), **copy.deepcopy(kw))
        if r is ctx.CRASH:
            return r
        if not (isinstance(r, np.ndarray) and r.shape == x[sel].shape):
            ctx.fail(kind + ".shape", f"{fn.__name__} on one group of shape {x[sel].shape} returned shape {getattr(r, 'shape', None)}")
            return ctx.CRASH
        out[sel] = r
    return out


def _drop(kw, *names):
    return {k: v for k, v in kw.items() if k not in names}


def _run_coll(case, ctx):
    vo = sut.voltage()
    fn_name, s = case["fn"], copy.deepcopy(case["s"])
    coll, nc = _collection(case["groups"], case["nc1"])
    ns = case["ns"]
    dtype = case.get("dtype", "f8")
    rng = np.random.default_rng(case["seed"])
    x = rng.standard_normal((nc, ns)) * rng.uniform(0.3, 3, (nc, 1)) + rng.standard_normal((1, ns))
    x += np.sin(np.arange(ns) / 7.0)[None, :] * np.linspace(-1, 1, nc)[:, None]
    x = (x * case["scale"]).astype(DT[dtype])
    scale = float(np.max(np.abs(x)))
    ng = 0 if coll is None else np.unique(coll).size
    ctx.label("t_coll", "fn_" + fn_name, "groups_%d" % ng, "dtype_" + dtype)
    if case["groups"]:
        ctx.label("coll_" + case["groups"]["mode"])
    fn = getattr(vo, fn_name)
    nd = []   # non default settings that the recursion has to carry
    if fn_name == "car":
        if s.get("operator") == "average":
            nd.append("operator")
        ctx.label("car_op_%s" % s.get("operator"))
    elif fn_name == "kfilt":
        if "lagc" in s and s["lagc"] != 300:
            nd.append("lagc")
        if s.get("ntr_pad", 0) != 0 or s.get("ntr_tap") not in (None, 0):
            nd.append("pad")
        if "butter_kwargs" in s:
            nd.append("butter")
    else:
        if s.get("btype", "highpass").lower() in ("lowpass", "lp"):
            nd.append("btype")
        if s.get("kfilt") is not None:
            nd.append("kfilt")
        if "lagc" in s and s["lagc"] != 0.5:
            nd.append("lagc")
        if s.get("ntr_pad", 0) != 0 or s.get("ntr_tap") not in (None, 0):
            nd.append("pad")
    ctx.label(*["nd_" + fn_name + "_" + n for n in nd])
    if ng >= 2 and nd:
        ctx.nontrivial = True
    kind = "C05.coll." + fn_name
    kwc = copy.deepcopy(s)
    if coll is not None:
        kwc["collection"] = coll.copy()
    G = ctx.call(kind, fn, x.copy(), **kwc)
    if G is ctx.CRASH or not _shape_ok(ctx, G, (nc, ns), kind):
        return
    dropped = []
    if coll is not None:
        E = _per_group(ctx, kind + ".single_group", fn, x, coll, s)
        if E is ctx.CRASH:
            return
        ok, d = _same(G, E, scale)
        ctx.stat("coll_rel_diff_when_equal", d if ok else 0.0)
        if not ok:
            # diagnose: which setting did the recursion lose (one kind per root cause)
            alts = []
            if fn_name == "car" and "operator" in nd:
                alts = [(("operator",), ["operator_dropped"])]
            elif fn_name == "kfilt":
                if "lagc" in nd:
                    alts.append((("lagc",), ["lagc_dropped"]))
                if "pad" in nd:
                    alts.append((("ntr_pad", "ntr_tap"), ["pad_dropped"]))
                if "lagc" in nd and "pad" in nd:
                    alts.append((("lagc", "ntr_pad", "ntr_tap"), ["lagc_dropped", "pad_dropped"]))
            elif fn_name == "fk":
                if "btype" in nd:
                    alts.append((("btype",), ["btype_dropped"]))
                if "kfilt" in nd:
                    alts.append((("kfilt",), ["kfilt_dropped"]))
                if "btype" in nd and "kfilt" in nd:
                    alts.append((("btype", "kfilt"), ["btype_dropped", "kfilt_dropped"]))
            for names, kinds in alts:
                A = _per_group(ctx, kind + ".single_group", fn, x, coll, _drop(s, *names))
                if A is ctx.CRASH:
                    return
                if _same(G, A, scale)[0]:
                    dropped = kinds
                    break
            msg = (f"{fn_name}(x, collection={ng} groups {case['groups']['mode']}, {s}) differs from the same call on each "
                   f"group alone by {d:.3g} of the data scale")
            if dropped:
                for k in dropped:
                    ctx.fail(kind + "." + k, msg + f"; it equals the per-group result with {k.split('_')[0]} left at its default")
            else:
                ctx.fail(kind, msg)
    if fn_name == "car":
        op = s.get("operator", "median")
        if "operator_dropped" in dropped:
            ctx.label("car_zero_skipped_operator_dropped")
            return
        red = np.median if op == "median" else np.mean
        worst = 0.0
        groups = [np.ones(nc, bool)] if coll is None else [coll == c for c in np.unique(coll)]
        for sel in groups:
            worst = max(worst, float(np.max(np.abs(red(G[sel].astype(np.float64), axis=0)))))
        err = worst / scale
        ctx.stat("car_zero_rel_" + dtype, err)
        ctx.check(err <= TOL_ZERO[dtype], "C05.car_zero_" + ("median" if op == "median" else "mean"),
                  lambda: f"car(operator={op!r}, {ng} groups): |{op}| over a group reaches {err:.3g} of the data scale")


# ---- gain control

def _run_agc(case, ctx):
    vo = sut.voltage()
    nc, ns, dtype = case["nc"], case["ns"], case["dtype"]
    rng = np.random.default_rng(case["seed"])
    x = rng.standard_normal((nc, ns)) * rng.uniform(0.1, 10, (nc, 1)) * case["scale"]
    if case["sparse"]:
        x *= rng.random((nc, ns)) < 0.05
    if case["zero_stretch"] and ns >= 4:
        a = int(rng.integers(0, ns // 2))
        x[:, a:a + max(1, ns // 3)] = 0
    x[case["zero_rows"]] = 0
    x = x.astype(DT[dtype])
    x0 = x.copy()
    nw = _ns_win(case["wl"], case["si"])
    ctx.label("t_agc", "dtype_" + dtype, "agc_win_1" if nw == 1 else ("agc_win_gt_ns" if nw > ns else "agc_win_lt_ns"),
              "agc_eps_default" if case["eps"] is None else "agc_eps_given")
    if (ns + nw) in POW3:
        ctx.label("agc_pow3")
    if case["zero_rows"]:
        ctx.label("agc_zero_rows")
    if nw > 1 and np.any(x0):
        ctx.nontrivial = True
    kw = {} if case["eps"] is None else {"epsilon": case["eps"]}
    r = ctx.call("C05.agc", vo.agc, x, wl=case["wl"], si=case["si"], **kw)
    if r is ctx.CRASH:
        return
    ok = isinstance(r, tuple) and len(r) == 2 and all(isinstance(a, np.ndarray) and a.shape == (nc, ns) for a in r)
    if not ctx.check(ok, "C05.agc.shape", "agc does not return (data, gain) of the input shape"):
        return
    out, gain = r
    if not ctx.check(bool(np.all(np.isfinite(out)) and np.all(np.isfinite(gain))), "C05.agc.finite", "NaN/Inf in data or gain"):
        return
    scale = float(np.max(np.abs(x0))) or 1.0
    err = float(np.max(np.abs(out.astype(np.float64) * gain - x0))) / scale
    ctx.stat("agc_product_rel_" + dtype, err)
    ctx.check(err <= TOL_AGC[dtype], "C05.agc_product",
              lambda: f"out * gain differs from the input by {err:.3g} of the data scale (window {nw}, ns {ns})")
    z = np.flatnonzero(~np.any(x0, axis=1))
    if z.size:
        ctx.check(not np.any(out[z]), "C05.agc_zero_channel", "an all-zero channel does not stay zero")
