"""C10 - Sync words decode to TTL lines and fronts recover every event."""
import numpy as np
from hypothesis import strategies as st

from vp import sut
from vp.gens import meta as gm, recording as rec
from vp.oracles import calib

ID = "C10"
LEVEL = "exploration"
RULE = ("(word) all 65536 16-bit words, one case per word (1-D one-element call and (1,1) column call) plus one vector call "
        "over all words in 1-D and column layout: line k == (word >> k) & 1 - enumerated exhaustively. (train) Hypothesis: "
        "0/1 event trains (toggle times incl. sample 1 and the last sample, simultaneous edges, arbitrary initial levels) "
        "on any subset of the 16 lines packed into the sync channel of a generated AP / LF / nidq recording (bin or cbin), "
        "read back through Reader.read_sync over the whole file and through slices; nidq analog lines are placed >= 2 LSB "
        "away from the 1.2 V threshold on either side over a constant floor held for > 10% of the samples; oracle: shape "
        "(n, 16 [+ analog]), bits, thresholded harness volts, and fronts/rises/falls on each line == generated edges. "
        "(fronts) 1-D and 2-D int8/float arrays along both axes, step thresholds, analog mode against a brute-force loop. "
        "(layout) the array handed to fronts / rises / falls / split_sync is drawn in a memory layout / container: fresh "
        "C-contiguous, Fortran-ordered, transposed view, every-other-element / every-other-row strided views, a window of a "
        "bigger C or Fortran buffer, reversed (negative stride) view, column of a wider matrix, plain nested list (fronts and "
        "non-analog rises only), each optionally read-only; the oracle is the brute-force loop over the logical content, so "
        "layout must not matter, and the input (and the buffer around it) must be unchanged after every call. The end-to-end "
        "part feeds the [ns, 16] array of read_sync transposed to one line per row (view and copy), Fortran-ordered, as a "
        "column subset, as a window of a wider buffer and read-only, to fronts / rises / falls. "
        "Non-trivial = word with >= 2 bits set incl. one in the high byte; train with >= 3 active lines; fronts on 2-D; "
        "split with >= 2 words. Distinct = distinct case hash (words are distinct by construction).")
EXHAUSTIVE_NOTE = "all 65536 sync words enumerated (per-word and vectorised calls); trains and fronts are sampled"
ASSUMPTIONS = ["one digital word per sample (dw = 1), as the 16 lines of the property imply",
               "analog levels are never placed within 2 LSB of the threshold, and the floor percentile equals the constant floor",
               "plain (nested) lists are legitimate inputs of fronts and of rises without analog=True (np.diff is array_like); "
               "falls and analog mode negate / compare the input and are fed arrays only; split_sync is fed numpy vectors only"]
BUDGET = {"quick": 8000, "thorough": 250000}


def enum_shards(tier):
    return [{"lo": lo, "hi": lo + 4096} for lo in range(0, 65536, 4096)] + [{"vector": True}]


def enum_cases(desc):
    if desc.get("vector"):
        yield {"mode": "vector"}
        return
    for w in range(desc["lo"], desc["hi"]):
        yield {"mode": "word", "w": w}


@st.composite
def _train(draw):
    kind = draw(st.sampled_from(["ap", "ap", "lf", "nidq", "nidq"]))
    ns = draw(st.integers(2, 400))
    if kind == "nidq":
        spec = draw(gm.st_nidq(ns_range=(ns, ns)))
        spec["dw"] = 1
        spec["xa"] = draw(st.integers(0, 3))
    else:
        spec = draw(gm.st_spec(gens=("3A", "3B2", "NP2.1", "NP2.4"), n_choices=(1, 4, 16, 32), allow_lf=(kind == "lf"),
                               ns_range=(ns, ns), patterns=("dense", "random")))
        if kind == "lf" and spec["gen"] in ("3A", "3B2"):
            spec["stream"] = "lf"
            spec["fs"] = 2500.0
        spec["nsync"] = 1
    nlines = draw(st.sampled_from([0, 1, 2, 3, 5, 8, 16]))
    lines = sorted(draw(st.permutations(list(range(16))))[:nlines])
    shared = draw(st.lists(st.integers(1, ns - 1), max_size=4, unique=True))
    trains = {}
    for k in lines:
        t = set(draw(st.lists(st.integers(1, ns - 1), max_size=12, unique=True)))
        if shared and draw(st.booleans()):
            t |= set(shared)
        if draw(st.integers(0, 4)) == 0:
            t |= {1, ns - 1}
        trains[str(k)] = {"init": draw(st.integers(0, 1)), "t": sorted(t)}
    analog = []
    if kind == "nidq":
        for _ in range(spec["xa"]):
            analog.append({"floor": draw(st.integers(-3000, 3000)), "seed": draw(st.integers(0, 2 ** 31)),
                           "t": sorted(set(draw(st.lists(st.integers(1, ns - 1), max_size=8, unique=True))))})
    slices = draw(st.lists(st.tuples(st.integers(0, ns), st.integers(0, ns)), max_size=3))
    return {"mode": "train", "spec": spec, "trains": trains, "analog": analog, "cbin": draw(st.booleans()),
            "chunk": draw(st.integers(5, 80)), "content_seed": draw(st.integers(0, 2 ** 31)),
            "slices": [list(s) for s in slices], "e2e_layout": draw(st.sampled_from(LAY_E2E)), "e2e_ro": draw(st.booleans()),
            "e2e_axis": draw(st.sampled_from(["pos", "neg", "default"])), "lay_p": draw(st.integers(0, 3))}


LAY_1D = ["c", "strided", "window", "neg", "column", "f_row", "list"]
LAY_2D = ["c", "f", "T", "strided_last", "strided_first", "window", "f_window", "neg", "list"]
LAY_SPLIT = ["c", "strided", "window", "neg", "column", "f_row"]
LAY_E2E = ["c", "T", "T", "T_copy", "f", "cols", "window", "f_window"]


@st.composite
def _fronts(draw):
    ndim = draw(st.sampled_from([1, 2, 2]))
    n = draw(st.integers(1, 60))
    m = draw(st.integers(1, 6)) if ndim == 2 else 0
    return {"mode": "fronts", "ndim": ndim, "n": n, "m": m, "axis": draw(st.sampled_from([-1, 0] if ndim == 1 else [-1, 0, 1])),
            "dtype": draw(st.sampled_from(["int8", "float64", "float32", "int16"])),
            "levels": draw(st.sampled_from(["01", "steps", "analog"])), "step": draw(st.sampled_from([1, 1, 2, 0.5, 3])),
            "seed": draw(st.integers(0, 2 ** 31)), "time_axis_first": draw(st.booleans()),
            "layout": draw(st.sampled_from(LAY_1D if ndim == 1 else LAY_2D)), "ro": draw(st.booleans()),
            "lay_p": draw(st.integers(0, 3))}


@st.composite
def _split(draw):
    return {"mode": "split", "n": draw(st.integers(1, 120)), "seed": draw(st.integers(0, 2 ** 31)),
            "layout": draw(st.sampled_from(LAY_SPLIT)), "ro": draw(st.booleans()), "lay_p": draw(st.integers(0, 3)),
            "col": draw(st.booleans())}


@st.composite
def _long(draw):
    """A long line (up to 2^21 + 5000 samples: about 70 s of a 30 kHz recording) with few events, some of them on round
    sample numbers - multiples of powers of two and of ten are where any internal block, batch or buffer size would put a
    seam. The events are written by construction, so the expected fronts are known without a reference pass."""
    p = draw(st.integers(12, 21))
    n = (1 << p) + draw(st.one_of(st.integers(-3, 3), st.integers(1, 5000), st.integers(1, 1 << p)))
    n = max(8, min(n, (1 << 21) + 5000))
    cands = []
    for _ in range(draw(st.integers(1, 6))):
        q = draw(st.integers(8, 21))
        base = draw(st.sampled_from([1 << q, 10 ** draw(st.integers(3, 6)), 3 * (1 << max(q - 2, 1))]))
        cands.append(base * draw(st.integers(1, 4)) + draw(st.sampled_from([0, 0, 0, -1, 1])))
    # the large round numbers below the length
    major = [v for v in (1 << 12, 1 << 14, 1 << 16, 1 << 17, 1 << 18, 1 << 19, 1 << 20, 1 << 21, 10 ** 5, 10 ** 6, 2 * 10 ** 6)
             if v < n - 1]
    # every one of them carries an event: on it (three times in five), or on the sample before / after it
    for v in major:
        cands.append(v + draw(st.sampled_from([0, 0, 0, -1, 1])))
    for _ in range(draw(st.integers(0, 6))):
        cands.append(draw(st.integers(1, n - 1)))
    ndim = draw(st.sampled_from([1, 1, 2]))
    e2e = None
    if ndim == 1 and draw(st.integers(0, 2)) == 0:
        # the line is bit `bit` of the sync word of a one-channel recording of that length (bin or cbin): decoded through
        # the Reader, then fronts
        e2e = {"spec": draw(gm.st_spec(gens=("3B2", "NP2.1", "3A"), n_choices=(1,), ns_range=(n, n), patterns=("dense",),
                                       allow_lf=False)),
               "bit": draw(st.integers(0, 15)), "cbin": draw(st.booleans()), "chunk": draw(st.sampled_from([30000, 65536, 100000]))}
    return {"mode": "long", "n": n, "pos": sorted({c for c in cands if 1 <= c < n}), "ndim": ndim, "e2e": e2e,
            "time_axis_first": draw(st.booleans()), "row": draw(st.integers(0, 1)),
            "dtype": draw(st.sampled_from(["int8", "int8", "float64" if n <= (1 << 19) else "int8", "int16"])),
            "axis_form": draw(st.sampled_from(["default", "kw"])), "amp": draw(st.sampled_from([1, 1, 5]))}


def strategy(tier):
    return st.one_of(_train(), _train(), _train(), _train(), _fronts(), _fronts(), _fronts(), _fronts(), _split(), _long())


def _bits(words):
    w = np.asarray(words).astype(np.int64) & 0xFFFF
    return ((w[:, None] >> np.arange(16)[None, :]) & 1).astype(np.int8)


def _edges(line):
    """Brute force: (index, +1/-1) at every sample where a 0/1 line changes."""
    out = []
    for i in range(1, len(line)):
        if line[i] != line[i - 1]:
            out.append((i, 1 if line[i] > line[i - 1] else -1))
    return out


def _layout(x, layout, p, ro, rng):
    """The logical array x (1-D or 2-D, C-contiguous) in the drawn memory layout / container.
    Returns (xin, base): xin holds the values of x, base is the buffer that owns the memory (None for a list)."""
    dt = x.dtype

    def junk(shape, order="C"):
        b = rng.integers(-3, 4, size=shape).astype(dt)
        return np.asfortranarray(b) if order == "F" else np.ascontiguousarray(b)

    off = p % 2
    if layout == "list":
        return x.tolist(), None
    if x.ndim == 1:
        n = x.shape[0]
        if layout == "strided":
            base = junk(2 * n + 1)
            xin = base[off::2][:n]
        elif layout == "window":
            base = junk(n + p + 2)
            xin = base[p:p + n]
        elif layout == "neg":
            base = junk(n)
            xin = base[::-1]
        elif layout == "column":
            base = junk((n, 3))
            xin = base[:, p % 3]
        elif layout == "f_row":
            base = junk((3, n), "F")
            xin = base[p % 3]
        else:
            base = junk(n)
            xin = base
    else:
        a, b = x.shape
        if layout == "f":
            base = junk((a, b), "F")
            xin = base
        elif layout == "T":
            base = junk((b, a))
            xin = base.T
        elif layout == "strided_last":
            base = junk((a, 2 * b + 1))
            xin = base[:, off::2][:, :b]
        elif layout == "strided_first":
            base = junk((2 * a + 1, b))
            xin = base[off::2][:a]
        elif layout in ("window", "f_window"):
            base = junk((a + p + 2, b + 3), "F" if layout == "f_window" else "C")
            xin = base[p:p + a, 1:1 + b]
        elif layout == "neg":
            base = junk((a, b))
            xin = base[::-1, ::-1]
        else:
            base = junk((a, b))
            xin = base
    xin[...] = x
    if ro:
        xin.flags.writeable = False
        base.flags.writeable = False
    return xin, base


def _mem_class(xin):
    if not isinstance(xin, np.ndarray):
        return "mem_list"
    if xin.ndim == 1:
        return "mem_1d_contig" if xin.flags.c_contiguous else "mem_1d_strided"
    if xin.flags.c_contiguous and xin.flags.f_contiguous:
        return "mem_2d_c_and_f"
    if xin.flags.c_contiguous:
        return "mem_2d_c"
    if xin.flags.f_contiguous:
        return "mem_2d_f"
    s = [abs(v) for v in xin.strides]
    return "mem_2d_noncontig_c_like" if s[0] >= s[1] else "mem_2d_noncontig_f_like"


class _Guard:
    """Input must be unchanged after a call into the repository: snapshot of the array and of the buffer around it."""

    def __init__(self, ctx, xin, base):
        self.ctx, self.xin, self.base = ctx, xin, base
        self.snap_x = np.array(xin, copy=True) if isinstance(xin, np.ndarray) else [list(r) if isinstance(r, list) else r for r in xin]
        self.snap_b = None if base is None else np.array(base, copy=True)

    def verify(self, what):
        if isinstance(self.xin, np.ndarray):
            same = (self.xin.shape == self.snap_x.shape and self.xin.dtype == self.snap_x.dtype and
                    np.array_equal(self.xin, self.snap_x) and np.array_equal(self.base, self.snap_b))
        else:
            same = self.xin == self.snap_x
        self.ctx.check(same, "C10.input_modified", lambda: f"{what} changed its input array (or the buffer around it)")


def _ind_list(ctx, kind, ind, ndim):
    """Index output of fronts / rises / falls -> list of position tuples, or None when it has not the documented form."""
    ok = isinstance(ind, np.ndarray) and ind.dtype.kind in "iu" and ((ndim == 1 and ind.ndim == 1) or
                                                                      (ndim > 1 and ind.ndim == 2 and ind.shape[0] == ndim))
    if not ctx.check(ok, kind, lambda: f"indices: {type(ind).__name__} dtype {getattr(ind, 'dtype', None)} shape "
                                       f"{getattr(ind, 'shape', None)} for a {ndim}-D input"):
        return None
    return [(int(i),) for i in ind.tolist()] if ndim == 1 else [tuple(c) for c in ind.T.tolist()]


def _pol(v):
    """polarity as an int; anything that is not a finite number maps to a value no edge has"""
    return int(v) if v == v and abs(v) != float("inf") else 99


def _fronts_list(ctx, kind, r, ndim):
    """Output of fronts -> list of (position tuple, polarity) or None."""
    if not ctx.check(isinstance(r, tuple) and len(r) == 2, kind, lambda: f"fronts returned {type(r).__name__}, not (indices, polarities)"):
        return None
    pos = _ind_list(ctx, kind, r[0], ndim)
    if pos is None:
        return None
    sign = r[1]
    ok = isinstance(sign, np.ndarray) and sign.dtype.kind in "iuf" and sign.shape == (len(pos),)
    if not ctx.check(ok, kind, lambda: f"polarities: {type(sign).__name__} dtype {getattr(sign, 'dtype', None)} shape "
                                       f"{getattr(sign, 'shape', None)} for {len(pos)} indices"):
        return None
    return list(zip(pos, sign.astype(np.float64).tolist()))


def run_case(case, ctx):
    mode = case["mode"]
    sg = sut.spikeglx()
    if mode == "word":
        w = case["w"]
        exp = _bits([w])
        v = np.array([w], dtype=np.uint16).view(np.int16)
        for shape, nm in (((1,), "1d"), ((1, 1), "col")):
            got = ctx.call("C10.split_sync", sg.split_sync, v.reshape(shape))
            if got is ctx.CRASH:
                return
            ctx.check(isinstance(got, np.ndarray) and got.shape == (1, 16) and got.dtype == np.int8 and np.array_equal(got, exp),
                      "C10.word_bits", lambda: f"word {w:#06x} ({nm}): got {np.asarray(got).tolist()} expected {exp.tolist()}")
        nb = bin(w).count("1")
        if nb >= 2 and (w >> 8):
            ctx.nontrivial = True
        ctx.label("bits_%d" % min(nb, 3), "high_byte" if w >> 8 else "low_byte_only")
        return
    if mode == "vector":
        words = np.arange(65536, dtype=np.uint16)
        rng = np.random.default_rng(0)
        words = words[rng.permutation(65536)]
        exp = _bits(words)
        wide = np.zeros((65536, 3), dtype=np.int16)
        wide[:, 1] = words.view(np.int16)  # the sync column of a [ns, nc] block of raw data, as the Reader passes it
        ro = words.view(np.int16).copy()
        ro.flags.writeable = False  # as data of a memmap opened with mode='r' are
        for arr, nm in ((words.view(np.int16), "1d"), (words.view(np.int16).reshape(-1, 1), "col"), (wide[:, 1], "strided column"),
                        (wide[:, 1:2], "strided (n, 1) column"), (ro, "read-only")):
            keep = arr.copy()
            got = ctx.call("C10.split_sync", sg.split_sync, arr)
            if got is not ctx.CRASH:
                ctx.check(isinstance(got, np.ndarray) and got.shape == (65536, 16) and got.dtype == np.int8 and
                          np.array_equal(got, exp), "C10.vector_bits", lambda: f"vector call ({nm}) differs from per-bit decoding")
                ctx.check(np.array_equal(arr, keep), "C10.input_modified", lambda: f"split_sync ({nm}) changed its input")
        ctx.nontrivial = True
        ctx.label("vector")
        return
    if mode == "fronts":
        return _run_fronts(case, ctx)
    if mode == "long":
        return _run_long(case, ctx)
    if mode == "split":
        return _run_split(case, ctx, sg)
    _run_train(case, ctx, sg)


def _run_split(case, ctx, sg):
    rng = np.random.default_rng(case["seed"])
    n = case["n"]
    words = rng.integers(0, 65536, size=n).astype(np.uint16)
    if rng.integers(0, 3) == 0:  # few distinct words, long runs
        words = words[np.sort(rng.integers(0, min(n, 3), size=n))]
    x = words.view(np.int16).copy()
    lay, ro = case.get("layout", "c"), bool(case.get("ro", False))
    xin, base = _layout(x, lay, case.get("lay_p", 0), ro, rng)
    if case.get("col"):
        xin = xin[:, None]
    ctx.check(np.array_equal(np.asarray(xin).ravel(), x), "C10.harness_selfcheck", "layout changed the logical content")
    ctx.label("split", "split_lay_" + lay, "split_" + ("col" if case.get("col") else "1d"), "split_ro" if ro else "split_rw",
              "split_" + ("contig" if xin.flags.c_contiguous else "strided"))
    if n >= 2:
        ctx.nontrivial = True
    guard = _Guard(ctx, xin, base)
    exp = _bits(words)
    got = ctx.call("C10.split_sync", sg.split_sync, xin)
    if got is ctx.CRASH:
        return
    guard.verify("split_sync")
    ctx.check(isinstance(got, np.ndarray) and got.shape == (n, 16) and got.dtype == np.int8 and np.array_equal(got, exp),
              "C10.split_bits", lambda: f"split_sync on a {lay} ({'read-only' if ro else 'writeable'}) vector of {n} words: "
                                        f"{type(got).__name__} {getattr(got, 'dtype', None)} {getattr(got, 'shape', None)} "
                                        f"differs from per-bit decoding")


def _run_fronts(case, ctx):
    U = sut.utils()
    rng = np.random.default_rng(case["seed"])
    n, m, ndim = case["n"], case["m"], case["ndim"]
    shape = (n,) if ndim == 1 else ((n, m) if case["time_axis_first"] else (m, n))
    dt = np.dtype(case["dtype"])
    if case["levels"] == "01":
        x = rng.integers(0, 2, size=shape)
        if rng.integers(0, 2):  # long runs
            x = (np.cumsum(rng.integers(0, 8, size=shape) == 0, axis=-1) % 2)
    elif case["levels"] == "steps":
        x = rng.integers(-3, 4, size=shape)
    else:
        x = rng.integers(-40, 41, size=shape) / 8.0  # multiples of 1/8: exact in every float type
    if dt.kind == "i" and case["levels"] == "analog":
        x = np.round(x)
    x = np.ascontiguousarray(x.astype(dt))
    axis = case["axis"]
    step = case["step"]
    lay, ro = case.get("layout", "c"), bool(case.get("ro", False))
    if lay not in (LAY_1D if ndim == 1 else LAY_2D):
        lay = "c"
    xin, base = _layout(x, lay, case.get("lay_p", 0), ro, rng)
    is_list = base is None
    ctx.check(np.array_equal(np.asarray(xin), x) and (is_list or xin.dtype == dt), "C10.harness_selfcheck",
              "layout changed the logical content")
    ax = axis % x.ndim
    ctx.label("fronts_%dd" % ndim, "dtype_" + case["dtype"], "lev_" + case["levels"], "lay%dd_%s" % (ndim, lay),
              "fronts_" + _mem_class(xin), "fronts_list" if is_list else ("fronts_ro" if ro else "fronts_rw"))
    if ndim == 2:
        ctx.label("lay2d_%s_axis%d" % (lay, ax))
        ctx.nontrivial = True
    guard = _Guard(ctx, xin, base)
    sfx = "_list" if is_list else ""
    xf = x.astype(np.float64)
    # brute force over consecutive samples along ax
    xm = np.moveaxis(xf, ax, -1)
    exp_f, exp_r, exp_fa = [], [], []
    for idx in np.ndindex(xm.shape[:-1]):
        tr = xm[idx]
        for i in range(1, tr.size):
            d = tr[i] - tr[i - 1]
            full = list(idx) + [i]
            # move the time index back to position ax
            pos = tuple(full[:-1][:ax] + [i] + full[:-1][ax:])
            if abs(d) >= step:
                exp_f.append((pos, d))
            if d >= step:
                exp_r.append(pos)
            if -d >= step:
                exp_fa.append(pos)
    r = ctx.call("C10.fronts" + sfx, U.fronts, xin, axis=axis, step=step)
    if r is not ctx.CRASH:
        guard.verify("fronts")
        got = _fronts_list(ctx, "C10.fronts" + sfx, r, ndim)
        if got is not None:
            got = sorted(got)
            ctx.check(got == sorted(exp_f), "C10.fronts" + sfx,
                      lambda: f"fronts ({lay} layout, axis {axis}): got {got[:6]} expected {sorted(exp_f)[:6]}")
    r = ctx.call("C10.rises" + sfx, U.rises, xin, axis=axis, step=step)
    if r is not ctx.CRASH:
        guard.verify("rises")
        got = _ind_list(ctx, "C10.rises" + sfx, r, ndim)
        if got is not None:
            got = sorted(got)
            ctx.check(got == sorted(exp_r), "C10.rises" + sfx,
                      lambda: f"rises ({lay} layout, axis {axis}): got {got[:6]} expected {sorted(exp_r)[:6]}")
    if is_list:
        return  # falls negates its input and analog mode compares it with the threshold: arrays only
    r = ctx.call("C10.falls", U.falls, xin, axis=axis, step=-step)
    if r is not ctx.CRASH:
        guard.verify("falls")
        got = _ind_list(ctx, "C10.falls", r, ndim)
        if got is not None:
            got = sorted(got)
            ctx.check(got == sorted(exp_fa), "C10.falls",
                      lambda: f"falls ({lay} layout, axis {axis}): got {got[:6]} expected {sorted(exp_fa)[:6]}")
    if case["levels"] == "analog":
        # analog mode: the trace is first converted to boolean (> step), then 0->1 transitions are the rises
        thr = step
        b = (xm > thr).astype(int)
        exp_ar = []
        for idx in np.ndindex(b.shape[:-1]):
            for i in range(1, b.shape[-1]):
                if b[idx][i] - b[idx][i - 1] == 1:
                    full = list(idx)
                    exp_ar.append(tuple(full[:ax] + [i] + full[ax:]))
        r = ctx.call("C10.rises_analog", U.rises, xin, axis=axis, step=thr, analog=True)
        if r is not ctx.CRASH:
            guard.verify("rises(analog=True)")
            got = _ind_list(ctx, "C10.rises_analog", r, ndim)
            if got is not None:
                got = sorted(got)
                ctx.check(got == sorted(exp_ar), "C10.rises_analog",
                          lambda: f"analog rises ({lay} layout, axis {axis}): got {got[:6]} expected {sorted(exp_ar)[:6]}")


def _run_long(case, ctx):
    U = sut.utils()
    n, pos, ndim, amp = case["n"], np.array(case["pos"], dtype=np.int64), case["ndim"], case["amp"]
    dt = np.dtype(case["dtype"])
    ind = np.zeros(n, dtype=np.int8)
    ind[pos] = 1
    line = ((np.cumsum(ind, dtype=np.int64) % 2) * amp).astype(dt)        # toggles at every listed sample
    exp_pol = np.where(np.arange(pos.size) % 2 == 0, 1, -1) * amp
    if ndim == 1:
        x, axis = line, -1
    else:
        x = np.zeros((2, n), dtype=dt)
        x[case["row"]] = line
        axis = -1
        if case["time_axis_first"]:
            x, axis = np.ascontiguousarray(x.T), 0
    ctx.label("long", "long_%dd" % ndim, "long_2^%d" % int(np.log2(n)), "long_dtype_" + case["dtype"],
              "long_events_%d" % min(pos.size, 4))
    if pos.size and n > 4096:
        ctx.nontrivial = True
    if np.any((pos & (pos - 1)) == 0) or np.any(pos % 1000 == 0):
        ctx.label("long_event_on_round_sample")
    keep = x.copy()
    kw = {} if (case["axis_form"] == "default" and axis == -1) else {"axis": axis}
    step = 1 if amp == 1 else 3
    r = ctx.call("C10.long.fronts", U.fronts, x, step=step, **kw)
    if r is not ctx.CRASH and ctx.check(isinstance(r, tuple) and len(r) == 2 and all(isinstance(a, np.ndarray) for a in r),
                                        "C10.long.fronts", lambda: f"fronts returned {type(r).__name__}"):
        gi, gp = r
        if ndim == 1:
            ok = gi.shape == pos.shape and np.array_equal(gi, pos)
        else:
            tpos = np.vstack([np.full(pos.size, case["row"]), pos]) if axis == -1 else np.vstack([pos, np.full(pos.size, case["row"])])
            ok = gi.shape == tpos.shape and np.array_equal(gi, tpos)
        ctx.check(ok, "C10.long.fronts", lambda: f"{n} samples, events at {pos.tolist()}: fronts at "
                                                 f"{np.asarray(gi).T.tolist()[:8]}")
        ctx.check(np.shape(gp) == pos.shape and np.array_equal(np.asarray(gp, dtype=np.float64), exp_pol), "C10.long.polarity",
                  lambda: f"{n} samples, events at {pos.tolist()}: polarities {np.asarray(gp).tolist()[:8]} expected {exp_pol.tolist()[:8]}")
    for nm, fn, sel, st_ in (("rises", U.rises, slice(0, None, 2), step), ("falls", U.falls, slice(1, None, 2), -step)):
        r = ctx.call("C10.long." + nm, fn, x, step=st_, **kw)
        if r is ctx.CRASH:
            continue
        e = pos[sel]
        if ndim == 2:
            e = np.vstack([np.full(e.size, case["row"]), e]) if axis == -1 else np.vstack([e, np.full(e.size, case["row"])])
        ctx.check(isinstance(r, np.ndarray) and r.shape == e.shape and np.array_equal(r, e), "C10.long." + nm,
                  lambda: f"{n} samples, events at {pos.tolist()}: {nm} at {np.asarray(r).T.tolist()[:8]}")
    ctx.check(np.array_equal(x, keep), "C10.input_modified", "a front function changed its long input")
    if case.get("e2e"):
        _long_e2e(case, ctx, line.astype(np.int64) // amp, pos)


def _long_e2e(case, ctx, lev, pos):
    sg, U = sut.spikeglx(), sut.utils()
    e = case["e2e"]
    spec, bit, n = e["spec"], e["bit"], case["n"]
    nc = gm.n_channels(spec)
    D = np.zeros((n, nc), dtype=np.int16)
    D[:, 0] = (np.arange(n) % 1999 - 999).astype(np.int16)
    D[:, nc - 1] = (lev.astype(np.uint16) << np.uint16(bit)).view(np.int16)
    ctx.label("long_e2e", "long_e2e_" + ("cbin" if e["cbin"] else "bin"), "long_e2e_bit%d" % bit)
    exp_pol = np.where(np.arange(pos.size) % 2 == 0, 1, -1)
    with rec.scratch_dir(ctx) as d:
        binf = rec.write_recording(d, spec, D)
        path = rec.compress(binf, nc, spec["fs"], e["chunk"], keep_bin=False) if e["cbin"] else binf
        sr = ctx.call("C10.open", sg.Reader, path)
        if sr is ctx.CRASH:
            return
        try:
            got = ctx.call("C10.read_sync", sr.read_sync, slice(0, n))
            if got is ctx.CRASH:
                return
            if not ctx.check(isinstance(got, np.ndarray) and got.shape == (n, 16) and got.dtype == np.int8, "C10.read_sync_shape",
                             lambda: f"read_sync of {n} samples: shape {getattr(got, 'shape', None)} dtype {getattr(got, 'dtype', None)}"):
                return
            col = got[:, bit]
            bad = np.flatnonzero(col != lev)
            ctx.check(bad.size == 0, "C10.read_sync_digital",
                      lambda: f"{n} samples, line {bit}: decoded line differs from the written one at samples {bad[:8].tolist()}")
            others = np.delete(got, bit, axis=1)
            ctx.check(not others.any(), "C10.read_sync_digital", lambda: f"{n} samples: lines other than {bit} are not all zero")
            for s_ in pos[:6].tolist():
                a, b = max(0, s_ - 3), min(n, s_ + 4)
                dg = ctx.call("C10.read_sync_digital", sr.read_sync_digital, slice(a, b))
                if dg is not ctx.CRASH:
                    ctx.check(isinstance(dg, np.ndarray) and dg.shape == (b - a, 16) and np.array_equal(dg[:, bit], lev[a:b]),
                              "C10.read_sync_slice", lambda: f"{n} samples: digital sync slice [{a}:{b}] differs")
            fr = ctx.call("C10.fronts", U.fronts, col)
            if fr is not ctx.CRASH and ctx.check(isinstance(fr, tuple) and len(fr) == 2, "C10.e2e_fronts", "fronts did not return a pair"):
                ctx.check(np.array_equal(fr[0], pos) and np.array_equal(np.asarray(fr[1], dtype=np.float64), exp_pol),
                          "C10.e2e_fronts", lambda: f"{n} samples, events at {pos.tolist()}: recovered {np.asarray(fr[0]).tolist()[:8]}")
        finally:
            try:
                sr.close()
            except Exception:  # noqa
                pass


def _e2e_layout(case, ctx, U, got, exp_all, lay, ro):
    """fronts / rises / falls on the [ns, nl] array returned by read_sync, handed over in another layout."""
    ns, nl = got.shape
    p = case.get("lay_p", 0)
    linemap = list(range(nl))
    tax = 0  # axis along which time runs in the array handed over
    base = None
    if lay == "T":  # one line per row, view: sync.T
        arr, tax = got.T, 1
    elif lay == "T_copy":  # one line per row, C-contiguous
        arr, tax = np.ascontiguousarray(got.T), 1
    elif lay == "f":
        arr = np.asfortranarray(got)
    elif lay == "cols":  # every other line: strided view
        arr = got[:, p % 2::2]
        linemap = linemap[p % 2::2]
    elif lay in ("window", "f_window"):
        base = np.full((ns + p + 2, nl + 3), 1 - int(got[0, 0]), dtype=got.dtype, order="F" if lay == "f_window" else "C")
        arr = base[p:p + ns, 2:2 + nl]
        arr[...] = got
    else:
        arr = got.copy()
    if base is None:
        base = arr
    if ro:
        arr.flags.writeable = False
    mode = case.get("e2e_axis", "pos")
    kw = {"axis": tax} if mode == "pos" else ({"axis": tax - 2} if mode == "neg" else ({} if tax == 1 else {"axis": tax}))
    ctx.label("e2e_" + _mem_class(arr), "e2e_time_axis_%d_%s" % (tax, "default" if not kw else ("neg" if kw["axis"] < 0 else "pos")))
    guard = _Guard(ctx, arr, base)
    exp_e = sorted((linemap[j], i, s_) for j in range(len(linemap)) for i, s_ in _edges(exp_all[:, linemap[j]]))
    what = f"layout {lay}{' read-only' if ro else ''}, time along axis {tax}, call with {kw or 'the default axis'}"

    def events(pos, signs):
        if any(not 0 <= q[1 - tax] < len(linemap) for q in pos):
            return "line index outside of the array"  # compares unequal to the expected list
        return sorted((linemap[q[1 - tax]], q[tax], s_) for q, s_ in zip(pos, signs))

    r = ctx.call("C10.fronts2d", U.fronts, arr, **kw)
    if r is not ctx.CRASH:
        guard.verify("fronts")
        fl = _fronts_list(ctx, "C10.e2e_fronts_layout", r, 2)
        if fl is not None:
            ctx.check(events([q for q, _ in fl], [_pol(s_) for _, s_ in fl]) == exp_e, "C10.e2e_fronts_layout",
                      lambda: f"fronts ({what}): recovered events differ from the generated edges")
    for nm, fn, sg_ in (("rises", U.rises, 1), ("falls", U.falls, -1)):
        r = ctx.call("C10." + nm + "2d", fn, arr, **kw)
        if r is ctx.CRASH:
            continue
        guard.verify(nm)
        pos = _ind_list(ctx, "C10.e2e_%s_layout" % nm, r, 2)
        if pos is not None:
            ctx.check(events(pos, [sg_] * len(pos)) == [e for e in exp_e if e[2] == sg_], "C10.e2e_%s_layout" % nm,
                      lambda: f"{nm} ({what}): recovered events differ from the generated edges")
    if tax == 1:  # line by line on the rows (contiguous for the copy, strided for the view)
        for j in range(len(linemap)):
            r = ctx.call("C10.fronts", U.fronts, arr[j])
            if r is ctx.CRASH:
                return
            fl = _fronts_list(ctx, "C10.e2e_fronts_layout", r, 1)
            if fl is None or not ctx.check([(q[0], _pol(s_)) for q, s_ in fl] == _edges(exp_all[:, linemap[j]]), "C10.e2e_fronts_layout",
                                           lambda: f"fronts on row {j} ({what}): recovered edges differ from the generated ones"):
                break
        guard.verify("fronts (rows)")


def _run_train(case, ctx, sg):
    U = sut.utils()
    spec = case["spec"]
    ns = spec["ns"]
    nc = gm.n_channels(spec)
    nidq = spec["gen"] == "nidq"
    D = rec.make_data(ns, nc, case["content_seed"], "full", nsync=1)
    # --- digital lines
    lines = np.zeros((ns, 16), dtype=np.int64)
    for k, tr in case["trains"].items():
        lev = np.full(ns, tr["init"], dtype=np.int64)
        for t in tr["t"]:
            lev[t:] ^= 1
        lines[:, int(k)] = lev
    words = (lines << np.arange(16)[None, :]).sum(axis=1).astype(np.uint16)
    D[:, nc - 1] = words.view(np.int16)
    # --- analog lines (nidq XA channels)
    exp_analog = []
    if nidq:
        s2v = calib.s2v(spec)
        a0 = spec["mn"] + spec["ma"]
        rng_lsb = spec["range"] / 32768
        thr_counts = 1.2 / rng_lsb
        for j, an in enumerate(case["analog"]):
            rng = np.random.default_rng(an["seed"])
            lev = np.zeros(ns, dtype=np.int64)
            for t in an["t"]:
                lev[t:] ^= 1
            nfloor = int(np.ceil(0.25 * ns)) + 1
            # the floor must be the 10th percentile: hold it on > 10 % of the samples (low samples only)
            low = np.flatnonzero(lev == 0)
            if low.size < nfloor:
                lev[:] = 0
                low = np.arange(ns)
            floor = an["floor"]
            hi_off = rng.integers(int(np.ceil(thr_counts)) + 2, int(np.ceil(thr_counts)) + 4000, size=ns)
            lo_off = rng.integers(0, max(1, int(np.floor(thr_counts)) - 2), size=ns)
            lo_off[low[:nfloor]] = 0
            vals = np.where(lev == 1, floor + hi_off, floor + lo_off)
            vals = np.clip(vals, -32768, 32767)
            D[:, a0 + j] = vals.astype(np.int16)
            volts = vals * s2v[a0 + j]
            exp_analog.append(((volts - floor * s2v[a0 + j]) >= 1.2).astype(np.int8))
    nact = len(case["trains"])
    if nact >= 3:
        ctx.nontrivial = True
    ctx.label("train_" + ("nidq" if nidq else spec["stream"]), "lines_%s" % (nact if nact < 3 else "3+"),
              "cbin" if case["cbin"] else "bin", "analog_%d" % len(exp_analog))
    exp_dig = _bits(words)
    ctx.check(np.array_equal(exp_dig, lines.astype(np.int8)), "C10.harness_selfcheck", "packing is not the inverse of the bit oracle")
    exp_all = np.concatenate([exp_dig] + [a[:, None] for a in exp_analog], axis=1) if exp_analog else exp_dig
    with rec.scratch_dir(ctx) as d:
        binf = rec.write_recording(d, spec, D)
        path = rec.compress(binf, nc, spec["fs"], case["chunk"], keep_bin=False) if case["cbin"] else binf
        sr = ctx.call("C10.open", sg.Reader, path)
        if sr is ctx.CRASH:
            return
        try:
            got = ctx.call("C10.read_sync", sr.read_sync, slice(0, ns))
            if got is ctx.CRASH:
                return
            if not ctx.check(isinstance(got, np.ndarray) and got.shape == exp_all.shape, "C10.read_sync_shape",
                             lambda: f"read_sync shape {getattr(got, 'shape', None)} != {exp_all.shape}"):
                return
            ctx.check(np.array_equal(got[:, :16], exp_dig), "C10.read_sync_digital", "digital lines differ from the packed bits")
            if exp_analog:
                ctx.check(np.array_equal(got[:, 16:], exp_all[:, 16:]), "C10.read_sync_analog",
                          "analog lines differ from thresholded harness volts")
            ctx.check(got.dtype == np.int8, "C10.read_sync_dtype", lambda: f"dtype {got.dtype}")
            # through the read() entry point with sync=True
            r2 = ctx.call("C10.read_with_sync", sr.read, slice(0, ns), slice(None), True)
            if r2 is not ctx.CRASH:
                ctx.check(isinstance(r2, tuple) and len(r2) == 2 and np.array_equal(r2[1], got), "C10.read_with_sync",
                          "read(..., sync=True) sync part differs from read_sync")
            for a, b in case["slices"]:
                dg = ctx.call("C10.read_sync_digital", sr.read_sync_digital, slice(a, b))
                if dg is not ctx.CRASH:
                    ctx.check(np.array_equal(dg, exp_dig[a:b]), "C10.read_sync_slice", lambda: f"digital sync slice [{a}:{b}] differs")
            # the answer for a range of samples is a function of those samples: this reader, which has already served
            # other requests, and a reader opened for the occasion return the same rows (digital and analog)
            if exp_analog or case["slices"]:
                fresh = ctx.call("C10.open", sg.Reader, path)
                if fresh is not ctx.CRASH:
                    try:
                        h = max(1, ns // 2)
                        for a, b in list(case["slices"])[:3] + [(h, ns), (0, h), (max(0, ns - 7), ns)]:
                            if not 0 <= a < b <= ns:
                                continue
                            used = ctx.call("C10.read_sync", sr.read_sync, slice(a, b))
                            new = ctx.call("C10.read_sync", fresh.read_sync, slice(a, b))
                            if used is ctx.CRASH or new is ctx.CRASH:
                                break
                            if not ctx.check(np.shape(used) == np.shape(new) == (b - a, exp_all.shape[1]) and np.array_equal(used, new),
                                             "C10.read_sync_history",
                                             lambda: (f"read_sync[{a}:{b}] of a reader that served other requests before differs from "
                                                      f"the same request to a newly opened reader in columns "
                                                      f"{sorted(set(np.argwhere(np.asarray(used) != np.asarray(new))[:, 1].tolist())) if np.shape(used) == np.shape(new) else 'shape'}")):
                                break
                            ctx.check(np.array_equal(np.asarray(new)[:, :16], exp_dig[a:b]), "C10.read_sync_slice",
                                      lambda: f"digital part of read_sync[{a}:{b}] differs from the packed bits")
                            # the fresh reader is closed and re-opened so that each request is its first
                            fresh.close()
                            fresh.open()
                    finally:
                        try:
                            fresh.close()
                        except Exception:  # noqa
                            pass
            # end to end: fronts on each line == generated edges
            for k in range(16):
                e = _edges(lines[:, k])
                fr = ctx.call("C10.fronts", U.fronts, got[:, k])
                if fr is ctx.CRASH:
                    return
                fl = _fronts_list(ctx, "C10.e2e_fronts", fr, 1)
                if fl is None:
                    break
                ok = [(q[0], _pol(s_)) for q, s_ in fl] == e
                if not ctx.check(ok, "C10.e2e_fronts", lambda: f"line {k}: recovered edges differ from the generated ones"):
                    break
                ri = ctx.call("C10.rises", U.rises, got[:, k])
                fa = ctx.call("C10.falls", U.falls, got[:, k])
                if ri is ctx.CRASH or fa is ctx.CRASH:
                    return
                ri, fa = _ind_list(ctx, "C10.e2e_rises_falls", ri, 1), _ind_list(ctx, "C10.e2e_rises_falls", fa, 1)
                if ri is None or fa is None:
                    break
                if not ctx.check([q[0] for q in ri] == [i for i, s in e if s > 0] and
                                 [q[0] for q in fa] == [i for i, s in e if s < 0], "C10.e2e_rises_falls",
                                 lambda: f"line {k}: rises/falls differ from the generated edges"):
                    break
            # 2-D call along the time axis
            fr2 = ctx.call("C10.fronts2d", U.fronts, got[:, :16], axis=0)
            if fr2 is not ctx.CRASH:
                fl = _fronts_list(ctx, "C10.e2e_fronts2d", fr2, 2)
                if fl is not None:
                    got_e = sorted((c, t, _pol(s_)) for (t, c), s_ in fl)
                    exp_e = sorted((k, i, s_) for k in range(16) for i, s_ in _edges(lines[:, k]))
                    ctx.check(got_e == exp_e, "C10.e2e_fronts2d", "2-D fronts along axis 0 differ from the generated edges")
            # the same array in another memory layout (all lines, analog ones included): layout must not matter
            lay = case.get("e2e_layout", "c")
            ro = bool(case.get("e2e_ro", False))
            ctx.label("e2e_lay_" + lay, "e2e_ro" if ro else "e2e_rw")
            if (lay != "c" or ro) and np.array_equal(got, exp_all):
                _e2e_layout(case, ctx, U, got, exp_all, lay, ro)
        finally:
            try:
                sr.close()
            except Exception:
                pass
