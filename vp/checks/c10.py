"""C10 - Sync words decode to TTL lines and fronts recover every event."""
import numpy as np
from hypothesis import strategies as st

from vp import sut
from vp.gens import meta as gm, recording as rec
from vp.oracles import calib

ID = "C10"
LEVEL = "exploration"
RULE = ("(word) all 65536 16-bit words, one case per word (1-D one-element call and (1,1) column call) plus one vector call "
        "over all words in 1-D and column layout: line k == (word >> k) & 1 - enumerated exhaustively. (train) Hypothesis: "
        "0/1 event trains (toggle times incl. sample 1 and the last sample, simultaneous edges, arbitrary initial levels) "
        "on any subset of the 16 lines packed into the sync channel of a generated AP / LF / nidq recording (bin or cbin), "
        "read back through Reader.read_sync over the whole file and through slices; nidq analog lines are placed >= 2 LSB "
        "away from the 1.2 V threshold on either side over a constant floor held for > 10% of the samples; oracle: shape "
        "(n, 16 [+ analog]), bits, thresholded harness volts, and fronts/rises/falls on each line == generated edges. "
        "(fronts) 1-D and 2-D int8/float arrays along both axes, step thresholds, analog mode against a brute-force loop. "
        "Non-trivial = word with >= 2 bits set incl. one in the high byte; train with >= 3 active lines; fronts on 2-D. "
        "Distinct = distinct case hash (words are distinct by construction).")
EXHAUSTIVE_NOTE = "all 65536 sync words enumerated (per-word and vectorised calls); trains and fronts are sampled"
ASSUMPTIONS = ["one digital word per sample (dw = 1), as the 16 lines of the property imply",
               "analog levels are never placed within 2 LSB of the threshold, and the floor percentile equals the constant floor"]
BUDGET = {"quick": 8000, "thorough": 250000}


def enum_shards(tier):
    return [{"lo": lo, "hi": lo + 4096} for lo in range(0, 65536, 4096)] + [{"vector": True}]


def enum_cases(desc):
    if desc.get("vector"):
        yield {"mode": "vector"}
        return
    for w in range(desc["lo"], desc["hi"]):
        yield {"mode": "word", "w": w}


@st.composite
def _train(draw):
    kind = draw(st.sampled_from(["ap", "ap", "lf", "nidq", "nidq"]))
    ns = draw(st.integers(2, 400))
    if kind == "nidq":
        spec = draw(gm.st_nidq(ns_range=(ns, ns)))
        spec["dw"] = 1
        spec["xa"] = draw(st.integers(0, 3))
    else:
        spec = draw(gm.st_spec(gens=("3A", "3B2", "NP2.1", "NP2.4"), n_choices=(1, 4, 16, 32), allow_lf=(kind == "lf"),
                               ns_range=(ns, ns), patterns=("dense", "random")))
        if kind == "lf" and spec["gen"] in ("3A", "3B2"):
            spec["stream"] = "lf"
            spec["fs"] = 2500.0
        spec["nsync"] = 1
    nlines = draw(st.sampled_from([0, 1, 2, 3, 5, 8, 16]))
    lines = sorted(draw(st.permutations(list(range(16))))[:nlines])
    shared = draw(st.lists(st.integers(1, ns - 1), max_size=4, unique=True))
    trains = {}
    for k in lines:
        t = set(draw(st.lists(st.integers(1, ns - 1), max_size=12, unique=True)))
        if shared and draw(st.booleans()):
            t |= set(shared)
        if draw(st.integers(0, 4)) == 0:
            t |= {1, ns - 1}
        trains[str(k)] = {"init": draw(st.integers(0, 1)), "t": sorted(t)}
    analog = []
    if kind == "nidq":
        for _ in range(spec["xa"]):
            analog.append({"floor": draw(st.integers(-3000, 3000)), "seed": draw(st.integers(0, 2 ** 31)),
                           "t": sorted(set(draw(st.lists(st.integers(1, ns - 1), max_size=8, unique=True))))})
    slices = draw(st.lists(st.tuples(st.integers(0, ns), st.integers(0, ns)), max_size=3))
    return {"mode": "train", "spec": spec, "trains": trains, "analog": analog, "cbin": draw(st.booleans()),
            "chunk": draw(st.integers(5, 80)), "content_seed": draw(st.integers(0, 2 ** 31)),
            "slices": [list(s) for s in slices]}


@st.composite
def _fronts(draw):
    ndim = draw(st.sampled_from([1, 2, 2]))
    n = draw(st.integers(1, 60))
    m = draw(st.integers(1, 6)) if ndim == 2 else 0
    return {"mode": "fronts", "ndim": ndim, "n": n, "m": m, "axis": draw(st.sampled_from([-1, 0] if ndim == 1 else [-1, 0, 1])),
            "dtype": draw(st.sampled_from(["int8", "float64", "float32", "int16"])),
            "levels": draw(st.sampled_from(["01", "steps", "analog"])), "step": draw(st.sampled_from([1, 1, 2, 0.5, 3])),
            "seed": draw(st.integers(0, 2 ** 31)), "time_axis_first": draw(st.booleans())}


def strategy(tier):
    return st.one_of(_train(), _fronts())


def _bits(words):
    w = np.asarray(words).astype(np.int64) & 0xFFFF
    return ((w[:, None] >> np.arange(16)[None, :]) & 1).astype(np.int8)


def _edges(line):
    """Brute force: (index, +1/-1) at every sample where a 0/1 line changes."""
    out = []
    for i in range(1, len(line)):
        if line[i] != line[i - 1]:
            out.append((i, 1 if line[i] > line[i - 1] else -1))
    return out


def run_case(case, ctx):
    mode = case["mode"]
    sg = sut.spikeglx()
    if mode == "word":
        w = case["w"]
        exp = _bits([w])
        v = np.array([w], dtype=np.uint16).view(np.int16)
        for shape, nm in (((1,), "1d"), ((1, 1), "col")):
            got = ctx.call("C10.split_sync", sg.split_sync, v.reshape(shape))
            if got is ctx.CRASH:
                return
            ctx.check(isinstance(got, np.ndarray) and got.shape == (1, 16) and got.dtype == np.int8 and np.array_equal(got, exp),
                      "C10.word_bits", lambda: f"word {w:#06x} ({nm}): got {np.asarray(got).tolist()} expected {exp.tolist()}")
        nb = bin(w).count("1")
        if nb >= 2 and (w >> 8):
            ctx.nontrivial = True
        ctx.label("bits_%d" % min(nb, 3), "high_byte" if w >> 8 else "low_byte_only")
        return
    if mode == "vector":
        words = np.arange(65536, dtype=np.uint16)
        rng = np.random.default_rng(0)
        words = words[rng.permutation(65536)]
        exp = _bits(words)
        for arr, nm in ((words.view(np.int16), "1d"), (words.view(np.int16).reshape(-1, 1), "col")):
            got = ctx.call("C10.split_sync", sg.split_sync, arr)
            if got is not ctx.CRASH:
                ctx.check(got.shape == (65536, 16) and got.dtype == np.int8 and np.array_equal(got, exp), "C10.vector_bits",
                          lambda: f"vector call ({nm}) differs from per-bit decoding")
        ctx.nontrivial = True
        ctx.label("vector")
        return
    if mode == "fronts":
        return _run_fronts(case, ctx)
    _run_train(case, ctx, sg)


def _run_fronts(case, ctx):
    U = sut.utils()
    rng = np.random.default_rng(case["seed"])
    n, m, ndim = case["n"], case["m"], case["ndim"]
    shape = (n,) if ndim == 1 else ((n, m) if case["time_axis_first"] else (m, n))
    dt = np.dtype(case["dtype"])
    if case["levels"] == "01":
        x = rng.integers(0, 2, size=shape)
        if rng.integers(0, 2):  # long runs
            x = (np.cumsum(rng.integers(0, 8, size=shape) == 0, axis=-1) % 2)
    elif case["levels"] == "steps":
        x = rng.integers(-3, 4, size=shape)
    else:
        x = rng.integers(-40, 41, size=shape) / 8.0  # multiples of 1/8: exact in every float type
    if dt.kind == "i" and case["levels"] == "analog":
        x = np.round(x)
    x = x.astype(dt)
    axis = case["axis"]
    if ndim == 1 and axis == 0:
        axis = 0
    step = case["step"]
    ctx.label("fronts_%dd" % ndim, "dtype_" + case["dtype"], "lev_" + case["levels"])
    if ndim == 2:
        ctx.nontrivial = True
    xf = x.astype(np.float64)
    ax = axis % x.ndim
    # brute force over consecutive samples along ax
    xm = np.moveaxis(xf, ax, -1)
    exp_f, exp_r, exp_fa = [], [], []
    for idx in np.ndindex(xm.shape[:-1]):
        tr = xm[idx]
        for i in range(1, tr.size):
            d = tr[i] - tr[i - 1]
            full = list(idx) + [i]
            # move the time index back to position ax
            pos = tuple(full[:-1][:ax] + [i] + full[:-1][ax:])
            if abs(d) >= step:
                exp_f.append((pos, d))
            if d >= step:
                exp_r.append(pos)
            if -d >= step:
                exp_fa.append(pos)
    r = ctx.call("C10.fronts", U.fronts, x, axis=axis, step=step)
    if r is not ctx.CRASH:
        ind, sign = r
        ind = np.asarray(ind)
        got = sorted(zip([tuple(c) for c in (ind.T if ind.ndim == 2 else ind[:, None])], np.asarray(sign, float).tolist()))
        ctx.check(got == sorted(exp_f), "C10.fronts", lambda: f"fronts: got {got[:6]} expected {sorted(exp_f)[:6]}")
    r = ctx.call("C10.rises", U.rises, x, axis=axis, step=step)
    if r is not ctx.CRASH:
        ind = np.asarray(r)
        got = sorted(tuple(c) for c in (ind.T if ind.ndim == 2 else ind[:, None]))
        ctx.check(got == sorted(exp_r), "C10.rises", lambda: f"rises: got {got[:6]} expected {sorted(exp_r)[:6]}")
    r = ctx.call("C10.falls", U.falls, x, axis=axis, step=-step)
    if r is not ctx.CRASH:
        ind = np.asarray(r)
        got = sorted(tuple(c) for c in (ind.T if ind.ndim == 2 else ind[:, None]))
        ctx.check(got == sorted(exp_fa), "C10.falls", lambda: f"falls: got {got[:6]} expected {sorted(exp_fa)[:6]}")
    if case["levels"] == "analog":
        # analog mode: the trace is first converted to boolean (> step), then 0->1 transitions are the rises
        thr = step
        b = (xm > thr).astype(int)
        exp_ar = []
        for idx in np.ndindex(b.shape[:-1]):
            for i in range(1, b.shape[-1]):
                if b[idx][i] - b[idx][i - 1] == 1:
                    full = list(idx)
                    exp_ar.append(tuple(full[:ax] + [i] + full[ax:]))
        r = ctx.call("C10.rises_analog", U.rises, x, axis=axis, step=thr, analog=True)
        if r is not ctx.CRASH:
            ind = np.asarray(r)
            got = sorted(tuple(c) for c in (ind.T if ind.ndim == 2 else ind[:, None]))
            ctx.check(got == sorted(exp_ar), "C10.rises_analog", lambda: f"analog rises: got {got[:6]} expected {sorted(exp_ar)[:6]}")


def _run_train(case, ctx, sg):
    U = sut.utils()
    spec = case["spec"]
    ns = spec["ns"]
    nc = gm.n_channels(spec)
    nidq = spec["gen"] == "nidq"
    D = rec.make_data(ns, nc, case["content_seed"], "full", nsync=1)
    # --- digital lines
    lines = np.zeros((ns, 16), dtype=np.int64)
    for k, tr in case["trains"].items():
        lev = np.full(ns, tr["init"], dtype=np.int64)
        for t in tr["t"]:
            lev[t:] ^= 1
        lines[:, int(k)] = lev
    words = (lines << np.arange(16)[None, :]).sum(axis=1).astype(np.uint16)
    D[:, nc - 1] = words.view(np.int16)
    # --- analog lines (nidq XA channels)
    exp_analog = []
    if nidq:
        s2v = calib.s2v(spec)
        a0 = spec["mn"] + spec["ma"]
        rng_lsb = spec["range"] / 32768
        thr_counts = 1.2 / rng_lsb
        for j, an in enumerate(case["analog"]):
            rng = np.random.default_rng(an["seed"])
            lev = np.zeros(ns, dtype=np.int64)
            for t in an["t"]:
                lev[t:] ^= 1
            nfloor = int(np.ceil(0.25 * ns)) + 1
            # the floor must be the 10th percentile: hold it on > 10 % of the samples (low samples only)
            low = np.flatnonzero(lev == 0)
            if low.size < nfloor:
                lev[:] = 0
                low = np.arange(ns)
            floor = an["floor"]
            hi_off = rng.integers(int(np.ceil(thr_counts)) + 2, int(np.ceil(thr_counts)) + 4000, size=ns)
            lo_off = rng.integers(0, max(1, int(np.floor(thr_counts)) - 2), size=ns)
            lo_off[low[:nfloor]] = 0
            vals = np.where(lev == 1, floor + hi_off, floor + lo_off)
            vals = np.clip(vals, -32768, 32767)
            D[:, a0 + j] = vals.astype(np.int16)
            volts = vals * s2v[a0 + j]
            exp_analog.append(((volts - floor * s2v[a0 + j]) >= 1.2).astype(np.int8))
    nact = len(case["trains"])
    if nact >= 3:
        ctx.nontrivial = True
    ctx.label("train_" + ("nidq" if nidq else spec["stream"]), "lines_%s" % (nact if nact < 3 else "3+"),
              "cbin" if case["cbin"] else "bin", "analog_%d" % len(exp_analog))
    exp_dig = _bits(words)
    ctx.check(np.array_equal(exp_dig, lines.astype(np.int8)), "C10.harness_selfcheck", "packing is not the inverse of the bit oracle")
    exp_all = np.concatenate([exp_dig] + [a[:, None] for a in exp_analog], axis=1) if exp_analog else exp_dig
    with rec.scratch_dir(ctx) as d:
        binf = rec.write_recording(d, spec, D)
        path = rec.compress(binf, nc, spec["fs"], case["chunk"], keep_bin=False) if case["cbin"] else binf
        sr = ctx.call("C10.open", sg.Reader, path)
        if sr is ctx.CRASH:
            return
        try:
            got = ctx.call("C10.read_sync", sr.read_sync, slice(0, ns))
            if got is ctx.CRASH:
                return
            if not ctx.check(isinstance(got, np.ndarray) and got.shape == exp_all.shape, "C10.read_sync_shape",
                             lambda: f"read_sync shape {getattr(got, 'shape', None)} != {exp_all.shape}"):
                return
            ctx.check(np.array_equal(got[:, :16], exp_dig), "C10.read_sync_digital", "digital lines differ from the packed bits")
            if exp_analog:
                ctx.check(np.array_equal(got[:, 16:], exp_all[:, 16:]), "C10.read_sync_analog",
                          "analog lines differ from thresholded harness volts")
            ctx.check(got.dtype == np.int8, "C10.read_sync_dtype", lambda: f"dtype {got.dtype}")
            # through the read() entry point with sync=True
            r2 = ctx.call("C10.read_with_sync", sr.read, slice(0, ns), slice(None), True)
            if r2 is not ctx.CRASH:
                ctx.check(isinstance(r2, tuple) and len(r2) == 2 and np.array_equal(r2[1], got), "C10.read_with_sync",
                          "read(..., sync=True) sync part differs from read_sync")
            for a, b in case["slices"]:
                dg = ctx.call("C10.read_sync_digital", sr.read_sync_digital, slice(a, b))
                if dg is not ctx.CRASH:
                    ctx.check(np.array_equal(dg, exp_dig[a:b]), "C10.read_sync_slice", lambda: f"digital sync slice [{a}:{b}] differs")
            # end to end: fronts on each line == generated edges
            for k in range(16):
                e = _edges(lines[:, k])
                fr = ctx.call("C10.fronts", U.fronts, got[:, k])
                if fr is ctx.CRASH:
                    return
                ind, sign = fr
                ok = list(zip(np.asarray(ind).tolist(), np.asarray(sign).astype(int).tolist())) == e
                if not ctx.check(ok, "C10.e2e_fronts", lambda: f"line {k}: recovered edges differ from the generated ones"):
                    break
                ri = ctx.call("C10.rises", U.rises, got[:, k])
                fa = ctx.call("C10.falls", U.falls, got[:, k])
                if ri is ctx.CRASH or fa is ctx.CRASH:
                    return
                if not ctx.check(np.asarray(ri).tolist() == [i for i, s in e if s > 0] and
                                 np.asarray(fa).tolist() == [i for i, s in e if s < 0], "C10.e2e_rises_falls",
                                 lambda: f"line {k}: rises/falls differ from the generated edges"):
                    break
            # 2-D call along the time axis
            fr2 = ctx.call("C10.fronts2d", U.fronts, got[:, :16], axis=0)
            if fr2 is not ctx.CRASH:
                ind, sign = fr2
                got_e = sorted((int(c), int(t), int(s)) for (t, c), s in zip(np.asarray(ind).T, np.asarray(sign)))
                exp_e = sorted((k, i, s) for k in range(16) for i, s in _edges(lines[:, k]))
                ctx.check(got_e == exp_e, "C10.e2e_fronts2d", "2-D fronts along axis 0 differ from the generated edges")
        finally:
            try:
                sr.close()
            except Exception:
                pass
