"""C14 - Spike features obey their ordering, extremum and equivariance laws.

Code under test: ibldsp.waveforms.compute_spike_features (find_peak / pick_maximum, find_tip_trough, find_trough,
find_tip, half_peak_point, recovery_point).

A case is a batch description: T, C, recovery offset k, a seed for the noise and one small parameter list per
waveform (shape, polarity, peak position, trough position, amplitude ratio, width, noise level, peak channel,
spatial decay, NaN-padded channels). The batch is rebuilt from it in run_case.

Round 5 dimensions (drawn case fields, all optional for old corpus cases): dtype (float64 / float32 / int32), sampling
rate fs, call form of the first call and of the repeated call (keywords, positional, all defaults, explicit
recovery_duration_ms=0.16, return_peak_channel True / False), memory layout of the batch handed to the first call
and of the arrays of the law calls (C, Fortran, swapped (n, C, T) storage, strided slice of a bigger array), the same
argument object passed a second time after the law calls, the batch in another order.

Round 10: a rare real-data-scale class (_big_case / _run_big): 2^16+1 .. 1.05e6 waveforms built from the few parameter
rows of the case, expected frame known by construction for every row, different waveforms on the rows around every
multiple of 1000 / 1024 (a blocked implementation that loses or mis-phases the row on a block seam is seen there).
"""
import json
import math
import zlib

import numpy as np
from hypothesis import strategies as st

from vp import sut
from vp.gens import weighted

ID = "C14"
LEVEL = "exploration"
RULE = ("Case = batch of 1-30 synthetic multi-channel waveforms (T 10-200 samples, 1-40 channels, float64 or float32) "
        "built by construction from per-waveform parameters drawn by Hypothesis: own shapes (mono/bi/tri-phasic "
        "Gaussians, weakly positive spikes with peak/trough ratio 1.0-2.2, plateaus that stay high until the end), "
        "either polarity, peak at any sample 1..T-1 (classes early/late/last), trough anywhere up to the last sample, "
        "continuous bounded noise 1-30 % of the amplitude from a stored seed (no ties), spatial decay around a drawn "
        "peak channel, NaN-padded channels (never all), recovery offset k 1-9 (default 5), sample 0 attenuated to at "
        "most 7/16 of the largest deflection elsewhere (domain of the property). A grid T x peak position x trough "
        "position x polarity x {strong, weak 1.2, weak 1.8} of narrow single-channel spikes is enumerated completely. "
        "Oracle: per-waveform reference in plain loops written from the docstrings (global absolute extremum over "
        "time then traces; swap to the trough when the peak is positive and |peak/trough| <= 1.5; trough = maximum of "
        "the sign-normalised trace from the peak on; tip = maximum before the peak; half-peak points = nearest sample "
        "on each side strictly above half of the peak, compared only when one exists; recovery = trough + k clipped "
        "to T-1; every *_val equals the input at the reported index), the ordering law tip < peak <= trough, and "
        "three metamorphic laws on the implementation itself: scaling by 2**e (exact), channel permutation, batch == "
        "single-waveform calls and == concatenation of two sub-batches. All comparisons are exact (tolerance 0). "
        "Dimensions of the call, drawn per case: dtype float64 / float32 / int32 (rounded to ~1e6 counts, no NaN), "
        "sampling rate fs (30000 or 20000, 25000, 32000, 2500, 30000.0584 with recovery_duration_ms = k / fs), call form "
        "(keywords, positional, no option at all = documented defaults fs=30000 / 0.16 ms = 5 samples, explicit 0.16 ms, "
        "return_peak_channel True by keyword or position / False explicitly), memory layout of the argument (C, Fortran, "
        "(n, C, T) storage with swapped axes, strided slice of a bigger array filled with junk; read-only arrays and lists "
        "are rejected by the unchanged tree and therefore outside the domain). The argument is the caller's own array "
        "(no private copy): afterwards it must have the same shape and dtype and the same values except that NaN may "
        "have become 0 (documented NaN removal), storage around a strided view must be untouched; the same argument "
        "object is passed a second time after the law calls (other data of the same shape in between), possibly in "
        "another call form, and must give the same frame; a permuted batch must give the permuted frame; with "
        "return_peak_channel=True the second output must be the input traces of the reported peak channel; the duration "
        "and slope columns must follow from the reported indices / values and fs (docstrings: seconds, difference over "
        "duration; relative tolerance 16 eps of the value dtype). "
        "Real-data scale (about 2 % of the cases, labels scale_*): 65537 .. 1.05e6 waveforms (classes just above 2^16, "
        "around 10^5 / 2^17, around 2^18, above 10^6 / 2^20) of 10-64 samples x 1-3 channels; row i is one of 3-12 parameter "
        "rows of the case (one per clause: trough on the last sample, peak on the last sample, swapped and unswapped weak "
        "positive spikes, peak on sample 1, ...) times 2**e_i, assigned at random and, around every multiple of 1000 and of "
        "1024, as three different consecutive rows; the expected frame is the reference of the parameter rows indexed by "
        "that assignment (exact, every row compared), plus single-waveform calls on rows around 2^16, 10^5, 2^17, 2^18, 10^6, "
        "2^20, the batch without its first 1-4097 rows (N < 100000) and the same argument a second time (N < 200000). "
        "Non-trivial = some waveform has its trough within the last 6 samples, or is a swapped row, or has a NaN "
        "channel; for a real-data-scale case: the rows before, on and after every crossed power-of-two / power-of-ten seam "
        "from 2^16 on have different expected features. Distinct = distinct case hash.")
EXHAUSTIVE_NOTE = ("grid T (quick 10,16; thorough 10..40) x peak position 1..T-1 x trough position peak..T-1 x polarity x "
                   "{strong r=3, weak r=1.2, weak r=1.8} of narrow (sigma 0.75 sample) single-channel spikes with 1 % noise "
                   "is enumerated completely, k=5; widths, channel counts, noise and batch composition are sampled; call form "
                   "and memory layout cycle with the peak position over the grid (float64, fs=30000)")
ASSUMPTIONS = [
    "the input is a writeable numpy array (float64, float32, or int32 counts without NaN; any memory layout) without "
    "exact ties between candidate extrema (continuous noise); "
    "a waveform whose reference decision margin is exactly 0, or whose |peak/trough| is within 1e-5 of 1.5, is "
    "labelled and skipped (measured: never happens in float64; rounded int32 counts can tie)",
    "whole channels are NaN-padded (as produced at the probe edges), never all channels of a waveform",
    "recovery offset k < T (the function documents a ValueError otherwise)",
    "scaling is checked for c = 2**e only, so that equality is exact and no index can flip by rounding",
    "batch independence is checked on every row through a two-part split and on up to 4 rows through "
    "single-waveform calls (2-D and 3-D input alternate), in a third of the cases also through a permuted batch",
    "the function replaces NaN by 0 in the caller's array by design (not asserted either way); every other change of the "
    "argument is a finding: the repository's own tests and the return_peak_channel output use the array after the call",
    "read-only arrays (ValueError in the NaN removal) and lists (AttributeError) are rejected by the unchanged tree: not "
    "drawn; unsigned integers wrap in the sign flip: outside the domain",
    "the all-defaults call form is drawn only together with k=5 and fs=30000 (0.16 ms at 30 kHz is 4.8 samples and the "
    "documented default offset of recovery_point is 5: nearest sample); otherwise recovery_duration_ms = 1000 k / fs",
    "duration and slope columns are compared with the values that follow from the reported indices and values of the same "
    "frame, not with the reference (a wrong index is reported once, under its own kind)",
    "real-data scale: the number of waveforms and its class are a fixed function (CRC32) of the drawn parameter rows and "
    "seed, because Hypothesis re-uses leading draws for many near-copies of one example; lengths and channel counts are "
    "kept small there (N x T x C <= 6e6, 1.05e7 for T = 10) so that one call stays near 1 GB; float64 is not used above "
    "10^6 waveforms; the strided layout and the scaling / channel-permutation / batch-order laws are left to the small cases",
    "root-cause routing: a batch in which the reference finds a trough exactly k samples before the end calls the code "
    "under kind C14.features.trough_at_T-k (known finding recovery_eq_T) and, when it crashes, is re-run without those "
    "waveforms so that all other assertions still apply; on rows that the reference classifies as 'swapped, new peak "
    "positive' the tip / half-peak / value comparisons are reported under C14.swap_pos_uninverted (known finding), "
    "while peak, trough, ordering, recovery index and the three laws keep their own kinds on those rows",
]
BUDGET = {"quick": 2000, "thorough": 90000}
# one case costs 90-230 ms (3 + up to 9 calls of ~13 ms each): no shrinking in the quick tier (the driver keeps the
# smallest failing case over the 16 shards); the thorough tier shrinks, bounded by the wall cap
SHRINK = {"quick": False, "thorough": True}
WALL_CAP = {"quick": 900, "thorough": 3600}

IDX_COLS = ["peak_time_idx", "trough_time_idx", "tip_time_idx", "half_peak_post_time_idx",
            "half_peak_pre_time_idx", "recovery_time_idx"]
VAL_COLS = ["peak_val", "trough_val", "tip_val", "half_peak_post_val", "half_peak_pre_val", "recovery_val"]
SLOPE_COLS = ["depolarisation_slope", "repolarisation_slope", "recovery_slope"]
REQUIRED = ["peak_trace_idx"] + IDX_COLS + VAL_COLS + ["half_peak_duration"] + SLOPE_COLS
AMPS = [1.0, 37.5, 8e-5, 2.5e-4]

FS_DEFAULT = 30000
FS_OTHER = [20000, 25000, 32000, 2500, 30000.0584]
# call forms: how the options reach compute_spike_features
FORMS_DEFAULT = ("default", "default_rpc", "ms016")      # need k == 5 and fs == 30000 (documented defaults)
FORMS_ANY = ("kw", "pos", "rpc", "rpc_pos", "rpc_false")
FORMS_RPC = ("rpc", "rpc_pos", "default_rpc")            # return_peak_channel=True: (frame, peak-channel traces)
LAYOUTS = ("C", "F", "T", "S")
ENUM_FORMS = ("kw", "default", "pos", "rpc", "ms016", "rpc_false", "default_rpc", "rpc_pos")

KIND_FEATURES = "C14.features"
KIND_FEATURES_EQ_T = "C14.features.trough_at_T-k"
KIND_SWAP_POS = "C14.swap_pos_uninverted"


# ------------------------------------------------------------------------------------------------
# generator

@st.composite
def _wav(draw, T, C):
    shape = draw(st.sampled_from(["mono", "bi", "bi", "tri", "weak", "weak", "plateau"]))
    if shape in ("weak", "plateau"):
        pol = draw(st.sampled_from([1, 1, 1, -1]))
    else:
        pol = draw(st.sampled_from([-1, -1, 1]))
    pk = draw(st.sampled_from(["any", "any", "late", "early", "last"]))
    if pk == "late":
        pos = draw(st.integers(max(1, T - 9), T - 1))
    elif pk == "early":
        pos = draw(st.integers(1, min(T - 1, 4)))
    elif pk == "last":
        pos = T - 1
    else:
        pos = draw(st.integers(1, T - 1))
    if pos >= T - 1:
        tpos = pos
    else:
        tk = draw(st.sampled_from(["near", "near", "late", "any"]))
        if tk == "near":
            tpos = draw(st.integers(pos + 1, min(T - 1, pos + 15)))
        elif tk == "late":
            tpos = draw(st.integers(max(pos + 1, T - 7), T - 1))
        else:
            tpos = draw(st.integers(pos + 1, T - 1))
    if shape == "weak":
        r = draw(st.integers(100, 220))
    elif shape == "plateau":
        r = draw(st.integers(100, 400))
    else:
        r = draw(st.integers(120, 400))
    ch = draw(st.integers(0, C - 1))
    nk = draw(st.sampled_from(["none", "none", "edge", "rand"])) if C > 1 else "none"
    if nk == "edge":
        m = draw(st.integers(1, C - 1))
        nan = list(range(m)) if draw(st.booleans()) else list(range(C - m, C))
        nan = [c for c in nan if c != ch]
    elif nk == "rand":
        nan = sorted(set(draw(st.lists(st.integers(0, C - 1), min_size=1, max_size=min(C - 1, 6)))) - {ch})
    else:
        nan = []
    return {"shape": shape, "pol": pol, "pos": pos, "tpos": tpos, "r": r,
            "w": draw(st.integers(2, 24)),  # sigma in quarter samples
            "nz": draw(st.sampled_from([1, 3, 8, 12, 30])),  # noise, percent of the amplitude
            "amp": draw(st.integers(0, len(AMPS) - 1)), "ch": ch,
            "spread": draw(st.sampled_from([2, 6, 16])),  # spatial decay length in quarter channels
            "nan": nan}


@st.composite
def _case(draw):
    T = draw(st.one_of(st.integers(10, 40), st.integers(10, 200)))
    C = draw(st.one_of(st.integers(1, 6), st.integers(1, 40)))
    n = draw(st.one_of(st.integers(1, 4), st.integers(1, 30)))
    wavs = [draw(_wav(T, C)) for _ in range(n)]
    # the call form first: the all-defaults forms fix k = 5 and fs = 30000
    form = draw(st.sampled_from(FORMS_ANY + ("kw", "kw") + FORMS_DEFAULT))
    if form in FORMS_DEFAULT:
        k, fs = 5, FS_DEFAULT
    else:
        k = draw(st.sampled_from([5, 5, 5, 5, 1, 2, 3, 4, 6, 7, 8, 9]))
        fs = draw(st.sampled_from([FS_DEFAULT] * 4 + FS_OTHER))
    # options of the repeated call on the same array: the same ones, or another offset / sampling rate
    other = draw(st.sampled_from(["same", "same", "k", "fs", "both"]))
    k2 = draw(st.sampled_from([x for x in range(1, 10) if x != k])) if other in ("k", "both") else k
    fs2 = draw(st.sampled_from([x for x in [FS_DEFAULT] + FS_OTHER if x != fs])) if other in ("fs", "both") else fs
    forms = FORMS_ANY + (FORMS_DEFAULT if k2 == 5 and fs2 == FS_DEFAULT else ())
    # "i32s": integer counts of SMALL amplitude (odd peak of 21 .. 1001 counts): samples land exactly on (|peak| - 1) / 2 and
    # (|peak| + 1) / 2, the two integers around half of the peak
    dtype = draw(st.sampled_from(["f64", "f64", "f64", "f64", "f64", "f64", "f32", "f32", "f32", "i32", "i32s", "i32s"]))
    return {"T": T, "C": C, "k": k,
            "seed": draw(st.integers(0, 2 ** 32 - 1)), "f32": dtype == "f32",
            "scale_exp": draw(st.sampled_from([-6, -3, -1, 1, 2, 5])), "split": draw(st.integers(0, 30)),
            "laws": True, "wavs": wavs,
            "dtype": dtype, "fs": fs, "form": form, "form2": draw(st.sampled_from(forms)), "k2": k2, "fs2": fs2,
            "layout": draw(st.sampled_from(LAYOUTS + ("C",))), "law_layout": draw(st.sampled_from(LAYOUTS + ("C",))),
            "again": draw(st.sampled_from([True, True, True, False])),
            "bperm": draw(st.sampled_from([True, False, False]))}


# ---- real-data scale (round 10): 2^16+1 .. 1.05e6 waveforms, built from a handful of parameter rows ------------------
# classes of the number of waveforms N; T and C are small so that one call stays around 1 GB (the function holds about
# ten float64 / int64 arrays of N x T at its peak)
BIG_CLASSES = {
    # name: (ranges of N, largest N * T * C, weight)
    "2^16": ([(65537, 65540), (65537, 70001)], 6_000_000, 4),
    "1e5_2^17": ([(100001, 100003), (131073, 131075), (100001, 140000)], 6_000_000, 3),
    "2^18": ([(262145, 262148), (200001, 300000)], 6_000_000, 3),
    "1e6_2^20": ([(1000001, 1000003), (1048577, 1048580), (1048576 + 999, 1048576 + 1002), (1048577, 1050000)],
                 10_500_000, 5),  # T = 10, C = 1 only
}
BIG_SEAMS = (("2^16", 2 ** 16), ("1e5", 10 ** 5), ("2^17", 2 ** 17), ("2^18", 2 ** 18), ("1e6", 10 ** 6), ("2^20", 2 ** 20))


def _big_size(case):
    """(class, N) of a real-data-scale case. Unless the case names N itself ("big": {"n": ...}), both are a fixed
    function of the drawn fields (CRC of the parameter rows and of the seed, class among those that T x C can afford)
    and not draws of their own: Hypothesis fills a good part of its budget with near-copies of earlier examples (same
    leading draws, one span replaced) - when N was drawn, the 57 big cases of a quick run had 10 different sizes."""
    big = case["big"]
    if isinstance(big, dict) and "n" in big:
        return str(big.get("cls", "given")), int(big["n"])
    T, C = case["T"], case["C"]
    h = zlib.crc32(json.dumps([case["wavs"], case["seed"]], sort_keys=True).encode())
    rng = np.random.default_rng([h, 0x51CE])
    names = [nm for nm, (ranges, budget, _) in BIG_CLASSES.items() if ranges[-1][1] * T * C <= budget]
    if not names:  # not generated: T x C too large for 2^16 waveforms within the memory budget
        return "2^16", 65537 + h % 4
    wts = np.array([BIG_CLASSES[nm][2] for nm in names], dtype=float)
    cls = names[int(rng.choice(len(names), p=wts / wts.sum()))]
    ranges = BIG_CLASSES[cls][0]
    lo, hi = ranges[int(rng.integers(len(ranges)))]
    return cls, int(rng.integers(lo, hi + 1))


@st.composite
def _big_case(draw):
    # T x C decides which classes of N are affordable: 10 x 1 all four, up to 20 x 1 the first three, ...
    grp = draw(st.sampled_from(["10"] * 3 + ["11-20"] * 4 + ["21-42"] * 3 + ["43-64"]))
    if grp == "10":
        T, C = 10, 1
    else:
        lo, hi = (int(v) for v in grp.split("-"))
        T = draw(st.integers(lo, hi))
        C = min(draw(st.sampled_from([1, 1, 1, 2, 3])), max(1, BIG_CLASSES["2^16"][1] // (70001 * T)))
    # the parameter rows: one per clause of the property, then free ones
    forced = [
        {"shape": "bi", "pol": -1, "tpos": T - 1},                                       # trough on the last sample
        {"shape": "mono", "pos": T - 1, "tpos": T - 1},                                  # peak on the last sample
        {"shape": "weak", "pol": 1, "r": draw(st.integers(100, 140))},                    # positive, swapped to the trough
        {"shape": "weak", "pol": 1, "r": draw(st.integers(165, 220))},                    # positive, not swapped
        {"shape": "bi", "pol": -1, "pos": 1, "tpos": draw(st.integers(2, 8))},            # peak on sample 1
        {"shape": "tri", "pos": draw(st.integers(T // 3, T // 2)), "tpos": T - 1 - draw(st.integers(1, 6))},
    ]
    wavs = []
    for over in forced[:draw(st.integers(3, len(forced)))]:
        w = draw(_wav(T, C))
        w.update(over)
        w["nz"] = min(w["nz"], 8)
        if w["tpos"] < w["pos"]:
            w["pos"] = draw(st.integers(1, w["tpos"]))
        wavs.append(w)
    wavs += [draw(_wav(T, C)) for _ in range(draw(st.integers(0, 6)))]
    form = draw(st.sampled_from(FORMS_ANY + ("kw", "kw") + FORMS_DEFAULT))
    if form in FORMS_DEFAULT:
        k, fs = 5, FS_DEFAULT
    else:
        k = draw(st.sampled_from([5, 5, 5, 5, 1, 2, 3, 4, 6, 7, 8, 9]))
        fs = draw(st.sampled_from([FS_DEFAULT] * 4 + FS_OTHER))
    k2 = draw(st.sampled_from([k, k, 1, 3, 5, 9]))
    dtype = draw(st.sampled_from(["f32", "f32", "i32"] if T == 10 else ["f64", "f64", "f64", "f32", "f32", "i32"]))
    return {"T": T, "C": C, "k": k, "seed": draw(st.integers(0, 2 ** 32 - 1)), "f32": dtype == "f32",
            "scale_exp": 1, "split": draw(st.integers(1, 4097)),
            "laws": draw(st.booleans()), "wavs": wavs, "dtype": dtype, "fs": fs, "form": form,
            "form2": draw(st.sampled_from(FORMS_ANY + (FORMS_DEFAULT if k2 == 5 and fs == FS_DEFAULT else ()))),
            "k2": k2, "fs2": fs, "layout": draw(st.sampled_from(["C", "C", "T", "F"])),
            "law_layout": draw(st.sampled_from(["C", "T", "F"])), "again": draw(st.booleans()),
            "bperm": False, "big": {"v": 1}}


def strategy(tier):
    return weighted((30, _case()), (1, _big_case()))


def enum_shards(tier):
    ts = [10, 16] if tier == "quick" else list(range(10, 41))
    shards = []
    if tier == "quick":
        for T in ts:
            for pol in (-1, 1):
                shards.append({"Ts": [T], "pols": [pol]})
    else:
        for i in range(16):
            shards.append({"Ts": ts[i::16], "pols": [-1, 1]})
    return shards


def enum_cases(desc):
    for T in desc["Ts"]:
        for pol in desc["pols"]:
            for shape, r in (("bi", 300), ("weak", 120), ("weak", 180)):
                for pos in range(1, T):
                    wavs = [{"shape": shape if tpos > pos else "mono", "pol": pol, "pos": pos, "tpos": tpos, "r": r,
                             "w": 3, "nz": 1, "amp": 0, "ch": 0, "spread": 6, "nan": []} for tpos in range(pos, T)]
                    j = pos + T + (r // 60)
                    yield {"T": T, "C": 1, "k": 5, "seed": 1000 * T + pos, "f32": False, "scale_exp": 1,
                           "split": pos, "laws": True, "wavs": wavs,
                           "dtype": "f64", "fs": FS_DEFAULT, "form": ENUM_FORMS[j % len(ENUM_FORMS)],
                           "form2": ENUM_FORMS[(j // 2 + 3) % len(ENUM_FORMS)], "k2": 5, "fs2": FS_DEFAULT,
                           "layout": LAYOUTS[j % len(LAYOUTS)],
                           "law_layout": LAYOUTS[(j // 3) % len(LAYOUTS)], "again": True, "bperm": j % 3 == 0}


def _dtype(case):
    return case.get("dtype") or ("f32" if case.get("f32") else "f64")


def build_batch(case):
    """(n, T, C) array described by the case; NaN-padded channels are NaN (0 for the integer dtype)."""
    T, C = case["T"], case["C"]
    dt = _dtype(case)
    rng = np.random.default_rng(case["seed"])
    n = len(case["wavs"])
    W = np.zeros((n, T, C))
    t = np.arange(T, dtype=float)[:, None]
    chans = np.arange(C, dtype=float)[None, :]
    for i, p in enumerate(case["wavs"]):
        A = AMPS[p["amp"]]
        pos, tp, r, wd = p["pos"], p["tpos"], p["r"] / 100.0, p["w"] / 4.0

        def g(c, s):
            return np.exp(-0.5 * ((t - c) / s) ** 2)
        shape = p["shape"]
        if shape == "mono" or tp == pos and shape != "plateau":
            s = g(pos, wd)
        elif shape in ("bi", "weak"):
            s = g(pos, wd) - g(tp, 1.5 * wd) / r
        elif shape == "tri":
            s = g(pos, wd) - g(tp, 1.5 * wd) / r - 0.3 * g(pos - (tp - pos), wd)
        else:  # plateau: rises just before pos, then decays linearly by (r-1)/3 of its level until the end
            rise = 1.0 / (1.0 + np.exp(-(t - pos + 1) * 4.0 / wd))
            dec = 1.0 - ((r - 1.0) / 3.0) * np.clip(t - pos, 0, None) / max(1, T - 1 - pos)
            s = rise * dec
        spatial = np.exp(-np.abs(chans - p["ch"]) / (p["spread"] / 4.0))
        z = rng.standard_normal((T, C))
        noise = 3.5 * np.tanh(z / 3.5) * (p["nz"] / 100.0)  # continuous and bounded: no ties
        w = A * (p["pol"] * s * spatial + noise)
        live = np.ones(C, bool)
        live[p["nan"]] = False
        w[:, ~live] = 0
        # domain of the property: the largest deflection is not on the first sample
        big = np.max(np.abs(w[1:, :]))
        m0 = np.max(np.abs(w[0, :]))
        if m0 >= 0.4375 * big and m0 > 0:
            w[0, :] *= 0.4375 * big / m0
        if dt == "i32":  # raw counts: about 1e6 at the peak, padded channels are flat
            w = np.rint(w / A * 1e6)
        elif dt == "i32s":
            w = np.rint(w / A * [21, 51, 101, 201, 1001][int(case["seed"]) % 5])
            j = np.unravel_index(np.argmax(np.abs(w)), w.shape)
            if w[j] % 2 == 0 and w[j] != 0:
                w[j] += np.sign(w[j])       # an odd extremum: half of it is no integer, "within half" has no tie
        else:
            w[:, ~live] = np.nan
        W[i] = w
    if dt == "f32":
        W = W.astype(np.float32)
    elif dt in ("i32", "i32s"):
        W = W.astype(np.int32)
    return W


# ------------------------------------------------------------------------------------------------
# reference implementation (plain loops, written from the docstrings and the property statement)

def _argmax_first(vals):
    """index of the first maximum, the maximum, and its distance to the best value at any other position"""
    bi, bv = 0, vals[0]
    for i in range(1, len(vals)):
        if vals[i] > bv:
            bi, bv = i, vals[i]
    second = None
    for i in range(len(vals)):
        if i != bi and (second is None or vals[i] > second):
            second = vals[i]
    gap = math.inf if second is None else bv - second
    return bi, bv, gap


def ref_features(w, k):
    """w: T lists of C floats (NaN already replaced by 0). Returns a dict of reference features and margins."""
    T, C = len(w), len(w[0])
    out = {"skip": None}
    # absolute maximum over time for every trace, then over traces
    tmax, amax = [], []
    for c in range(C):
        i, v, _ = _argmax_first([abs(w[t][c]) for t in range(T)])
        tmax.append(i)
        amax.append(v)
    c_pk, a_pk, gc = _argmax_first(amax)
    _, _, gt = _argmax_first([abs(w[t][c_pk]) for t in range(T)])
    gap = min(gc, gt)
    x = [w[t][c_pk] for t in range(T)]
    p = tmax[c_pk]
    pv = x[p]
    if a_pk == 0 or p == 0:
        out["skip"] = "outside_domain"
        return out
    scale = abs(pv)

    def norm(xs, v):  # sign-normalised trace: the peak points down
        return [-a for a in xs] if v > 0 else list(xs)

    y = norm(x, pv)
    j, _, g_ = _argmax_first(y[p:])
    gap = min(gap, g_)
    tr = p + j
    tv = x[tr]
    out["first_peak"] = (p, pv)
    swapped = False
    ratio_margin = math.inf
    if pv > 0:
        if tv == 0:
            out["skip"] = "zero_trough"
            return out
        ratio = abs(pv / tv)
        ratio_margin = abs(ratio - 1.5)
        if ratio <= 1.5:
            swapped = True
            p, pv = tr, tv
            y = norm(x, pv)
            j, _, g_ = _argmax_first(y[p:])
            gap = min(gap, g_)
            tr = p + j
            tv = x[tr]
    if pv == 0:
        out["skip"] = "zero_peak"
        return out
    tip, _, g_ = _argmax_first(y[:p])
    gap = min(gap, g_)
    half = y[p] / 2
    post = None
    for t in range(p, T):
        if y[t] > half:
            post = t
            break
    pre = None
    for t in range(p - 1, -1, -1):
        if y[t] > half:
            pre = t
            break
    half_margin = min(abs(v - half) for v in y)
    rec = tr + k
    if rec > T - 1:
        rec = T - 1
    out.update({"c": c_pk, "p": p, "pv": pv, "tr": tr, "tv": tv, "tip": tip, "post": post, "pre": pre, "rec": rec,
                "swapped": swapped, "x": x, "raw_rec": tr + k, "gap_rel": gap / scale,
                "half_margin_rel": half_margin / abs(pv), "ratio_margin": ratio_margin})
    if gap == 0:
        out["skip"] = "tie"
    elif ratio_margin < 1e-5:
        out["skip"] = "ratio_boundary"
    return out


# ------------------------------------------------------------------------------------------------
# known findings

def known_recovery_eq_T(case, f):
    """recovery_point tests `idx > T` instead of `idx >= T`: trough exactly k samples before the end -> IndexError"""
    return f.kind == KIND_FEATURES_EQ_T + ":crash:IndexError@ibldsp/waveforms.py:recovery_point"


def known_swap_pos(case, f):
    """swapped rows whose new peak is itself positive keep an un-inverted arr_peak"""
    return f.kind == KIND_SWAP_POS


KNOWN = {"recovery_eq_T": known_recovery_eq_T, "swap_pos_uninverted": known_swap_pos}


# ------------------------------------------------------------------------------------------------

class _Arg:
    """The argument object handed to the code under test: a fresh array with the values of `src` in the given memory
    layout, the storage it is a view of, and a snapshot of that storage taken before the first call."""

    def __init__(self, src, layout):
        src = np.asarray(src)
        if layout == "F":
            a = owner = np.array(src, order="F", copy=True)
        elif layout == "T":  # stored with time as the last axis (n, C, T), handed over with the axes swapped
            owner = np.array(np.swapaxes(src, -1, -2), order="C", copy=True)
            a = np.swapaxes(owner, -1, -2)
        elif layout == "S":  # every second waveform and channel, a window in time, of a bigger array full of junk
            T, C = src.shape[-2:]
            junk = 2 ** 30 if src.dtype.kind == "i" else 1e30
            shape = (T + 4, 2 * C + 1) if src.ndim == 2 else (2 * src.shape[0] + 1, T + 4, 2 * C + 1)
            owner = np.full(shape, junk, dtype=src.dtype)
            owner[..., ::3, :] *= -1
            a = owner[3:3 + T, 1::2] if src.ndim == 2 else owner[1::2, 3:3 + T, 1::2]
            a[...] = src
        else:
            a = owner = np.array(src, order="C", copy=True)
        self.a, self.owner, self.snap = a, owner, owner.copy()
        self.shape, self.dtype = a.shape, a.dtype

    def touched(self):
        """None, or what changed in the argument beyond the documented NaN -> 0"""
        a, o, s0 = self.a, self.owner, self.snap
        if a.shape != self.shape or a.dtype != self.dtype or o.shape != s0.shape:
            return f"shape / dtype {self.shape} {self.dtype} became {a.shape} {a.dtype}"
        with np.errstate(all="ignore"):
            was_nan = np.isnan(s0)
            ok = (o == s0) | (was_nan & (np.isnan(o) | (o == 0)))
        if bool(np.all(ok)):
            return None
        bad = np.argwhere(~ok)
        i = tuple(int(v) for v in bad[0])
        return f"{len(bad)} element(s) of the storage changed, first at {i}: {s0[i]} -> {o[i]}"


def _invoke(a, k, fs, form):
    """the call into the repository in the drawn call form"""
    wf = sut.waveforms()
    ms = k * 1000.0 / fs
    if form == "default":
        return wf.compute_spike_features(a)
    if form == "default_rpc":
        return wf.compute_spike_features(a, return_peak_channel=True)
    if form == "ms016":
        return wf.compute_spike_features(a, fs=FS_DEFAULT, recovery_duration_ms=0.16)
    if form == "pos":
        return wf.compute_spike_features(a, fs, ms)
    if form == "rpc":
        return wf.compute_spike_features(a, fs=fs, recovery_duration_ms=ms, return_peak_channel=True)
    if form == "rpc_pos":
        return wf.compute_spike_features(a, fs, ms, True)
    if form == "rpc_false":
        return wf.compute_spike_features(a, recovery_duration_ms=ms, return_peak_channel=False, fs=fs)
    return wf.compute_spike_features(a, fs=fs, recovery_duration_ms=ms)


def _form(form, k, fs):
    """the all-defaults forms mean k = 5 at 30 kHz; anything else falls back to keywords"""
    if form in FORMS_DEFAULT and not (k == 5 and fs == FS_DEFAULT):
        return "kw"
    return form if form in FORMS_DEFAULT + FORMS_ANY else "kw"


def _features(ctx, kind, arg, k, fs=FS_DEFAULT, form="kw", src=None):
    """Call the code under test on arg (an _Arg: the caller's own array, no private copy) and return {column: ndarray},
    or ctx.CRASH. What came back is validated here; with return_peak_channel=True the traces are compared with `src`."""
    form = _form(form, k, fs)
    r = ctx.call(kind, _invoke, arg.a, k, fs, form)
    if r is ctx.CRASH:
        return r
    t = arg.touched()
    ctx.check(t is None, "C14.input_mutated", lambda: f"{kind} ({form}, {arg.a.ndim}-D): the caller's array was modified: {t}")
    real = None
    if form in FORMS_RPC:
        if not ctx.check(isinstance(r, tuple) and len(r) == 2, "C14.peak_channel",
                         lambda: f"return_peak_channel=True returned {type(r).__name__}, expected (frame, traces)"):
            return ctx.CRASH
        r, real = r
    cols = getattr(r, "columns", None)
    if not ctx.check(cols is not None and not isinstance(r, tuple), "C14.frame",
                     lambda: f"{kind} ({form}): returned {type(r).__name__}, expected a data frame"):
        return ctx.CRASH
    try:
        got = {str(c): np.array(r[c].to_numpy(), copy=True) for c in cols}
    except Exception as e:  # noqa - whatever broken code returned: a finding, not a harness error
        ctx.fail("C14.frame", f"{kind} ({form}): columns of the returned frame cannot be read: {type(e).__name__}: {e}")
        return ctx.CRASH
    if real is not None and src is not None:
        _check_peak_channel(ctx, got, real, src)
    return got


def _check_peak_channel(ctx, got, real, src):
    """return_peak_channel=True: the second output holds, for every waveform, the input trace of its peak channel"""
    src = np.asarray(src)
    if src.ndim == 2:
        src = src[np.newaxis]
    n, T, C = src.shape
    idx = got.get("peak_trace_idx")
    if not ctx.check(isinstance(real, np.ndarray) and real.shape == (n, T), "C14.peak_channel",
                     lambda: f"peak-channel traces: {type(real).__name__} of shape {getattr(real, 'shape', None)}, "
                             f"expected ndarray {(n, T)}"):
        return
    if idx is None or idx.shape != (n,) or idx.dtype.kind not in "iuf":
        return  # reported under C14.frame / C14.peak
    with np.errstate(all="ignore"):
        fidx = idx.astype(float)
        if not bool(np.all((fidx == np.floor(fidx)) & (fidx >= 0) & (fidx < C))):
            return  # reported under C14.peak
    exp = np.where(np.isnan(src), 0, src)[np.arange(n), :, idx.astype(int)]
    ok = real.dtype.kind in "iuf" and np.array_equal(real, exp)
    ctx.check(ok, "C14.peak_channel",
              lambda: f"peak-channel traces differ from the input traces of peak_trace_idx in rows "
                      f"{sorted(set(np.argwhere(real != exp)[:, 0].tolist()))[:8]}")


def _same(a, b):
    try:
        a = np.asarray(a, dtype=float)
        b = np.asarray(b, dtype=float)
    except (TypeError, ValueError):
        return False
    return a.shape == b.shape and bool(np.array_equal(a, b, equal_nan=True))


def _diff_cols(d1, d2, skip=()):
    cols = sorted((set(d1) | set(d2)) - set(skip))
    return [c for c in cols if c not in d1 or c not in d2 or not _same(d1[c], d2[c])]


def _check_fs_columns(ctx, got, fs, n):
    """Durations are index differences over fs (docstrings: seconds); slopes are value differences over those durations
    (docstrings of polarisation_slopes / recovery_slope). Compared with the indices and values of the same frame."""
    try:
        g = {c: np.asarray(v, dtype=float) for c, v in got.items()}
    except (TypeError, ValueError):
        return  # non-numeric columns are reported by the row comparison
    eps = max([np.finfo(v.dtype).eps for c, v in got.items() if c.endswith("_val") and v.dtype.kind == "f"] +
              [np.finfo(float).eps])
    with np.errstate(all="ignore"):
        for name, hi, lo in (("half_peak_duration", "half_peak_post_time_idx", "half_peak_pre_time_idx"),
                             ("peak_to_trough_duration", "trough_time_idx", "peak_time_idx")):
            if name not in g:
                continue  # peak_to_trough_duration is not in the documented list of features
            exp = (g[hi] - g[lo]) / fs
            bad = np.flatnonzero(~(np.abs(g[name] - exp) <= 1e-12 * np.abs(exp)))
            ctx.check(bad.size == 0, "C14.duration",
                      lambda: f"row {bad[0]}: {name} = {g[name][bad[0]]!r} but ({hi} - {lo}) / fs = {exp[bad[0]]!r} "
                              f"(fs={fs})")
        for name, a, b in (("depolarisation_slope", "peak", "tip"), ("repolarisation_slope", "trough", "peak"),
                           ("recovery_slope", "recovery", "trough")):
            dt = g[a + "_time_idx"] - g[b + "_time_idx"]
            va, vb = g[a + "_val"], g[b + "_val"]
            use = (dt != 0) & np.isfinite(va) & np.isfinite(vb)
            exp = (va - vb) / (dt / fs)
            tol = 16 * eps * (np.abs(va) + np.abs(vb)) * fs / np.abs(dt)
            bad = np.flatnonzero(use & ~(np.abs(g[name] - exp) <= tol))
            ctx.check(bad.size == 0, "C14.slope",
                      lambda: f"row {bad[0]}: {name} = {g[name][bad[0]]!r} but ({a}_val - {b}_val) / (({a}_time_idx - "
                              f"{b}_time_idx) / fs) = {exp[bad[0]]!r} (fs={fs})")


def _big_rows(N, m, seed):
    """Template number (0..m-1) and power-of-two exponent of each of the N rows: random everywhere, and consecutive
    different templates on the rows s-1, s, s+1 around every multiple s of 1000 and of 1024 (every power of two from
    2^10 and every power of ten from 10^3 is one of them), rotating from one seam to the next."""
    rng = np.random.default_rng([seed, 0xB16])
    ti = rng.integers(0, m, N)
    ex = rng.integers(-2, 3, N)
    seams = np.unique(np.concatenate([np.arange(1000, N, 1000), np.arange(1024, N, 1024)]))
    j = np.arange(seams.size)
    for d in (-1, 0, 1):
        pos = seams + d
        ok = pos < N
        ti[pos[ok]] = (j[ok] + d + 1) % m
    return ti, ex, seams


def _run_big(case, ctx):
    """Real-data scale: N > 2^16 waveforms. Row i is template ti[i] (one of the few parameter rows of the case, built
    and judged by the same reference as the small cases) times 2**ex[i] (exact), so the expected frame is the table
    of the template features indexed by ti - known by construction for every row, compared exactly."""
    T, C, k = case["T"], case["C"], case["k"]
    cls, N = _big_size(case)
    # the second full pass (batch without its first rows) and the third (same argument again): smaller classes only (cost)
    shift_pass, again_pass = case.get("laws", True) and N < 100000, case.get("again", True) and N < 200000
    dt = _dtype(case)
    fs = case.get("fs", FS_DEFAULT)
    k2, fs2 = case.get("k2", k), case.get("fs2", fs)
    form, form2 = _form(case.get("form", "kw"), k, fs), _form(case.get("form2", "kw"), k2, fs2)
    layout, law_layout = case.get("layout", "C"), case.get("law_layout", "C")
    tw = build_batch(case)  # (m, T, C) templates in the dtype of the case
    twz = np.where(np.isnan(tw), 0, tw)
    refs = [ref_features(twz[j].tolist(), k) for j in range(tw.shape[0])]
    usable = [j for j, r in enumerate(refs) if not r["skip"]]
    ctx.label("scale_big", "scale_class_" + cls, dt, "C1" if C == 1 else "C>1", "n>1",
              "k5" if k == 5 else "k!=5", "fs_default" if fs == FS_DEFAULT else "fs_other", "form_" + form,
              "layout_" + layout)
    for r in refs:
        if r["skip"]:
            ctx.label("skip_" + r["skip"])
    if not usable:
        return
    mu = len(usable)
    ti, ex, seams = _big_rows(N, mu, case["seed"])
    if dt in ("i32", "i32s"):
        ex = np.abs(ex)
    sc = 2.0 ** ex
    W = tw[np.asarray(usable)[ti]]
    W *= sc.astype(W.dtype)[:, None, None]  # exact: powers of two, far from the ends of the exponent range
    ur = [refs[j] for j in usable]

    def tab(key):
        return np.array([np.nan if r[key] is None else r[key] for r in ur], dtype=float)[ti]

    E = {key: tab(key) for key in ("c", "p", "tr", "tip", "post", "pre", "rec", "raw_rec")}
    E["pv"], E["tv"] = tab("pv") * sc, tab("tv") * sc
    xt = np.array([r["x"] for r in ur], dtype=float)  # (mu, T): the peak trace of every template
    swapped = np.array([r["swapped"] for r in ur])[ti]
    sp = swapped & (E["pv"] > 0)
    for name, s in BIG_SEAMS:
        if N > s:
            ctx.label("scale_" + name)
    for name, cond in (("peak_pos", E["pv"] > 0), ("peak_neg", E["pv"] < 0), ("swap_pos", sp), ("swap_neg", swapped & ~sp),
                       ("trough_last6", E["tr"] >= T - 6), ("trough==peak", E["tr"] == E["p"]),
                       ("trough==T-k", E["raw_rec"] == T), ("recovery_clipped", E["raw_rec"] > T - 1),
                       ("peak_last", E["p"] == T - 1), ("peak_at_1", E["p"] == 1),
                       ("no_post_crossing", np.isnan(E["post"])), ("no_pre_crossing", np.isnan(E["pre"]))):
        if bool(np.any(cond)):
            ctx.label(name)
    if dt not in ("i32", "i32s") and any(case["wavs"][j]["nan"] for j in usable):
        ctx.label("nan_channel")
    # seam-relevant: the rows before, on and after the seams hold different waveforms with different expected features
    feat = np.stack([E["c"], E["p"], E["tr"], E["tip"], E["pv"]], axis=1)
    s_in = seams  # all < N; the row after the seam may not exist (N = 2^16 + 1: the last row starts a block of its own)
    before = np.any(feat[s_in - 1] != feat[s_in], axis=1)
    differ = before & (np.any(feat[np.minimum(s_in + 1, N - 1)] != feat[s_in], axis=1) | (s_in == N - 1))
    ctx.stat("scale_max_waveforms", N)
    ctx.stat("scale_seams_with_different_neighbours", int(differ.sum()))
    at_big = differ[np.isin(s_in, [s for _, s in BIG_SEAMS])]
    if mu >= 2 and at_big.size and bool(at_big.all()):
        ctx.nontrivial = True

    eq_T = bool(np.any(E["raw_rec"] == T))
    arg = _Arg(W, layout)
    got = _features(ctx, KIND_FEATURES_EQ_T if eq_T else KIND_FEATURES, arg, k, fs, form, src=W)
    if got is ctx.CRASH:
        return
    missing = [c for c in REQUIRED if c not in got]
    if not ctx.check(not missing and all(got[c].shape == (N,) for c in got), "C14.frame",
                     lambda: f"missing columns {missing} or wrong number of rows (expected {N}, got "
                             f"{sorted(set(got[c].shape for c in got))})"):
        return
    try:
        g = {c: np.asarray(got[c], dtype=float) for c in REQUIRED}
    except (TypeError, ValueError) as e:
        ctx.fail("C14.frame", f"non-numeric feature column: {type(e).__name__}: {e}")
        return
    _check_fs_columns(ctx, got, fs, N)

    def where(i):
        s = int(seams[np.argmin(np.abs(seams - i))]) if seams.size else 0
        return f"row {i} of {N} (template {usable[int(ti[i])]} x 2**{int(ex[i])}; nearest multiple of 1000 / 1024: {s})"

    def chk(ok, kind, text, rows=None, route=False):
        bad = ~ok if rows is None else ~ok & rows
        if route and bool(np.any(bad & sp)):
            ctx.fail(KIND_SWAP_POS, text(int(np.flatnonzero(bad & sp)[0])))
            bad = bad & ~sp
        n_bad = int(bad.sum())
        return ctx.check(n_bad == 0, kind, lambda: f"{n_bad} row(s), first: " + text(int(np.flatnonzero(bad)[0])))

    with np.errstate(all="ignore"):
        chk((g["peak_trace_idx"] == E["c"]) & (g["peak_time_idx"] == E["p"]) & (g["peak_val"] == E["pv"]), "C14.peak",
            lambda i: f"{where(i)}: peak (trace, time, val) = ({g['peak_trace_idx'][i]}, {g['peak_time_idx'][i]}, "
                      f"{g['peak_val'][i]}) expected ({E['c'][i]}, {E['p'][i]}, {E['pv'][i]})")
        loc = (g["peak_trace_idx"] == E["c"]) & (g["peak_time_idx"] == E["p"])
        chk((g["trough_time_idx"] == E["tr"]) & (g["trough_val"] == E["tv"]), "C14.trough",
            lambda i: f"{where(i)}: trough (time, val) = ({g['trough_time_idx'][i]}, {g['trough_val'][i]}) expected "
                      f"({E['tr'][i]}, {E['tv'][i]}) peak at {E['p'][i]}", loc)
        chk((g["tip_time_idx"] < g["peak_time_idx"]) & (g["peak_time_idx"] <= g["trough_time_idx"]), "C14.order",
            lambda i: f"{where(i)}: tip {g['tip_time_idx'][i]} < peak {g['peak_time_idx'][i]} <= trough "
                      f"{g['trough_time_idx'][i]} violated", loc)
        chk(g["tip_time_idx"] == E["tip"], "C14.tip",
            lambda i: f"{where(i)}: tip at {g['tip_time_idx'][i]} expected {E['tip'][i]} (peak {E['p'][i]})", loc, route=True)
        for side in ("post", "pre"):
            col = f"half_peak_{side}_time_idx"
            chk(g[col] == E[side], "C14.half_peak",
                lambda i: f"{where(i)}: half-peak point {side} the peak at {g[col][i]} expected {E[side][i]} "
                          f"(peak {E['p'][i]} val {E['pv'][i]})", loc & ~np.isnan(E[side]), route=True)
        chk(g["recovery_time_idx"] == E["rec"], "C14.recovery",
            lambda i: f"{where(i)}: recovery index {g['recovery_time_idx'][i]} expected {E['rec'][i]} "
                      f"(trough {E['tr'][i]} + {k}, T={T})", loc)
        # every value is the input sample at the reported index of the peak trace
        for name in ("tip", "half_peak_post", "half_peak_pre", "recovery"):
            rows = loc.copy()
            if name.startswith("half"):
                rows &= ~np.isnan(E[name[10:]])
            idx = g[name + "_time_idx"]
            inr = (idx == np.floor(idx)) & (idx >= 0) & (idx < T)
            chk(inr, "C14.index_range", lambda i: f"{where(i)}: {name}_time_idx = {idx[i]} outside 0..{T - 1}", rows)
            rows &= inr
            xv = xt[ti, np.where(inr, idx, 0).astype(int)] * sc
            chk(g[name + "_val"] == xv, "C14.values",
                lambda i: f"{where(i)}: {name}_val = {g[name + '_val'][i]} but the peak trace holds {xv[i]} at index "
                          f"{int(idx[i])}", rows, route=True)

    # ---- batch independence on the rows around the seams: single-waveform calls (2-D and 3-D input alternate)
    near = [int(s) + d for s in (2 ** 16, 10 ** 5, 2 ** 17, 2 ** 18, 10 ** 6, 2 ** 20) for d in (-1, 0, 1) if s + d < N]
    pick = np.random.default_rng([case["seed"], 0xBA7C]).permutation(len(near))[:4]
    for i in sorted(near[j] for j in pick):
        one = W[i] if i % 2 == 0 else W[i:i + 1]
        g1 = _features(ctx, "C14.batch", _Arg(one, law_layout), k, fs)
        if g1 is ctx.CRASH:
            continue
        bad = _diff_cols({name: got[name][i:i + 1] for name in got}, g1)
        ctx.check(not bad, "C14.batch", lambda: f"row {i} of the batch of {N} differs from the single-waveform call "
                                                f"({one.ndim}-D input) in {bad}")

    # ---- the batch without its first s rows (every later row at another position): same rows of the frame
    if shift_pass:
        ctx.label("scale_shifted_batch")
        s = 1 + (case["split"] - 1) % 4097
        gb = _features(ctx, "C14.batch", _Arg(W[s:], law_layout), k, fs)
        if gb is not ctx.CRASH:
            bad = _diff_cols({name: v[s:] for name, v in got.items()}, gb)
            ctx.check(not bad, "C14.batch", lambda: f"batch of {N} without its first {s} rows: columns {bad} differ from "
                                                    f"rows [{s}:] of the frame of the whole batch")
        del gb

    # ---- the same argument object a second time
    if again_pass:
        ctx.label("again_" + form2, "again_same_options" if (k2, fs2) == (k, fs) else "again_other_options")
        g3 = _features(ctx, "C14.again", arg, k2, fs2, form2, src=W)
        if g3 is not ctx.CRASH:
            dep = {"recovery_time_idx", "recovery_val", "recovery_slope"} if k2 != k else set()
            bad = _diff_cols(got, g3, skip=dep)
            ctx.check(not bad, "C14.again",
                      lambda: f"second call with the same array object of {N} waveforms ({form2}, k={k2} after {form}, "
                              f"k={k}; layout {layout}): columns {bad} differ from the first call")
            if dep and "recovery_time_idx" in g3 and g3["recovery_time_idx"].shape == (N,):
                with np.errstate(all="ignore"):
                    r3 = np.asarray(g3["recovery_time_idx"], dtype=float)
                    exp = np.minimum(E["tr"] + k2, T - 1)
                    chk(r3 == exp, "C14.recovery",
                        lambda i: f"{where(i)}, second call with k={k2}: recovery index {r3[i]} expected {exp[i]} "
                                  f"(trough {E['tr'][i]} + {k2}, T={T})", loc)


def run_case(case, ctx):
    if case.get("big"):
        return _run_big(case, ctx)
    T, C, k = case["T"], case["C"], case["k"]
    dt = _dtype(case)
    fs = case.get("fs", FS_DEFAULT)
    k2, fs2 = case.get("k2", k), case.get("fs2", fs)
    form, form2 = _form(case.get("form", "kw"), k, fs), _form(case.get("form2", "kw"), k2, fs2)
    layout, law_layout = case.get("layout", "C"), case.get("law_layout", "C")
    W = build_batch(case)  # never handed to the code under test: every call gets a fresh _Arg built from it
    n = W.shape[0]
    Wz = np.where(np.isnan(W), 0, W)
    refs = [ref_features(Wz[i].tolist(), k) for i in range(n)]

    # ---- classes, non-triviality
    ctx.label(dt, "C1" if C == 1 else "C>1", "n1" if n == 1 else "n>1", "k5" if k == 5 else "k!=5",
              "fs_default" if fs == FS_DEFAULT else "fs_other", "form_" + form, "layout_" + layout,
              "law_layout_" + law_layout)
    eq_T = []
    for i, r in enumerate(refs):
        if r["skip"]:
            ctx.label("skip_" + r["skip"])
            continue
        nanch = bool(case["wavs"][i]["nan"]) and dt not in ("i32", "i32s")
        ctx.label("peak_pos" if r["pv"] > 0 else "peak_neg")
        if r["swapped"]:
            ctx.label("swap_pos" if r["pv"] > 0 else "swap_neg")
        elif r["first_peak"][1] > 0 and r["ratio_margin"] < 0.5:
            ctx.label("pos_unswapped_ratio<2")
        if r["tr"] >= T - 6:
            ctx.label("trough_last6")
        if r["tr"] == r["p"]:
            ctx.label("trough==peak")
        if r["raw_rec"] == T:
            ctx.label("trough==T-k")
            eq_T.append(i)
        if r["raw_rec"] > T - 1:
            ctx.label("recovery_clipped")
        if r["p"] == T - 1:
            ctx.label("peak_last")
        if r["p"] == 1:
            ctx.label("peak_at_1")
        if r["post"] is None:
            ctx.label("no_post_crossing")
        if r["pre"] is None:
            ctx.label("no_pre_crossing")
        if nanch:
            ctx.label("nan_channel")
        if r["tr"] >= T - 6 or r["swapped"] or nanch:
            ctx.nontrivial = True
        if r["gap_rel"] != math.inf:
            ctx.stat("min_argmax_gap_rel", r["gap_rel"])
        ctx.stat("min_half_margin_rel", r["half_margin_rel"])
        if r["ratio_margin"] != math.inf:
            ctx.stat("min_ratio_margin", r["ratio_margin"])
    if any(r["skip"] == "outside_domain" for r in refs):
        return  # cannot happen by construction; nothing to assert outside the domain of the property

    # ---- the call must succeed on the whole batch
    rows = list(range(n))
    arg = _Arg(W, layout)
    got = _features(ctx, KIND_FEATURES_EQ_T if eq_T else KIND_FEATURES, arg, k, fs, form, src=W)
    if got is ctx.CRASH:
        if not eq_T:
            return
        # known defect (or a new crash reported above): continue with the waveforms that do not trigger it
        rows = [i for i in range(n) if i not in eq_T]
        if not rows:
            return
        W = W[rows]
        refs = [refs[i] for i in rows]
        arg = _Arg(W, layout)
        got = _features(ctx, KIND_FEATURES, arg, k, fs, form, src=W)
        if got is ctx.CRASH:
            return
    n = len(rows)
    missing = [c for c in REQUIRED if c not in got]
    if not ctx.check(not missing and all(got[c].shape == (n,) for c in got), "C14.frame",
                     lambda: f"missing columns {missing} or wrong number of rows (expected {n})"):
        return
    Wz = np.where(np.isnan(W), 0, W)
    _check_fs_columns(ctx, got, fs, n)

    # ---- reference comparison, row by row
    for i, r in enumerate(refs):
        if r["skip"]:
            continue
        g = {c: got[c][i] for c in got}
        x = r["x"]
        tag = f"row {rows[i]}"
        sp = r["swapped"] and r["pv"] > 0
        kk = (lambda kind: KIND_SWAP_POS) if sp else (lambda kind: kind)
        ctx.check(g["peak_trace_idx"] == r["c"] and g["peak_time_idx"] == r["p"] and g["peak_val"] == r["pv"],
                  "C14.peak", lambda: (f"{tag}: peak (trace, time, val) = ({g['peak_trace_idx']}, {g['peak_time_idx']}, "
                                       f"{g['peak_val']}) expected ({r['c']}, {r['p']}, {r['pv']}) "
                                       f"[first extremum {r['first_peak']}, swapped={r['swapped']}]"))
        if not (g["peak_trace_idx"] == r["c"] and g["peak_time_idx"] == r["p"]):
            continue
        ctx.check(g["trough_time_idx"] == r["tr"] and g["trough_val"] == r["tv"], "C14.trough",
                  lambda: f"{tag}: trough (time, val) = ({g['trough_time_idx']}, {g['trough_val']}) expected "
                          f"({r['tr']}, {r['tv']}) peak at {r['p']}")
        ctx.check(g["tip_time_idx"] < g["peak_time_idx"] <= g["trough_time_idx"], "C14.order",
                  lambda: f"{tag}: tip {g['tip_time_idx']} < peak {g['peak_time_idx']} <= trough "
                          f"{g['trough_time_idx']} violated")
        ctx.check(g["tip_time_idx"] == r["tip"], kk("C14.tip"),
                  lambda: f"{tag}: tip at {g['tip_time_idx']} expected {r['tip']} (peak {r['p']}, val {r['pv']})")
        if r["post"] is not None:
            ctx.check(g["half_peak_post_time_idx"] == r["post"], kk("C14.half_peak"),
                      lambda: f"{tag}: half-peak point after the peak at {g['half_peak_post_time_idx']} expected "
                              f"{r['post']} (peak {r['p']} val {r['pv']})")
        if r["pre"] is not None:
            ctx.check(g["half_peak_pre_time_idx"] == r["pre"], kk("C14.half_peak"),
                      lambda: f"{tag}: half-peak point before the peak at {g['half_peak_pre_time_idx']} expected "
                              f"{r['pre']} (peak {r['p']} val {r['pv']})")
        ctx.check(g["recovery_time_idx"] == r["rec"], "C14.recovery",
                  lambda: f"{tag}: recovery index {g['recovery_time_idx']} expected {r['rec']} "
                          f"(trough {r['tr']} + {k}, T={T})")
        # every value is the input sample at the reported index of the peak trace
        for name in ("tip", "half_peak_post", "half_peak_pre", "recovery"):
            if name == "half_peak_post" and r["post"] is None or name == "half_peak_pre" and r["pre"] is None:
                continue
            idx = g[name + ("_time_idx")]
            if not (float(idx).is_integer() and 0 <= idx < T):
                ctx.fail("C14.index_range", f"{tag}: {name}_time_idx = {idx} outside 0..{T - 1}")
                continue
            v = g[name + "_val"]
            err = abs(v - x[int(idx)]) / abs(r["pv"])
            if not sp:
                ctx.stat("val_err_rel", float(err) if err == err else math.inf)
            ctx.check(v == x[int(idx)], kk("C14.values"),
                      lambda: f"{tag}: {name}_val = {v} but the peak trace holds {x[int(idx)]} at index {int(idx)}")

    if not case.get("laws", True):
        return

    # ---- scaling by c = 2**e: values scale, indices and ratios do not
    c = 2.0 ** (abs(case["scale_exp"]) if dt in ("i32", "i32s") else case["scale_exp"])
    Ws = W * W.dtype.type(c)
    gs = _features(ctx, "C14.scale", _Arg(Ws, law_layout), k, fs)
    if gs is not ctx.CRASH:
        exp = {}
        for name, v in got.items():
            scaled = name.endswith("_val") or name.endswith("_slope")
            exp[name] = v * c if scaled else v
        bad = _diff_cols(exp, gs)
        for name in VAL_COLS:
            if name in gs and name in exp and gs[name].shape == exp[name].shape:
                with np.errstate(all="ignore"):
                    e = np.nanmax(np.abs(gs[name] - exp[name]) / np.abs(exp["peak_val"]))
                ctx.stat("scale_err_rel", float(e))
        ctx.check(not bad, "C14.scale", lambda: f"scaling by {c}: columns {bad} do not follow the law "
                                                f"(values x c, everything else unchanged)")

    # ---- channel permutation only permutes peak_trace_idx
    if C > 1 and not any(r["skip"] == "tie" for r in refs):  # an exact tie between traces is resolved by position
        perm = np.random.default_rng(case["seed"] ^ 0x5EED).permutation(C)
        gp = _features(ctx, "C14.perm", _Arg(W[:, :, perm], law_layout), k, fs)
        if gp is not ctx.CRASH:
            bad = _diff_cols(got, gp, skip=("peak_trace_idx",))
            ok_idx = "peak_trace_idx" in gp and gp["peak_trace_idx"].shape == (n,) and \
                all(float(j).is_integer() and 0 <= j < C for j in gp["peak_trace_idx"]) and \
                np.array_equal(perm[gp["peak_trace_idx"].astype(int)], got["peak_trace_idx"])
            ctx.check(ok_idx and not bad, "C14.perm",
                      lambda: f"channel permutation {perm.tolist()}: peak_trace_idx mapped back "
                              f"{'ok' if ok_idx else 'WRONG'}, other columns changed: {bad}")

    # ---- batch independence
    if n > 1:
        s = 1 + case["split"] % (n - 1)
        ga = _features(ctx, "C14.batch", _Arg(W[:s], law_layout), k, fs)
        gb = _features(ctx, "C14.batch", _Arg(W[s:], law_layout), k, fs)
        if ga is not ctx.CRASH and gb is not ctx.CRASH:
            cat = {name: np.concatenate([ga[name], gb[name]]) for name in ga if name in gb}
            bad = _diff_cols(got, cat)
            ctx.check(not bad, "C14.batch", lambda: f"batch of {n} != concatenation of rows [:{s}] and [{s}:]: {bad}")
        pick = np.random.default_rng(case["seed"] ^ 0xBA7C).permutation(n)[:4]
        for i in sorted(int(j) for j in pick):
            one = W[i] if i % 2 == 0 else W[i:i + 1]
            g1 = _features(ctx, "C14.batch", _Arg(one, law_layout), k, fs)
            if g1 is ctx.CRASH:
                continue
            row = {name: got[name][i:i + 1] for name in got}
            bad = _diff_cols(row, g1)
            ctx.check(not bad, "C14.batch", lambda: f"row {rows[i]} of the batch differs from the single-waveform "
                                                    f"call ({one.ndim}-D input) in {bad}")
    else:
        g2 = _features(ctx, "C14.batch", _Arg(W[0], law_layout), k, fs)
        if g2 is not ctx.CRASH:
            bad = _diff_cols(got, g2)
            ctx.check(not bad, "C14.batch", lambda: f"2-D input differs from the 1 x T x C input in {bad}")

    # ---- the batch in another order: each waveform keeps its features whatever its position and its neighbours
    if n > 1 and case.get("bperm", False):
        ctx.label("batch_permuted")
        order = np.random.default_rng(case["seed"] ^ 0xB0D3).permutation(n)
        go = _features(ctx, "C14.batch_order", _Arg(W[order], law_layout), k, fs)
        if go is not ctx.CRASH:
            bad = _diff_cols({name: v[order] for name, v in got.items()}, go)
            ctx.check(not bad, "C14.batch_order",
                      lambda: f"batch in the order {order.tolist()}: columns {bad} are not the permuted columns of the batch")

    # ---- the same argument object a second time (other data of the same shape went through the function in between)
    if case.get("again", True):
        ctx.label("again_" + form2, "again_same_options" if (k2, fs2) == (k, fs) else "again_other_options")
        g3 = _features(ctx, "C14.again", arg, k2, fs2, form2, src=W)
        if g3 is not ctx.CRASH:
            dep = set()  # columns that follow the options
            if k2 != k:
                dep |= {"recovery_time_idx", "recovery_val", "recovery_slope"}
            if fs2 != fs:
                dep |= {"half_peak_duration", "peak_to_trough_duration"} | set(SLOPE_COLS)
            bad = _diff_cols(got, g3, skip=dep)
            ctx.check(not bad, "C14.again",
                      lambda: f"second call with the same array object ({form2}, k={k2}, fs={fs2} after {form}, k={k}, fs={fs}; "
                              f"layout {layout}): columns {bad} differ from the first call")
            if dep and ctx.check(all(c in g3 and g3[c].shape == (n,) for c in REQUIRED), "C14.frame",
                                 lambda: f"second call: missing columns or wrong number of rows (expected {n})"):
                _check_fs_columns(ctx, g3, fs2, n)
                for i, r in enumerate(refs):
                    if r["skip"] or k2 == k or not (got["peak_trace_idx"][i] == r["c"] and got["peak_time_idx"][i] == r["p"]):
                        continue
                    idx, exp = g3["recovery_time_idx"][i], min(r["tr"] + k2, T - 1)
                    ctx.check(idx == exp, "C14.recovery",
                              lambda: f"row {rows[i]}, second call with k={k2}: recovery index {idx} expected {exp} "
                                      f"(trough {r['tr']} + {k2}, T={T})")
                    if idx == exp:
                        ctx.check(g3["recovery_val"][i] == r["x"][exp], "C14.values",
                                  lambda: f"row {rows[i]}, second call with k={k2}: recovery_val = {g3['recovery_val'][i]} but "
                                          f"the peak trace holds {r['x'][exp]} at index {exp}")
