"""C18 - Spectral helpers equal their textbook definitions for every length.

Five case types, all small JSON dicts (bulk data regenerated from the seed stored in the case):

  conv   fourier.convolve against direct O(n^2) convolution ('full' and 'same'), x = impulse basis / vector / matrix
  spec   one length n, one axis of a 1-3-D array: fscale, freduce/fexpand, dft, lp/hp/bp
  optim  fourier.ns_optim_fft against the smallest 2^a 3^b >= n (independent table of Python ints + definition)
  dft2   fourier.dft2 on (subsets of) regular grids against numpy.fft.fft2 of the zero-filled image
  cos    utils.fcn_cosine on sorted samples

Every case type also draws the "dimensions every generator needs" (CHECK_AUTHOR_GUIDE): the memory layout and the dtype of
every array argument (C / Fortran / axis-swapped / strided / reversed views, read-only, float32 / float64 / integers), the
container / scalar type of the small arguments (corners as list / tuple / ndarray, lengths as Python or numpy integers), the
call form (keyword omitted = default, keyword, positional), and `rep`: the same argument objects passed to a second call
(oracle from copies made before the first call), after the caller has overwritten the first result in place (what
voltage.fk does with the frequency scale and the taper, voltage.agc with the convolution) and after a call with other
arguments of the same shape. Arguments are compared with the copies afterwards. Fields missing in old corpus cases default
to the original behaviour (C-contiguous float64, lists, one call).

About 2.5 % of the sampled cases are of real-data scale (`scale` field, labels scale_*): one trace of 2^16 .. 2^21 + 2^16 samples
(half-spectrum functions: up to 2^22 + 2^16), one sub-function per case, lengths and positions on / next to multiples of powers
of two and ten; see "real-data scale" below. They are ordinary conv / spec / cos cases with optional fields (`sparse`, `only`;
`ops`, `ck`, `ks`, `xk`, `xpos`, `filt`; `i0`, `i1`) that select one section of the runner and an O(n) / one-FFT oracle.
"""
import bisect
import math

import numpy as np
from hypothesis import strategies as st

from vp import sut
from vp.gens import weighted

ID = "C18"
LEVEL = "exploration"
RULE = ("Case types: conv (nsx, nsw, x = identity/impulse basis | vector | matrix x vector | matrix x matrix, contents "
        "normal/offset/spikes/integers/ones, float64 or float32), spec (length n, 1-3-D array, every axis position, "
        "positive/negative/None axis argument, sampling interval, four filter corners), optim (arguments of "
        "ns_optim_fft), dft2 (nk x nl grid, full or random subset, permuted points, real/complex), cos (bounds, sorted "
        "samples). Enumerated exhaustively: every (nsx, nsw) of the box (quick: nsx+nsw <= 120, every pair of 1..300^2 "
        "whose true padded size is a power of three, every pair with nsx+nsw-1 or nsx+nsw of the form 2^a3^b, nsx or "
        "nsw <= 2; thorough: all 90 000 pairs of 1..300^2), each with the impulse basis and a random vector; every n "
        "in 1..300 x ndim x axis x sign of the axis argument plus the impulse basis for the filters; every argument "
        "1..5000 (thorough 1..200000) and s-1, s, s+1 around every 2^a3^b <= 2^24 for ns_optim_fft; every grid "
        "nk, nl <= 12 (thorough 20). Hypothesis adds sampled larger lengths (convolution up to sums of 3^9/3^10, "
        "n up to 1e5). Oracles: numpy.convolve (direct sum) or the shifted kernel itself for the impulse basis, "
        "'same' = full[(nsw-1)//2 : (nsw-1)//2 + nsx]; k/(n si) with positive Nyquist; Hermitian spectra built by "
        "explicit index n-k (bit-exact round trip) and fft(x) (tolerance); numpy rfft/fft/fft2; brute-force 2^a3^b; "
        "lp+hp == x, bp == hp(lp) == lp(hp), frequency response of lp == 1 - cosine taper at the DFT bin frequencies; "
        "taper 0 below, 1 above, non-decreasing, equal to (1-cos(pi t))/2. Non-trivial = conv case whose true padded "
        "size is odd or whose kernel is longer than the signal; spec/dft2 case with a prime length; optim case whose "
        "answer is a power of three. Distinct = distinct case hash (enumerated cases are distinct by construction). "
        "Dimensions drawn in every case type (enumerated cases cycle through them deterministically): memory layout of each "
        "array argument (lay/layw/rc: C, Fortran, axis-swapped, strided and reversed views; ro: read-only), dtype (conv: "
        "float64/float32/int16/int32/uint16 for signal and kernel independently; spec: float64/float32/int16 signal, "
        "complex128/complex64/real half spectra; dft2: float64/float32; cos: float64/float32/int64/int32/uint16 samples), "
        "containers and scalars (corners and bounds as list/tuple/ndarray/read-only ndarray, lengths as int/np.int64/np.int32, "
        "sampling interval as float/np.float64/int, ns_optim_fft arguments as int/np.int64/np.int32/np.uint32/float/"
        "np.float64/non-integer float), call form (option omitted, keyword, positional; _freq_filter and _freq_vector "
        "with every spelling of typ and its default), and rep = 0/1/2: second call with the same argument objects (1), "
        "additionally after the first results were overwritten in place by the caller and after a call with other "
        "arguments of the same shape (2). Arguments must compare equal to copies made before the first call. "
        "Real-data scale (1 in 41 sampled cases, labels scale_*): one long trace, one sub-function per case; lengths 2^16 .. "
        "2^21 + 2^16 (fscale / freduce / fexpand: .. 2^22 + 2^16, so that n//2+1 bins cross the same seams) = 2^k, 3 2^19, 10^5, "
        "5 10^5, 10^6, 1.5 10^6, 2 10^6 (+ -2 .. +3), +-3000 around them, primes / twice primes next to them, log-uniform, "
        "uniform; positions (taps of the sparse operand, impulses of the filtered trace, requested DFT coefficients, filter "
        "corners as DFT bins, first / last sample of the cosine taper) on and within 2 of multiples of 2^10 .. 2^20 and 10^3 .. "
        "10^6, at the ends and the middle, uniform. conv: signal (or kernel, or both) long, one operand = 1-6 integer taps "
        "(oracle by construction: sum of shifted copies of the dense operand) or kernel <= 48 taps (numpy.convolve), one mode "
        "per case; spec: exactly one of fscale + _freq_vector (every bin against k/(n si) and the taper), freduce / fexpand "
        "(bit-exact on a constructed Hermitian spectrum), dft (1-3 coefficients against numpy fft), lp | hp | bp against "
        "irfft(rfft(x) x taper response at k/(n si)) - the textbook filter by numpy's real FFT - or lp + hp == x; cos: n sorted "
        "samples built so that samples i0 / i1 are the bounds exactly. Same tolerances as the small cases (filter reference: "
        "RESP_TOL carried to the time domain by Parseval + FILT_TOL_EPS eps, relative to |x|_2). Lengths whose FFT is slow "
        "(sum of prime factors > 120) are, for filt / dft beyond 2^19 + 2^16, halved (1 in 4) or moved to the next 7-smooth "
        "length. Non-trivial (scale): longer than 2^16 samples.")
EXHAUSTIVE_NOTE = ("finite boxes enumerated completely: (nsx, nsw) pairs as listed in the rule (thorough: all of 1..300^2) x "
                   "{impulse basis, random vector} x {full, same}; n = 1..300 x ndim 1..3 x axis x axis-sign; "
                   "ns_optim_fft on 1..5000 (thorough 1..200000) and around every 2^a3^b <= 2^24; dft2 grids <= 12x12 "
                   "(thorough 20x20). Larger lengths and contents are sampled.")
ASSUMPTIONS = [
    "convolve 'same' is the centred slice of 'full' with the length of the first argument (scipy.signal semantics; "
    "identical to numpy.convolve whenever the kernel is not longer than the signal)",
    "convolve 'full' may carry one extra trailing sample (the implementation returns nsx+nsw samples); it must be ~0",
    "lp/hp/bp are exercised with non-negative (or default) axis arguments on 1-2-D arrays and axes >= 1 of 3-D arrays "
    "only: negative axes and axis 0 of a 3-D array do not broadcast in _freq_filter and are outside the documented use",
    "ns_optim_fft is exercised with scalar arguments 1..2^24",
    "filter corners are at least 1 % of Nyquist apart, cosine bounds at least 1e-3 apart (the taper is otherwise "
    "ill-conditioned with respect to one-ulp differences in the frequency scale)",
    "dft on arrays longer than 512 samples is compared on a subset of coefficients passed through kscale",
    "no function of the property modifies its array arguments (the unchanged tree does not; the repository's tests and "
    "callers - agc, fk, smooth.lp, dephas, fit_phase - pass the same arrays on afterwards), and the arrays returned by "
    "fscale, fcn_cosine()(x) and convolve are fresh and writeable: voltage.fk overwrites kscale[0] and multiplies the taper "
    "in place, voltage.agc adds to the convolution in place - a later call with the same arguments must not see that",
    "input kinds the unchanged tree rejects are outside the domain: Python lists as signals (x.shape / x.ndim), unsigned "
    "or float lengths for fscale, complex signals for convolve, lists as xscale/kscale/r/c, unsigned samples for "
    "fcn_cosine with a negative lower bound (numpy refuses the subtraction)",
    "float32 signals are held to float32 tolerances (numpy's FFT keeps single precision), integer signals to float64",
    "real-data scale cases: lp / hp / bp of a long trace equal numpy.fft.irfft(numpy.fft.rfft(x) * R) with R the (1 -) cosine "
    "taper (product of the two for bp) evaluated at the bin frequencies k / (n si) - the same statement as the frequency-"
    "response test of the impulse basis, for one trace; max|y - ref| <= (RESP_TOL + 64 eps) |x|_2",
]
BUDGET = {"quick": 10000, "thorough": 240000}
SHRINK = {"quick": True, "thorough": True}

EPS = {"f8": float(np.finfo(np.float64).eps), "f4": float(np.finfo(np.float32).eps)}
# ---- tolerances (all relative to a norm-wise scale that a backward-stable FFT method is entitled to; measured
# margins are reported through ctx.stat as multiples of eps, the thresholds below are the same multiples)
CONV_TOL_EPS = 64.0       # |fftconv - direct| <= 64 eps * min(|x|_1 |w|_2, |x|_2 |w|_1)  per row
FSCALE_RTOL = 1e-14       # k/n/si against k/(n*si): two roundings
ROUNDTRIP_TOL_EPS = 64.0  # |fexpand(freduce(fft x)) - fft x| <= 64 eps * |fft x|_2 per lane: numpy's fft of a real signal is
#                           Hermitian only up to its own rounding (the bit-exact test uses constructed Hermitian spectra)
DFT_TOL_EPS = 64.0        # |dft - fft| <= 64 eps * n * sum|x|  (phase 2 pi k x / n carries a relative error of a few eps)
FILT_TOL_EPS = 64.0       # |lp + hp - x|, |bp - hp(lp)| <= 64 eps * |x|_2 per lane
RESP_TOL = 1e-11          # frequency response of lp against the analytic taper (corners >= 1 % of Nyquist apart)
COS_TOL = 1e-12           # fcn_cosine against (1 - cos(pi t)) / 2
COS_MONO_TOL = 4e-16      # libm cos is not guaranteed monotone to the last bit

P3_15 = 3 ** 15


# ------------------------------------------------------------------------------------------------
# independent oracle for the fast size

def _smooth_table(limit):
    out = []
    p2 = 1
    while p2 <= limit:
        v = p2
        while v <= limit:
            out.append(v)
            v *= 3
        p2 *= 2
    return sorted(out)


_TABLE = _smooth_table(2 ** 27)


def next_smooth(n):
    """smallest 2^a 3^b >= n (n <= 2^27)"""
    return _TABLE[bisect.bisect_left(_TABLE, n)]


def _is_23(m):
    while m % 2 == 0:
        m //= 2
    while m % 3 == 0:
        m //= 3
    return m == 1


def _is_prime(n):
    if n < 2:
        return False
    if n % 2 == 0:
        return n == 2
    i = 3
    while i * i <= n:
        if n % i == 0:
            return False
        i += 2
    return True


def _is_pow(n, b):
    while n % b == 0 and n > 1:
        n //= b
    return n == 1


# ------------------------------------------------------------------------------------------------
# contents

def _content(rng, shape, kind):
    if kind == "normal":
        return rng.standard_normal(shape)
    if kind == "offset":
        return 1000.0 + rng.standard_normal(shape)
    if kind == "spikes":
        a = np.zeros(shape)
        m = rng.random(shape) < 0.08
        a[m] = rng.standard_normal(int(m.sum())) * 50
        flat = a.reshape(-1)
        if not np.any(flat):
            flat[int(rng.integers(0, flat.size))] = 1.0
        return a
    if kind == "ints":
        return rng.integers(-512, 512, size=shape).astype(float)
    if kind == "ones":
        return np.ones(shape)
    raise ValueError(kind)


CONTENTS = ["normal", "normal", "normal", "offset", "spikes", "ints", "ones"]


# ------------------------------------------------------------------------------------------------
# representations of one value: memory layout, dtype, container, scalar type

LAYOUTS = ["C", "F", "swap", "strided", "neg"]
BOXES = ["list", "arr", "tuple", "arr_ro"]
SI_KINDS = ["float", "npf", "int"]     # int only takes effect when the sampling interval is an integer (1, 7)
TYPS = ["", "lp", "hp", "lowpass", "highpass", "LP", "HighPass"]   # "" = typ omitted (default low-pass)
OPTIM_KINDS = ["int", "i8", "i4", "u4", "float", "npf", "below", "above"]
NPDT = {"f8": np.float64, "f4": np.float32, "i2": np.int16, "i4": np.int32, "i8": np.int64, "u2": np.uint16,
        "c16": np.complex128, "c8": np.complex64}


def _lay(a, kind="C", ro=False):
    """A new array with the values and dtype of `a` in another memory layout (never shares memory with `a`):
    C, F (Fortran order), swap (first and last axis exchanged in memory), strided (every other element of a wider
    buffer whose gaps hold NaN / a sentinel), neg (negative stride along the last axis); 1-D arrays have no F / swap
    layout and get the strided one instead. ro: flagged read-only (what np.memmap(mode='r') hands out)."""
    a = np.array(a, order="C", copy=True)
    if a.ndim == 0 or a.shape[-1] == 0:
        out = a
    elif kind == "F" and a.ndim >= 2:
        out = np.asfortranarray(a)
    elif kind == "swap" and a.ndim >= 2:
        out = np.swapaxes(np.ascontiguousarray(np.swapaxes(a, 0, -1)), 0, -1)
    elif kind in ("strided", "F", "swap"):
        fill = np.nan if a.dtype.kind in "fc" else 121
        base = np.full(a.shape[:-1] + (2 * a.shape[-1] + 1,), fill, dtype=a.dtype)
        out = base[..., 1::2]
        out[...] = a
    elif kind == "neg":
        out = np.ascontiguousarray(a[..., ::-1])[..., ::-1]
    else:
        out = a
    if ro:
        out.flags.writeable = False
    return out


def _to_dtype(a, dt):
    """float content as dtype dt: integers are truncated (unsigned: magnitude), so that the value is exact in every dtype"""
    a = np.asarray(a)
    k = np.dtype(NPDT[dt]).kind
    if k in "iu":
        a = np.trunc(a)
        if k == "u":
            a = np.abs(a)
    return a.astype(NPDT[dt])


def _same(arg, copy):
    """the argument still holds what it held before the call(s)"""
    try:
        a = np.asarray(arg)
        return a.shape == np.shape(copy) and bool(np.array_equal(a, copy))
    except Exception:  # noqa - whatever the code under test turned the container into
        return False


def _numeric(r, shape):
    """what the code under test returned can be compared with a reference of this shape"""
    try:
        a = np.asarray(r)
        return a.shape == tuple(shape) and a.dtype.kind in "fciu"
    except Exception:  # noqa
        return False


def _scribble(r):
    """what a caller may do with a result it owns (fk: kscale[0] = 1e-6, taper *= ...; agc: gain += ...)"""
    if isinstance(r, np.ndarray) and r.flags.writeable and r.size:
        try:
            r[...] = np.nan if r.dtype.kind in "fc" else 7
        except Exception:  # noqa - whatever dtype the code under test came up with: nothing to overwrite then
            pass


def _int_kind(n, kind):
    return {"int": int, "i8": np.int64, "i4": np.int32, "u4": np.uint32}[kind](n)


def _box(vals, kind):
    """corner frequencies / bounds as the containers the callers use: list (fk, tests), ndarray (smooth.lp), tuple"""
    if kind == "arr":
        return np.array(vals)
    if kind == "arr_ro":
        a = np.array(vals)
        a.flags.writeable = False
        return a
    if kind == "tuple":
        return tuple(vals)
    return list(vals)


# ------------------------------------------------------------------------------------------------
# enumeration

def _pair_selected(nsx, nsw, mode):
    if mode == "all":
        return True
    s = nsx + nsw
    if s <= 120 or nsx <= 2 or nsw <= 2:
        return True
    if next_smooth(s) % 2 == 1:
        return True
    return _is_23(s) or _is_23(s - 1)


def enum_shards(tier):
    nconv = 24 if tier == "quick" else 64
    out = [{"k": "conv", "mode": "sel" if tier == "quick" else "all", "shard": i, "n": nconv} for i in range(nconv)]
    out += [{"k": "spec", "ns": list(range(1 + i, 301, 8))} for i in range(8)]
    hi = 5000 if tier == "quick" else 200000
    step = 2500 if tier == "quick" else 12500
    out += [{"k": "optim_range", "lo": lo, "hi": min(lo + step - 1, hi)} for lo in range(1, hi + 1, step)]
    out += [{"k": "optim_bounds"}]
    out += [{"k": "dft2", "nmax": 12 if tier == "quick" else 20}]
    return out


def enum_cases(desc):
    k = desc["k"]
    if k == "conv":
        i = 0
        # anti-diagonal order so that every shard gets the same mix of cheap and expensive pairs
        for s in range(2, 601):
            for nsx in range(max(1, s - 300), min(300, s - 1) + 1):
                nsw = s - nsx
                if not _pair_selected(nsx, nsw, desc["mode"]):
                    continue
                i += 1
                if i % desc["n"] != desc["shard"]:
                    continue
                seed = nsx * 1000 + nsw
                # the dimensions cycle with the pair (values and float64 tolerance as before; layout, call form, re-use vary)
                q = 3 * nsx + 5 * nsw
                yield {"t": "conv", "nsx": nsx, "nsw": nsw, "xk": "eye", "nr": 0, "content": "normal", "dtype": "f8",
                       "seed": seed, "wdt": "", "lay": LAYOUTS[q % 5], "layw": LAYOUTS[(q // 5) % 5], "ro": q % 4 == 1,
                       "form": q % 3, "rep": {0: 1, 8: 2}.get(q % 16, 0)}
                q += 7
                yield {"t": "conv", "nsx": nsx, "nsw": nsw, "xk": "vec", "nr": 0, "content": "normal", "dtype": "f8",
                       "seed": seed + 500000, "wdt": "", "lay": LAYOUTS[q % 5], "layw": LAYOUTS[(q // 5) % 5],
                       "ro": q % 4 == 1, "form": q % 3, "rep": {0: 1, 8: 2}.get(q % 16, 0)}
    elif k == "spec":
        for n in desc["ns"]:
            for ndim in (1, 2, 3):
                for pos in range(ndim):
                    for neg in (False, True):
                        other = [2, 3][: ndim - 1]
                        q = n + 3 * ndim + pos
                        # float32 / int16 signals where the filters are not exercised anyway (negative axis), plus one
                        # filtered axis combination in five for float32: the float64 tolerance keeps every n
                        dt = ("f4" if ndim == 2 else "i2" if ndim == 3 else "f8") if neg else (
                            "f4" if ndim == 3 and pos == 1 and n % 5 == 0 else "f8")
                        yield {"t": "spec", "n": n, "other": other, "pos": pos, "neg": neg, "none": False,
                               "si": [1.0, 1 / 30000, 0.002][n % 3], "corners": [100, 200 + n % 300, 350 + n, 900 + n % 250],
                               "cplx": bool(n % 2), "basis": False, "seed": n * 16 + ndim * 4 + pos * 2 + int(neg),
                               "lay": LAYOUTS[q % 5], "ro": q % 4 == 1, "dt": dt,
                               "spk": "f8" if (neg and ndim == 1) else "c8" if (ndim == 2 and pos == 0 and not neg) else "c16",
                               "bk": BOXES[(n + pos) % 4], "sik": SI_KINDS[n % 3], "nk": ["int", "i8", "i4"][(n + ndim) % 3],
                               "rep": {0: 1, 4: 2}.get(q % 8, 0), "omit": False, "ff": (n + pos) % 6 == 0,
                               "typ": TYPS[(n + ndim) % len(TYPS)]}
            for pos in (0, 1):
                yield {"t": "spec", "n": n, "other": [n], "pos": pos, "neg": False, "none": pos == 1 and n % 2 == 0,
                       "si": [1.0, 1 / 2500][n % 2], "corners": [(7 * n) % 500, (7 * n) % 500 + 10 + n % 400,
                                                                 300 + n % 100, 320 + n],
                       "cplx": False, "basis": True, "seed": n,
                       "lay": LAYOUTS[(n + pos) % 5], "ro": n % 4 == 2, "dt": "f8", "spk": "c16", "bk": BOXES[(n + pos + 1) % 4],
                       "sik": SI_KINDS[(n + 1) % 3], "nk": ["int", "i8", "i4"][n % 3], "rep": {0: 1, 4: 2}.get((n + pos) % 8, 0),
                       "omit": n % 4 == 0, "ff": n % 7 == 0, "typ": TYPS[n % len(TYPS)]}
    elif k == "optim_range":
        step = 250
        for lo in range(desc["lo"], desc["hi"] + 1, step):
            yield {"t": "optim", "lo": lo, "hi": min(lo + step - 1, desc["hi"]), "args": []}
    elif k == "optim_bounds":
        args = []
        for s in _TABLE:
            if s > 2 ** 24:
                break
            args.extend(a for a in (s - 1, s, s + 1) if 1 <= a <= 2 ** 24)
        args = sorted(set(args))
        for i in range(0, len(args), 40):
            yield {"t": "optim", "lo": 0, "hi": -1, "args": args[i:i + 40], "ak": "all"}
    elif k == "dft2":
        for nk in range(1, desc["nmax"] + 1):
            for nl in range(1, desc["nmax"] + 1):
                q = 2 * nk + nl
                yield {"t": "dft2", "nk": nk, "nl": nl, "nt": 1 + (nk + nl) % 3, "keep": 1000, "perm": False,
                       "vector": False, "cplx": False, "seed": nk * 100 + nl,
                       "lay": LAYOUTS[q % 5], "rc": ["C", "strided", "neg"][q % 3], "ro": q % 4 == 1, "dt": "f8",
                       "nkk": ["int", "i8", "i4"][nk % 3], "rep": q % 3}
                q += 3
                yield {"t": "dft2", "nk": nk, "nl": nl, "nt": 2, "keep": 600, "perm": True, "vector": False,
                       "cplx": bool((nk + nl) % 2), "seed": nk * 100 + nl + 7,
                       "lay": LAYOUTS[q % 5], "rc": ["C", "strided", "neg"][q % 3], "ro": q % 4 == 1,
                       "dt": "f4" if nl % 4 == 0 else "f8", "nkk": ["int", "i8", "i4"][nl % 3], "rep": q % 3}


# ------------------------------------------------------------------------------------------------
# Hypothesis strategies

_SEED = st.integers(0, 2 ** 32 - 1)
_LAY = st.sampled_from(["C", "C"] + LAYOUTS)
_REP = st.sampled_from([0, 0, 0, 0, 1, 2])
_DIMS = st.fixed_dictionaries({"lay": _LAY, "ro": st.sampled_from([False, False, False, True]), "rep": _REP})
_NK = st.sampled_from(["int", "int", "i8", "i4"])
_SI = st.sampled_from([1.0, 1 / 30000, 1 / 2500, 0.002, 3.3e-5, 7.0])
_PRIMES = [p for p in range(2, 2000) if _is_prime(p)] + [4099, 10007, 30011, 65537, 99991]
_SMOOTH_SMALL = [s for s in _TABLE if 2 <= s <= 40000]


@st.composite
def _conv(draw, tier):
    cls = draw(st.sampled_from(["small", "small", "tiny", "oddpad", "oddpad", "large", "klong", "smoothsum"]))
    if cls == "small":
        nsx, nsw = draw(st.integers(1, 300)), draw(st.integers(1, 300))
    elif cls == "tiny":
        nsx, nsw = draw(st.integers(1, 8)), draw(st.integers(1, 8))
    elif cls in ("oddpad", "smoothsum"):
        if cls == "oddpad":
            k = draw(st.integers(1, 9 if tier == "quick" else 10))
            p = 3 ** k
            lo = _TABLE[bisect.bisect_left(_TABLE, p) - 1] + 1
            s = draw(st.integers(max(lo, 2), p))
        else:
            s = draw(st.sampled_from(_SMOOTH_SMALL)) + draw(st.integers(0, 1))
        small = draw(st.integers(1, min(1500, s - 1)))
        nsx, nsw = (s - small, small) if draw(st.booleans()) else (small, s - small)
    elif cls == "large":
        nsx, nsw = draw(st.integers(301, 30000)), draw(st.integers(1, 1500))
        if draw(st.integers(0, 3)) == 0:
            nsx, nsw = nsw, nsx
    else:
        nsx = draw(st.integers(1, 100))
        nsw = draw(st.integers(nsx + 1, 400))
    kinds = ["vec", "vec", "mat", "matmat"] + (["eye"] if nsx <= 300 else [])
    xk = draw(st.sampled_from(kinds))
    nr = draw(st.integers(1, 5)) if xk in ("mat", "matmat") else 0
    return {"t": "conv", "nsx": nsx, "nsw": nsw, "xk": xk, "nr": nr, "content": draw(st.sampled_from(CONTENTS)),
            "dtype": draw(st.sampled_from(["f8", "f8", "f8", "f8", "f4", "f4", "i2", "i4", "u2"])),
            # dtype of the kernel: "" = that of the signal (agc convolves float32 / integer magnitudes with a float64 window)
            "wdt": draw(st.sampled_from(["", "", "", "f8", "f4", "i2"])), "seed": draw(_SEED), **draw(_DIMS),
            "layw": draw(_LAY), "form": draw(st.integers(0, 2))}


@st.composite
def _spec(draw, tier):
    cls = draw(st.sampled_from(["small", "small", "prime", "pow2", "pow3", "big"]))
    if cls == "small":
        n = draw(st.integers(1, 300))
    elif cls == "prime":
        n = draw(st.sampled_from(_PRIMES))
    elif cls == "pow2":
        n = 2 ** draw(st.integers(0, 16))
    elif cls == "pow3":
        n = 3 ** draw(st.integers(0, 10))
    else:
        n = draw(st.integers(301, 100000))
    ndim = draw(st.integers(1, 3))
    dmax = 4 if n <= 20000 else 2
    other = [draw(st.integers(1, dmax)) for _ in range(ndim - 1)]
    pos = draw(st.integers(0, ndim - 1))
    i0 = draw(st.integers(0, 1150))
    i1 = draw(st.integers(i0 + 10, 1250))
    i2 = draw(st.integers(0, 1150))
    i3 = draw(st.integers(i2 + 10, 1250))
    return {"t": "spec", "n": n, "other": other, "pos": pos, "neg": draw(st.booleans()),
            "none": draw(st.booleans()) if pos == ndim - 1 else False, "si": draw(_SI), "corners": [i0, i1, i2, i3],
            "cplx": draw(st.booleans()), "basis": False, "seed": draw(_SEED), **draw(_DIMS),
            "dt": draw(st.sampled_from(["f8", "f8", "f8", "f4", "i2"])),
            "spk": draw(st.sampled_from(["c16", "c16", "c8", "f8", "f4"])),
            "bk": draw(st.sampled_from(BOXES)), "sik": draw(st.sampled_from(SI_KINDS)), "nk": draw(_NK),
            "omit": draw(st.booleans()), "ff": draw(st.integers(0, 3)) == 0, "typ": draw(st.sampled_from(TYPS))}


@st.composite
def _optim(draw, tier):
    def one():
        c = draw(st.integers(0, 3))
        if c == 0:
            return draw(st.integers(1, 2 ** 24))
        if c == 1:
            return min(2 ** 24, int(2 ** draw(st.floats(0, 24))))
        s = draw(st.sampled_from(_TABLE[: bisect.bisect_right(_TABLE, 2 ** 24)]))
        return max(1, min(2 ** 24, s + draw(st.integers(-3, 3))))
    return {"t": "optim", "lo": 0, "hi": -1, "args": [one() for _ in range(draw(st.integers(1, 24)))],
            "ak": draw(st.sampled_from(OPTIM_KINDS + ["all"]))}


@st.composite
def _dft2(draw, tier):
    nk, nl = draw(st.integers(1, 24)), draw(st.integers(1, 24))
    vector = draw(st.integers(0, 5)) == 0
    return {"t": "dft2", "nk": nk, "nl": nl, "nt": 1 if vector else draw(st.integers(1, 5)),
            "keep": draw(st.sampled_from([1000, 1000, 800, 500, 200, 50])), "perm": draw(st.booleans()),
            "vector": vector, "cplx": draw(st.booleans()), "seed": draw(_SEED), **draw(_DIMS),
            "rc": draw(st.sampled_from(["C", "C", "strided", "neg"])), "dt": draw(st.sampled_from(["f8", "f8", "f4"])),
            "nkk": draw(_NK)}


@st.composite
def _cos(draw, tier):
    integer = draw(st.integers(0, 3)) == 0
    if integer:
        b0 = draw(st.integers(-1000, 1000))
        b1 = b0 + draw(st.integers(1, 2000))
    else:
        b0 = draw(st.integers(-10 ** 7, 10 ** 7)) / 1000
        b1 = b0 + draw(st.integers(1, 10 ** 7)) / 1000
    return {"t": "cos", "b0": b0, "b1": b1, "int": integer, "npts": draw(st.integers(1, 400)),
            "arr": draw(st.booleans()), "two_d": draw(st.booleans()), "seed": draw(_SEED), **draw(_DIMS),
            # dtype of the samples: "" = float64 / int64 as generated; f4, i4, u2 only take effect on integer bounds (u2: b0 >= 0)
            "xdt": draw(st.sampled_from(["", "", "f4", "i4", "u2", "u2"])),
            "bk": draw(st.sampled_from(["", "", "tuple", "arr_ro"])),
            "form": draw(st.integers(0, 2))}


# ---- real-data scale (CHECK_AUTHOR_GUIDE item 7): one long trace per case, one sub-function per case --------------
#
# Lengths of 2^16 .. 2^21 (+ 2^16) samples: powers of two, 10^5 / 10^6 / 2 10^6 and their neighbours, primes and twice
# primes next to them, random lengths. Positions of what matters (taps of the sparse operand of a convolution, impulses of the
# filtered trace, requested DFT coefficients, the first and last bin / sample of a cosine taper) on and next to multiples of
# 2^10 .. 2^20 and 10^3 .. 10^6, at both ends, and at random. Every oracle is O(n) or one numpy FFT.

SCALE_MIN = 2 ** 16
SCALE_MAX = 2 ** 21 + 2 ** 16
_SCALE_BASES = [2 ** 16, 2 ** 17, 2 ** 18, 2 ** 19, 2 ** 20, 2 ** 20, 2 ** 20, 2 ** 20, 2 ** 21, 2 ** 21, 3 * 2 ** 19, 3 * 2 ** 19,
                10 ** 5, 5 * 10 ** 5, 10 ** 6, 10 ** 6, 10 ** 6, 10 ** 6, 2 * 10 ** 6, 2 * 10 ** 6, 15 * 10 ** 5]
# lengths for the functions that work on half spectra (fscale, freduce, fexpand): n // 2 + 1 bins cross the same seams
_SCALE_BASES_HALF = [2 ** 17, 2 ** 19, 2 ** 20, 2 ** 20, 10 ** 6, 10 ** 6, 2 ** 21, 2 ** 21, 2 ** 21, 2 ** 21, 2 * 10 ** 6,
                     2 * 10 ** 6, 2 * 10 ** 6, 2 * 10 ** 6, 2 ** 22, 2 ** 22, 4 * 10 ** 6, 3 * 2 ** 20, 3 * 10 ** 6]
SCALE_MAX_HALF = 2 ** 22 + 2 ** 16
_SCALE_SEAMS = [2 ** 10, 2 ** 12, 2 ** 14, 2 ** 16, 2 ** 17, 2 ** 18, 2 ** 19, 2 ** 20, 2 ** 20,
                10 ** 3, 10 ** 4, 10 ** 5, 10 ** 6, 10 ** 6]
_R64 = st.sampled_from(range(64))


def _fft_cost(n):
    """sum of the prime factors of n (with multiplicity): numpy's FFT of length n costs about n times this"""
    tot, p = 0, 2
    while p * p <= n:
        while n % p == 0:
            n //= p
            tot += p
        p += 1
    return tot + (n if n > 1 else 0)


def _smooth7_table(limit):
    out = []
    for p2 in (2 ** a for a in range(limit.bit_length())):
        p3 = p2
        while p3 <= limit:
            p5 = p3
            while p5 <= limit:
                p7 = p5
                while p7 <= limit:
                    out.append(p7)
                    p7 *= 7
                p5 *= 5
            p3 *= 3
    return sorted(out)


_SMOOTH7 = _smooth7_table(2 ** 23)


def _prime_near(n, up):
    n = max(n, 3)
    while not _is_prime(n):
        n += 1 if up else -1
    return n


def _pick(draw, seq):
    """uniform choice from a short sequence. Measured with this harness (625 examples per shard): st.integers(0, 9) returns 0
    in 30-55 % of the draws and st.integers / st.sampled_from over a range of 10^6 values return the smallest 3 % of the
    range in 30-75 % of the draws (Hypothesis favours 'simple' values), sampled_from over <= 64 values is flat."""
    return draw(st.sampled_from(seq))


def _uniform(draw, lo, hi):
    """an integer of lo .. hi, flat over the range: three base-64 digits and a remainder drawn from short ranges"""
    span = hi - lo + 1
    if span <= 64:
        return lo + draw(st.sampled_from(range(span)))
    u = (draw(_R64) * 64 + draw(_R64)) * 64 + draw(_R64)
    cell = -(-span // 64 ** 3)
    return min(hi, lo + u * span // 64 ** 3 + (draw(st.sampled_from(range(min(cell, 64)))) if cell > 1 else 0))


@st.composite
def _scale_len(draw, lo=SCALE_MIN, hi=SCALE_MAX):
    c = _pick(draw, ["seam", "seam", "seam", "seam", "near", "near", "prime", "log", "any", "any"])
    base = _pick(draw, _SCALE_BASES_HALF if hi == SCALE_MAX_HALF else _SCALE_BASES)
    if c == "seam":
        n = base + _pick(draw, [-2, -1, 0, 0, 1, 1, 2, 3])   # one to three samples beyond the seam: the short last block
    elif c == "near":
        n = base + _uniform(draw, -3000, 3000)
    elif c == "prime":
        p = _prime_near(base if draw(st.booleans()) else base // 2, draw(st.booleans()))
        n = p if 2 * p > hi or draw(st.booleans()) else 2 * p
    elif c == "log":
        n = int(2 ** (16 + _uniform(draw, 0, 6000 if hi == SCALE_MAX_HALF else 5000) / 1000))
    else:
        n = _uniform(draw, lo, hi)
    return max(lo, min(hi, n))


@st.composite
def _scale_pos(draw, n, reach=0):
    """a position 0 <= p < n: on / next to a multiple of a power of two or ten, at the ends, or anywhere. reach: length of what
    is attached to the position (the kernel laid down at a tap of the signal): the position is then also placed so that this
    stretch ends on / straddles the multiple"""
    c = _pick(draw, ["seam"] * 6 + ["end"] + ["any"] * 3)
    if c == "seam":
        s = _pick(draw, [v for v in _SCALE_SEAMS if v <= n] or [1])
        p = s * _uniform(draw, 1, max(1, n // s)) + _pick(draw, [-2, -1, -1, 0, 0, 1, 1, 2])
        if reach > 2 and _pick(draw, [True, False]):
            p -= _pick(draw, [reach - 1, reach, reach + 1, reach // 2, _uniform(draw, 0, reach)])
    elif c == "end":
        p = _pick(draw, [0, 1, n - 2, n - 1, n // 2, n // 2 - 1, n // 2 + 1])
    else:
        p = _uniform(draw, 0, n - 1)
    return max(0, min(n - 1, p))


@st.composite
def _scale_conv(draw, tier):
    op = _pick(draw, ["sparse_w", "sparse_w", "sparse_w", "sparse_x", "sparse_x", "short", "short"])
    total = draw(_scale_len())          # nsx + nsw (the padded size follows from the sum)
    if op == "short":
        nsw = _uniform(draw, 1, 48)
    else:
        k = _pick(draw, ["short", "short", "mid", "long", "half"])
        if k == "short":
            nsw = _uniform(draw, 1, 300)
        elif k == "mid":
            nsw = _uniform(draw, 301, 70000)
        elif k == "long":
            nsw = draw(_scale_len(hi=max(SCALE_MIN, total - 1)))     # kernel of real-data scale too
        else:
            nsw = total // 2 + _pick(draw, [-1, 0, 1])
    nsw = max(1, min(nsw, total - 1))
    nsx = total - nsw
    if op != "short" and _pick(draw, [False, False, False, True]):
        nsx, nsw = nsw, nsx             # kernel longer than the signal
    case = {"t": "conv", "nsx": nsx, "nsw": nsw, "xk": "vec", "nr": 0, "content": _pick(draw, CONTENTS),
            "dtype": _pick(draw, ["f8", "f8", "f8", "f8", "f4", "i2"]),
            "wdt": _pick(draw, ["", "", "", "f8", "f4"]), "seed": draw(_SEED),
            "lay": _pick(draw, ["C", "C", "C", "strided", "neg"]), "ro": draw(st.booleans()), "rep": 0,
            "layw": _pick(draw, ["C", "C", "strided"]), "form": _pick(draw, [0, 1, 2]),
            "only": _pick(draw, ["full", "same", "same"]), "scale": "conv_" + op}
    if op != "short":
        m = nsw if op == "sparse_w" else nsx
        pos = sorted({draw(_scale_pos(m, reach=0 if op == "sparse_w" else nsw)) for _ in range(_pick(draw, [1, 2, 3, 4, 5, 6]))})
        case["sparse"] = {"on": op[-1], "pos": pos, "amp": [_pick(draw, [1, 1, -1, 2, 3, -5, 7]) for _ in pos]}
    return case


@st.composite
def _scale_spec(draw, tier):
    op = _pick(draw, ["filt", "filt", "fscale", "hermit", "hermit", "dft"])
    n = draw(_scale_len(hi=2 ** 21 + 2 if op == "dft" else SCALE_MAX_HALF if op in ("fscale", "hermit") else SCALE_MAX))
    if op in ("filt", "dft") and n > 2 ** 19 + 2 ** 16 and _fft_cost(n) > 120:
        # two to four transforms per case, each 0.3 - 0.6 s at 1 - 2 10^6 samples when the length has large prime factors:
        # those lengths stay within 2^19 + 2^16 (one in four: 2^20 + 1 -> 2^19, 10^6 + 1 -> 5 10^5) or move up to the next
        # length without prime factors above 7 (2^20 + 1 -> 1049760, 10^6 + 1 -> 1000188: still beyond the seam); lengths with
        # small factors (2^20 - 1, 10^6 - 1, 2^21 - 2, ...) are taken as they are
        if _pick(draw, [True, False, False, False]):
            while n > 2 ** 19 + 2 ** 16 and _fft_cost(n) > 120:
                n //= 2
        else:
            n = _SMOOTH7[bisect.bisect_left(_SMOOTH7, n)]
    two_d = op != "dft" and _pick(draw, [False] * 4 + [True])      # now and then two lanes, along either axis
    pos = _pick(draw, [0, 1]) if two_d else 0
    nh = n // 2 + 1
    # the four corners as DFT bins: ends of the tapers on / next to the seams (at least 1 % of Nyquist apart)
    gap = n // 200 + 2
    ck = sorted(draw(_scale_pos(nh)) for _ in range(4))
    ck[1] = max(ck[1], ck[0] + gap)
    ck[3] = max(ck[3], ck[2] + gap)
    case = {"t": "spec", "n": n, "other": [2] if two_d else [], "pos": pos, "neg": False,
            "none": draw(st.booleans()) if pos == (1 if two_d else 0) else False, "si": draw(_SI),
            "corners": [0, 0, 0, 0], "ck": ck, "cplx": op == "dft" and n <= 2 ** 20 + 2 and _pick(draw, [False, False, False, True]),
            "basis": False, "seed": draw(_SEED), "lay": _pick(draw, ["C", "C", "C", "F", "strided", "neg"]),
            "ro": draw(st.booleans()), "rep": _pick(draw, [0, 0, 0, 1]) if op in ("fscale", "hermit") else 0,
            "dt": _pick(draw, ["f8", "f8", "f8", "f4", "i2"]), "spk": _pick(draw, ["c16", "c16", "c8", "f8"]),
            "bk": _pick(draw, BOXES), "sik": _pick(draw, SI_KINDS), "nk": draw(_NK),
            "omit": draw(st.booleans()), "ff": False, "typ": _pick(draw, TYPS), "ops": [op], "scale": "spec_" + op}
    if op == "dft":
        case["ks"] = [draw(_scale_pos(n)) for _ in range(_pick(draw, [1, 2, 3]))]
    if op in ("dft", "filt"):
        # the trace: noise, or impulses only (at the positions below), or both
        case["xk"] = _pick(draw, ["normal", "spikes", "both"])
        case["xpos"] = sorted({draw(_scale_pos(n)) for _ in range(_pick(draw, [1, 2, 3, 4, 5]))})
    if op == "filt":
        case["filt"] = _pick(draw, ["lp", "hp", "bp", "ident"])
    return case


@st.composite
def _scale_cos(draw, tier):
    n = draw(_scale_len())
    i0 = draw(_scale_pos(n - 1))
    i1 = draw(_scale_pos(n))
    if i1 < i0:
        i0, i1 = i1, i0
    if i1 == i0:
        i1 = i0 + 1     # i0 <= n - 2
    b0 = _uniform(draw, -10 ** 7, 10 ** 7) / 1000
    b1 = b0 + _pick(draw, [1, 10, 1000, 10 ** 5, 10 ** 7]) * _uniform(draw, 1, 1000) / 1000
    return {"t": "cos", "b0": b0, "b1": b1, "int": False, "npts": n, "i0": i0, "i1": i1,
            "arr": draw(st.booleans()), "two_d": _pick(draw, [False, False, False, True]), "seed": draw(_SEED),
            "lay": _pick(draw, ["C", "C", "strided", "neg"]), "ro": draw(st.booleans()),
            "rep": _pick(draw, [0, 0, 1]), "xdt": "", "bk": _pick(draw, ["", "", "tuple", "arr_ro"]),
            "form": _pick(draw, [0, 1, 2]), "scale": "cos"}


@st.composite
def _scale(draw, tier):
    kind = _pick(draw, ["conv"] * 5 + ["spec"] * 6 + ["cos"] * 2)
    return draw({"conv": _scale_conv, "spec": _scale_spec, "cos": _scale_cos}[kind](tier))


def strategy(tier):
    main = st.one_of(_conv(tier), _conv(tier), _conv(tier), _conv(tier), _conv(tier),
                     _spec(tier), _spec(tier), _spec(tier), _spec(tier),
                     _optim(tier), _dft2(tier), _cos(tier))
    return weighted((40, main), (1, _scale(tier)))


# ------------------------------------------------------------------------------------------------
# known findings on the pinned tree

DFT2_VECTOR_CRASH = "C18.dft2_vector:crash:ValueError@ibldsp/fourier.py:dft2"


def known_convolve_oddpad(case, f):
    return (case.get("t") == "conv" and f.kind == "C18.convolve_oddpad"
            and next_smooth(case["nsx"] + case["nsw"]) % 2 == 1)


def known_ns_optim_3pow15(case, f):
    return case.get("t") == "optim" and f.kind == "C18.ns_optim_3pow15"


def known_dft2_vector(case, f):
    return case.get("t") == "dft2" and bool(case.get("vector")) and f.kind == DFT2_VECTOR_CRASH


KNOWN = {"convolve_oddpad": known_convolve_oddpad, "ns_optim_3pow15": known_ns_optim_3pow15,
         "dft2_vector": known_dft2_vector}


# ------------------------------------------------------------------------------------------------

_MEM_GUARD = [False]


def _guard_memory():
    """Safety net, once per worker process: cap the address space at 4 GiB (legitimate cases need < 0.3 GiB) so that
    a broadcasting bug in the code under test that turns an (a, n, 1) array into (a, n, n) surfaces as a MemoryError
    finding through ctx.call instead of the kernel killing the worker (harness error)."""
    if _MEM_GUARD[0]:
        return
    _MEM_GUARD[0] = True
    try:
        import resource
        soft, hard = resource.getrlimit(resource.RLIMIT_AS)
        lim = 4 * 2 ** 30
        if soft == resource.RLIM_INFINITY or soft > lim:
            resource.setrlimit(resource.RLIMIT_AS, (lim, hard))
    except Exception:  # noqa - platform without RLIMIT_AS: no guard
        pass


def _near_seam(p):
    """p is within one sample of a positive multiple of 2^16 or 10^5 (every larger power-of-two / power-of-ten block size
    is a multiple of one of them)"""
    return p >= 2 ** 16 - 1 and (min(p % 2 ** 16, -p % 2 ** 16) <= 1 or (p >= 10 ** 5 - 1 and min(p % 10 ** 5, -p % 10 ** 5) <= 1))


def _label_scale(case, ctx):
    """real-data scale class: the size along the processing axis, whether it reaches beyond 2^20 / 10^6 samples, whether the
    length itself or one of the placed positions sits on / next to a block seam. Non-trivial: longer than 2^16 samples (dense
    random content is compared sample by sample, so every seam below the length is exercised)."""
    t = case["t"]
    if t == "conv":
        size = max(case["nsx"], case["nsw"])
        placed = list((case.get("sparse") or {}).get("pos", []))
    elif t == "spec":
        size = case["n"]
        placed = list(case.get("ks", [])) + list(case.get("xpos", [])) + list(case.get("ck", []))
    else:
        size = case["npts"]
        placed = [case.get("i0", 0), case.get("i1", 0)]
    ctx.label("scale_any", "scale_" + str(case["scale"]), f"scale_2^{max(size, 1).bit_length() - 1}")
    if size > 2 ** 20:
        ctx.label("scale_beyond_2^20")
    if size > 10 ** 6:
        ctx.label("scale_beyond_1e6")
    if _near_seam(size) or _near_seam(size - 1):
        ctx.label("scale_length_at_seam")
    if any(_near_seam(p) for p in placed):
        ctx.label("scale_position_at_seam")
    if size > 2 ** 16:
        ctx.nontrivial = True


def run_case(case, ctx):
    _guard_memory()
    t = case["t"]
    ctx.label("type_" + t)
    if case.get("scale"):
        _label_scale(case, ctx)
    if t == "conv":
        _run_conv(case, ctx)
    elif t == "spec":
        _run_spec(case, ctx)
    elif t == "optim":
        _run_optim(case, ctx)
    elif t == "dft2":
        _run_dft2(case, ctx)
    elif t == "cos":
        _run_cos(case, ctx)
    else:
        raise ValueError(f"unknown case type {t}")


# ---- convolution --------------------------------------------------------------------------------

def _run_conv(case, ctx):
    F = sut.fourier()
    nsx, nsw, xk, dt = case["nsx"], case["nsw"], case["xk"], case["dtype"]
    wdt = case.get("wdt") or dt
    lay, layw, ro = case.get("lay", "C"), case.get("layw", "C"), bool(case.get("ro", False))
    form, rep = case.get("form", 0), case.get("rep", 0)
    rng = np.random.default_rng(case["seed"])
    sparse, only = case.get("sparse"), case.get("only")  # real-data scale class: one operand is a few taps, one mode per case
    if sparse and xk != "vec":
        raise ValueError("sparse operands are generated for vectors only")

    def taps(m, d):
        a = np.zeros(m)
        a[np.asarray(sparse["pos"], dtype=np.int64)] = np.asarray(sparse["amp"], dtype=float)
        return _to_dtype(a, d)
    if sparse and sparse["on"] == "w":
        w0 = taps(nsw, wdt)
    elif xk == "matmat":
        w0 = _to_dtype(_content(rng, (case["nr"], nsw), case["content"]), wdt)
    else:
        w0 = _to_dtype(_content(rng, (nsw,), case["content"]), wdt)
    if sparse and sparse["on"] == "x":
        x0 = taps(nsx, dt)
    elif xk == "eye":
        x0 = np.eye(nsx, dtype=NPDT[dt])
    elif xk == "vec":
        x0 = _to_dtype(_content(rng, (nsx,), case["content"]), dt)
    else:
        x0 = _to_dtype(_content(rng, (case["nr"], nsx), case["content"]), dt)
    # what the code under test sees: same values, drawn memory layout; x0 / w0 stay behind as the copies
    x, w = _lay(x0, lay, ro), _lay(w0, layw, ro)
    edt = "f4" if "f4" in (dt, wdt) else "f8"  # numpy's FFT keeps single precision; integers are transformed in double
    pad = next_smooth(nsx + nsw)
    odd = pad % 2 == 1
    ctx.label("conv_" + xk, "conv_" + dt, "conv_w_" + wdt, "pad_odd" if odd else "pad_even",
              "nsw_even" if nsw % 2 == 0 else "nsw_odd", "conv_lay_" + lay, "conv_layw_" + layw, f"conv_form{form}",
              f"conv_rep{rep}")
    if ro:
        ctx.label("conv_readonly")
    if nsw > nsx:
        ctx.label("kernel_longer")
    if nsx == 1 or nsw == 1:
        ctx.label("conv_len1")
    if nsx + nsw > 600:
        ctx.label("conv_beyond_box")
    if odd or nsw > nsx:
        ctx.nontrivial = True
    base = "C18.convolve_oddpad" if odd else "C18.convolve"
    kfull = base if odd else base + "_full"
    ksame = base if odd else base + "_same"

    # reference: direct convolution in float64 of the (possibly float32- or integer-valued) inputs
    x64, w64 = x0.astype(np.float64), w0.astype(np.float64)
    L = nsx + nsw - 1
    if xk == "eye":
        E = np.zeros((nsx, L))
        for i in range(nsx):
            E[i, i:i + nsw] = w64
    elif sparse:
        # by construction: the dense operand shifted to every tap of the other one, O(taps x n)
        dense, few = (x64, w64) if sparse["on"] == "w" else (w64, x64)
        E = np.zeros(L)
        for p in sparse["pos"]:
            E[p:p + dense.size] += few[p] * dense
    elif xk == "vec":
        E = np.convolve(x64, w64)
    elif xk == "mat":
        E = np.stack([np.convolve(r, w64) for r in x64])
    else:
        E = np.stack([np.convolve(r, v) for r, v in zip(x64, w64)])
    x2, w2 = np.atleast_2d(x64), np.atleast_2d(w64)
    scale = np.minimum(np.abs(x2).sum(-1) * np.sqrt((w2 ** 2).sum(-1)), np.sqrt((x2 ** 2).sum(-1)) * np.abs(w2).sum(-1))
    scale = np.maximum(scale, 1e-300)
    if E.ndim == 1:
        scale = scale[0]
    else:
        scale = scale[:, np.newaxis]
    tol = CONV_TOL_EPS * EPS[edt]
    first = (nsw - 1) // 2
    Es = E[..., first:first + nsx]

    def check_full(got, which):
        got = np.asarray(got)
        ok = (got.ndim == E.ndim and got.shape[:-1] == E.shape[:-1] and L <= got.shape[-1] <= L + 1
              and got.dtype.kind in "fiu")
        if ctx.check(ok, kfull, lambda: f"'full' shape {got.shape}, expected {E.shape[:-1] + (L,)} (+1 trailing zero); "
                                        f"nsx={nsx} nsw={nsw} true padded size {pad} ({which})"):
            err = float(np.max(np.abs(got[..., :L] - E) / scale))
            if got.shape[-1] > L:
                err = max(err, float(np.max(np.abs(got[..., L:]) / scale)))
            if not (err <= tol):  # also NaN
                err = float("inf") if err != err else err
            # odd padded sizes get their own margin (only cases that hold): on a tree with the irfft defect a few large
            # float32 cases slip under the tolerance by accident and would otherwise pollute the measured margin
            if not odd or err <= tol:
                ctx.stat(f"conv_{'oddpad' if odd else 'full'}_err_in_eps_{edt}", err / EPS[edt])
            ctx.check(err <= tol, kfull, lambda: f"'full' differs from direct convolution by {err:.3g} x scale "
                                                 f"(tol {tol:.3g}); nsx={nsx} nsw={nsw} true padded size {pad}; {which}, "
                                                 f"x {dt} {lay}, w {wdt} {layw}")

    def check_same(got, which):
        got = np.asarray(got)
        if ctx.check(got.shape == Es.shape and got.dtype.kind in "fiu", ksame,
                     lambda: f"'same' shape {got.shape} dtype {got.dtype}, expected {Es.shape}; nsx={nsx} nsw={nsw} true padded "
                             f"size {pad} ({which})"):
            err = float(np.max(np.abs(got - Es) / scale))
            if not (err <= tol):
                err = float("inf") if err != err else err
            if not odd or err <= tol:
                ctx.stat(f"conv_{'oddpad' if odd else 'same'}_err_in_eps_{edt}", err / EPS[edt])
            ctx.check(err <= tol, ksame, lambda: f"'same' differs from the centred slice of the direct convolution by "
                                                 f"{err:.3g} x scale (tol {tol:.3g}); nsx={nsx} nsw={nsw} padded {pad}; "
                                                 f"{which}, x {dt} {lay}, w {wdt} {layw}")

    # call forms: option omitted (default 'full') / keyword / positional, gpu left out or at its documented default
    if form == 0:
        full_args, full_kw, same_args, same_kw = (), {}, (), {"mode": "same"}
    elif form == 1:
        full_args, full_kw, same_args, same_kw = (), {"mode": "full"}, ("same",), {}
    else:
        full_args, full_kw, same_args, same_kw = ("full", False), {}, (), {"mode": "same", "gpu": False}

    g1 = ctx.call(kfull, F.convolve, x, w, *full_args, **full_kw) if only in (None, "full") else None
    if g1 is not ctx.CRASH and g1 is not None:
        check_full(g1, "first call")
    g2 = ctx.call(ksame, F.convolve, x, w, *same_args, **same_kw) if only in (None, "same") else None
    if g2 is not ctx.CRASH and g2 is not None:
        check_same(g2, "first call")
    for g in (g1, g2):
        if isinstance(g, np.ndarray):
            # voltage.agc adds to the result in place
            ctx.check(g.flags.writeable, "C18.convolve_result_readonly", "convolve returned a read-only array (agc adds to it "
                                                                         "in place)")
    if rep:
        if rep == 2:
            # the caller has used its results (agc: gain += ...), and another signal of the same shape went through
            _scribble(g1)
            _scribble(g2)
            xo = _lay(_to_dtype(x64[..., ::-1] + 1.0, dt), lay, ro)
            ctx.call(kfull, F.convolve, xo, w, *same_args, **same_kw)
        g3 = ctx.call(kfull, F.convolve, x, w, *full_args, **full_kw)
        if g3 is not ctx.CRASH:
            check_full(g3, "second call with the same argument objects")
        if rep == 2:
            g4 = ctx.call(ksame, F.convolve, x, w, *same_args, **same_kw)
            if g4 is not ctx.CRASH:
                check_same(g4, "second call with the same argument objects")
    ctx.check(_same(x, x0) and _same(w, w0), "C18.convolve_input_mutated",
              lambda: f"convolve modified its {'signal' if not _same(x, x0) else 'kernel'} argument (nsx={nsx} nsw={nsw}, "
                      f"x {dt} {lay}, w {wdt} {layw})")


# ---- one length: fscale, freduce/fexpand, dft, filters ---------------------------------------------

def _taper(f, c0, c1):
    """textbook cosine soft threshold: 0 up to c0, 1 from c1, (1 - cos(pi t)) / 2 between"""
    f = np.asarray(f, dtype=float)
    t = np.clip((f - c0) / (c1 - c0), 0.0, 1.0)
    return (1.0 - np.cos(np.pi * t)) / 2.0


def _num(ctx, r, shape, kind, what):
    """what the code under test returned as a float64 copy of the expected shape, or None (finding reported)"""
    try:
        a = np.asarray(r)
        ok = a.shape == tuple(shape) and a.dtype.kind in "fiu"
    except Exception:  # noqa
        a, ok = None, False
    if not ctx.check(ok, kind, lambda: f"{what}: returned {type(r).__name__} shape {np.shape(r)} dtype "
                                       f"{getattr(r, 'dtype', None)}, expected a real array of shape {tuple(shape)}"):
        return None
    return a.astype(np.float64)


def _run_spec(case, ctx):
    F = sut.fourier()
    n, si = case["n"], case["si"]
    lay, ro, rep = case.get("lay", "C"), bool(case.get("ro", False)), case.get("rep", 0)
    dt, spk = case.get("dt", "f8"), case.get("spk", "c16")
    nk, sik, omit = case.get("nk", "int"), case.get("sik", "float"), bool(case.get("omit", False))
    rng = np.random.default_rng(case["seed"])
    if case["basis"]:
        shape = [n, n]
        pos = case["pos"]
        ndim = 2
    else:
        other = list(case["other"])
        ndim = len(other) + 1
        pos = case["pos"]
        shape = other[:pos] + [n] + other[pos:]
    if case["none"] and pos == ndim - 1:
        axarg, axlabel = None, "axis_none"
    elif case["neg"]:
        axarg, axlabel = pos - ndim, "axis_neg"
    else:
        axarg, axlabel = pos, "axis_pos"
    # the axis option in its default form (left out) or passed; lengths and the sampling interval as the scalar types callers hold
    akw = {} if (axarg is None and omit) else {"axis": axarg}
    n_arg = _int_kind(n, nk)
    si_arg = np.float64(si) if sik == "npf" else int(si) if (sik == "int" and float(si).is_integer()) else si
    prime = _is_prime(n)
    ctx.label(f"ndim{ndim}", f"axis{pos}of{ndim}", axlabel, "n_even" if n % 2 == 0 else "n_odd",
              "n<=300" if n <= 300 else "n>300", "spec_lay_" + lay, "spec_" + dt, "spec_spectrum_" + spk, f"spec_rep{rep}",
              "spec_n_" + nk, "spec_si_" + type(si_arg).__name__)
    if ro:
        ctx.label("spec_readonly")
    if not akw:
        ctx.label("axis_omitted")
    if prime:
        ctx.label("n_prime")
        ctx.nontrivial = True
    if _is_pow(n, 2):
        ctx.label("n_pow2")
    if _is_pow(n, 3):
        ctx.label("n_pow3")
    if case["basis"]:
        ctx.label("impulse_basis")
    nh = n // 2 + 1
    ops = case.get("ops")  # real-data scale class: one section per case; None = all of them

    def on(name):
        return ops is None or name in ops
    fn = 0.5 / si
    if case.get("ck"):
        corners = [kb / (n * si) for kb in case["ck"]]   # corners given as DFT bins (ends of the tapers on chosen bins)
    else:
        corners = [v / 1000.0 * fn for v in case["corners"]]
    if on("fscale"):
        _check_fscale(case, ctx, F, n, si, n_arg, si_arg, nh, rep, ro, corners)
    if on("hermit"):
        _check_hermit(case, ctx, F, rng, n, nh, shape, pos, ndim, axarg, akw, n_arg, lay, ro, rep, spk)
    if not (on("roundtrip") or on("dft") or on("filters") or on("filt")):
        return
    x = _signal(case, rng, n, shape, pos)
    # the signal in the drawn dtype; x keeps the exact values in float64 for the oracles
    if dt == "f4":
        xv = x.astype(np.float32)
    elif dt == "i2":
        xv = np.trunc(x * 100).astype(np.int16)
    else:
        xv = x
    x = xv.astype(np.float64)
    xin = _lay(xv, lay, ro)
    X = X_in = None
    if on("roundtrip") or on("dft"):
        X = np.fft.fft(x, axis=pos)
        X_in = _lay(X, lay, ro)

    def _roundtrip():
        return F.fexpand(F.freduce(X_in, **akw), n_arg, **akw)
    rt = ctx.call("C18.reduce_expand", _roundtrip) if on("roundtrip") else ctx.CRASH
    if rt is not ctx.CRASH:
        if ctx.check(_numeric(rt, X.shape), "C18.reduce_expand", lambda: f"round trip shape {np.shape(rt)} != {X.shape}"):
            xnorm = np.maximum(np.sqrt(np.sum(np.abs(X) ** 2, axis=pos, keepdims=True)), 1e-300)
            err = float(np.max(np.abs(rt - X) / xnorm))
            ctx.stat("roundtrip_err_in_eps", err / EPS["f8"])
            ctx.check(err <= ROUNDTRIP_TOL_EPS * EPS["f8"], "C18.reduce_expand",
                      lambda: f"fexpand(freduce(fft(x))) differs from fft(x) by {err:.3g} x |fft x|_2 (n={n}, axis={axarg})")

    # (c) explicit DFT
    if on("dft"):
        _check_dft(case, ctx, F, x, xv, xin, X, n, pos, ndim, axarg, rng)

    # (d) filters
    if axarg is None or (axarg >= 0 and (ndim <= 2 or pos >= 1)):
        if case.get("filt"):
            _check_filter_ref(case, ctx, F, x, xin, n, si, si_arg, pos, ndim, axarg, akw, corners)
        elif on("filters"):
            _check_filters(case, ctx, F, x, xin, n, si, si_arg, pos, ndim, axarg, akw, corners)
    ctx.check(_same(xin, xv), "C18.signal_input_mutated", lambda: f"dft / lp / hp / bp modified the signal argument "
                                                                  f"({dt}, layout {lay}, n={n}, axis={axarg})")


def _signal(case, rng, n, shape, pos):
    """the trace(s): identity (impulse basis), noise, or - real-data scale class - impulses at the positions of the case
    (alone or on top of the noise)"""
    if case["basis"]:
        return np.eye(n)
    xk = case.get("xk", "normal")
    x = rng.standard_normal(shape) if xk != "spikes" else np.zeros(shape)
    if xk != "normal":
        idx = [slice(None)] * len(shape)
        idx[pos] = np.asarray(case["xpos"], dtype=np.int64)
        amp = [len(case["xpos"]) if i == pos else 1 for i in range(len(shape))]
        x[tuple(idx)] += 50.0 * (1.0 + rng.random(len(case["xpos"]))).reshape(amp)
    return x


def _check_fscale(case, ctx, F, n, si, n_arg, si_arg, nh, rep, ro, corners):
    # (a) frequency scale
    k = np.arange(n)
    ks = np.where(k <= n // 2, k, k - n)  # Nyquist bin of an even length stays positive
    ref2 = ks / (n * si)
    ref1 = np.arange(nh) / (n * si)
    for one_sided, ref in ((False, ref2), (True, ref1)):
        for it in range(2 if rep else 1):
            which = "first call" if it == 0 else "second call, after the caller overwrote the first result in place"
            if it == 0:
                got = ctx.call("C18.fscale", F.fscale, n_arg, si_arg, one_sided=one_sided)
            else:
                got = ctx.call("C18.fscale", F.fscale, n_arg, si_arg, one_sided)
            if got is ctx.CRASH:
                break
            res = got
            got = np.asarray(got)
            if ctx.check(got.shape == ref.shape and got.dtype.kind == "f", "C18.fscale",
                         lambda: f"fscale({n}, one_sided={one_sided}) has shape {got.shape} dtype {got.dtype}, expected "
                                 f"{ref.shape} float"):
                rel = float(np.max(np.abs(got - ref) / np.maximum(np.abs(ref), 1e-300)))
                ctx.stat("fscale_relerr", rel)
                ctx.check(rel <= FSCALE_RTOL, "C18.fscale", lambda: f"fscale({n_arg!r}, si={si_arg!r}, one_sided={one_sided}) "
                          f"differs from k/(n si) with positive Nyquist: first bad index "
                          f"{int(np.argmax(~(np.abs(got - ref) <= FSCALE_RTOL * np.abs(ref))))} ({which})")
            if isinstance(res, np.ndarray):
                # voltage.fk: kscale = fscale(nxp, dx); kscale[0] = 1e-6
                ctx.check(res.flags.writeable, "C18.fscale_result_readonly", "fscale returned a read-only array (fk assigns "
                                                                             "to its first element)")
                _scribble(res)
    if si != 1.0 and n <= 300:
        got = ctx.call("C18.fscale", F.fscale, n_arg)
        if got is not ctx.CRASH:
            ctx.check(np.shape(got) == (n,) and np.allclose(got, ks / n, rtol=FSCALE_RTOL, atol=0), "C18.fscale",
                      lambda: f"fscale({n}) with the default sampling interval differs from k/n")

    # (a') the response vector behind lp / hp / bp (voltage.fk calls it with the btype of the user: 'highpass', 'lowpass')
    typ = case.get("typ")
    if typ is not None:
        c0, c1 = corners[0:2]
        fvec = ref1 if case["seed"] % 2 == 0 else np.abs(ref2)  # one-sided (filters) or |two-sided scale| (fk)
        fin = _lay(fvec, "C", ro)
        B = _box([c0, c1], case.get("bk", "list"))
        ctx.label("freq_vector_typ_" + (typ or "default"))
        v = ctx.call("C18.freq_vector", F._freq_vector, fin, B, **({"typ": typ} if typ else {}))
        if v is not ctx.CRASH:
            v = _num(ctx, v, fvec.shape, "C18.freq_vector", f"_freq_vector(f, b, typ={typ or 'default'!r})")
            if v is not None:
                tap = _taper(fvec, c0, c1)
                exp = tap if typ.lower() in ("hp", "highpass") else 1.0 - tap
                err = float(np.max(np.abs(v - exp)))
                ctx.check(err <= COS_TOL, "C18.freq_vector", lambda: f"_freq_vector with typ={typ or 'default (lp)'!r} differs "
                          f"from the {'' if typ.lower() in ('hp', 'highpass') else '1 - '}cosine taper between {c0}, {c1} Hz "
                          f"by {err:.3g} (n={n}, si={si})")
        ctx.check(_same(fin, fvec) and _same(B, [c0, c1]), "C18.freq_vector_input_mutated",
                  "_freq_vector modified its frequency vector or its corners")



def _check_hermit(case, ctx, F, rng, n, nh, shape, pos, ndim, axarg, akw, n_arg, lay, ro, rep, spk):
    # (b) half-spectrum reduction / expansion
    hshape = list(shape)
    hshape[pos] = nh
    S = rng.standard_normal(hshape) + 1j * rng.standard_normal(hshape)
    sl = [slice(None)] * ndim
    sl[pos] = 0
    S[tuple(sl)] = S[tuple(sl)].real
    if n % 2 == 0:
        sl[pos] = n // 2
        S[tuple(sl)] = S[tuple(sl)].real
    if spk == "c8":
        S = S.astype(np.complex64)
    elif spk in ("f8", "f4"):
        S = np.ascontiguousarray(S.real).astype(NPDT[spk])  # real spectra: fit_phase reduces a frequency scale, _freq_filter
        #                                                     expands a real response
    mirror = n - np.arange(nh, n)  # full[k] = conj(S[n - k]) for k = nh .. n-1
    full = np.concatenate([S, np.conj(np.take(S, mirror, axis=pos))], axis=pos)
    full_in, S_in = _lay(full, lay, ro), _lay(S, lay, ro)
    for it in range(2 if rep else 1):
        which = "first call" if it == 0 else "second call with the same argument object"
        r = ctx.call("C18.freduce", F.freduce, full_in, **akw)
        if r is not ctx.CRASH:
            ctx.check(np.shape(r) == S.shape and np.array_equal(r, S), "C18.freduce",
                      lambda: f"freduce of a Hermitian spectrum of length {n} along axis {axarg} of shape {full.shape} "
                              f"({full.dtype}, layout {lay}) is not its first n//2+1 bins (got shape {np.shape(r)}; {which})")
        if it == 0:
            e = ctx.call("C18.fexpand", F.fexpand, S_in, n_arg, **akw)
        else:
            e = ctx.call("C18.fexpand", F.fexpand, S_in, ns=n_arg, **akw)
        if e is not ctx.CRASH:
            ctx.check(np.shape(e) == full.shape and np.array_equal(e, full), "C18.fexpand",
                      lambda: f"fexpand(half spectrum {S.dtype} layout {lay}, ns={n}, axis={axarg}) is not the Hermitian "
                              f"spectrum (shape {np.shape(e)}, expected {full.shape}; {which})")
        if rep == 2:
            _scribble(r)
            _scribble(e)
    if n == 1:
        e = ctx.call("C18.fexpand", F.fexpand, S_in, **akw)  # ns at its default of 1
        if e is not ctx.CRASH:
            ctx.check(np.shape(e) == S.shape and np.array_equal(e, S), "C18.fexpand",
                      "fexpand with the default ns=1 does not return the single bin")
    ctx.check(_same(full_in, full), "C18.freduce_input_mutated", "freduce modified its argument")
    ctx.check(_same(S_in, S), "C18.fexpand_input_mutated", "fexpand modified its argument")


def _check_dft(case, ctx, F, x, xv, xin, X, n, pos, ndim, axarg, rng):
    dax = -1 if axarg is None else axarg  # dft has no None convention: its default is -1
    lay, ro, rep, dt = case.get("lay", "C"), bool(case.get("ro", False)), case.get("rep", 0), case.get("dt", "f8")
    lanes = x.size // n
    if n <= 512 and n * n * lanes <= 4_000_000:
        kscale = kin = None
        ctx.label("dft_all_k")
    else:
        if case.get("ks"):
            ks = {int(v) % n for v in case["ks"]}   # real-data scale class: a few coefficients (each costs n complex numbers)
        else:
            ks = {0, 1 % n, n // 2, n - 1, (n // 2 + 1) % n} | {int(v) for v in rng.integers(0, n, 4)}
        kscale = np.array(sorted(ks))
        kin = _lay(kscale, "C", ro)
        ctx.label("dft_kscale_subset")
    inputs = [("real", xin, x, np.fft.rfft(x, axis=pos) if kscale is None else np.take(X, kscale, axis=pos))]
    if case["cplx"] and dt != "i2":
        # the unit of the samples is the caller's: volts, microvolts, a normalised spectrum (1e-12 .. 1e6); a complex signal
        # stays complex however small its numbers are
        cscale = case.get("cscale") or [1.0, 1.0, 1e-9, 1e-12, 1e6, 1e-7][int(case["seed"]) % 6]
        ctx.label("dft_complex_scale_%g" % cscale)
        xc = (x + 1j * rng.standard_normal(x.shape)) * cscale
        xcv = xc.astype(np.complex64) if dt == "f4" else xc
        xc = xcv.astype(np.complex128)
        Xc = np.fft.fft(xc, axis=pos)
        inputs.append(("complex", _lay(xcv, lay, ro), xc, Xc if kscale is None else np.take(Xc, kscale, axis=pos)))
    for name, xi, xval, ref in inputs:
        kw = {} if kscale is None else {"kscale": kin}
        if not (dax == -1 and pos == ndim - 1 and case["seed"] % 2 == 0):
            kw["axis"] = dax  # otherwise: default axis
        s = np.maximum(np.sum(np.abs(xval), axis=pos, keepdims=True), 1e-300)
        for it in range(2 if (rep and n <= 4096) else 1):
            which = "first call" if it == 0 else "second call with the same argument objects"
            if it == 1 and rep == 2:
                # something else of the same shape went through in between
                ctx.call("C18.dft", F.dft, _lay((xval + 1.0).astype(xi.dtype), lay, ro), **kw)
            got = ctx.call("C18.dft", F.dft, xi, **kw)
            if got is ctx.CRASH:
                break
            if not ctx.check(_numeric(got, ref.shape), "C18.dft", lambda: f"dft of {name} x shape {xi.shape} axis {dax}: "
                                                                           f"shape {np.shape(got)}, expected {ref.shape}"):
                break
            err = float(np.max(np.abs(got - ref) / s)) / n
            ctx.stat("dft_err_in_eps", err / EPS["f8"])
            ctx.check(err <= DFT_TOL_EPS * EPS["f8"], "C18.dft",
                      lambda: f"dft of {name} x ({xi.dtype}, layout {lay}, n={n}, axis={dax}) differs from numpy fft by "
                              f"{err:.3g} x n sum|x| ({which})")
            if rep == 2:
                _scribble(got)
        ctx.check(_same(xi, xval), "C18.signal_input_mutated", lambda: f"dft modified its {name} argument ({xi.dtype}, {lay})")
    if kscale is not None:
        ctx.check(_same(kin, kscale), "C18.dft_scale_mutated", "dft modified kscale")
    if ndim <= 2 and n <= 512 and n * n * lanes <= 4_000_000 and (ndim == 1 or case.get("lay") is not None):
        # samples in another order, their positions in xscale (1-D, and along either axis of a matrix)
        perm = rng.permutation(n)
        pin = _lay(perm, "C", ro)
        xp = _lay(np.take(xv, perm, axis=pos), lay, ro)
        kw = {} if ndim == 1 else {"axis": dax}
        got = ctx.call("C18.dft", F.dft, xp, xscale=pin, **kw)
        if got is not ctx.CRASH:
            ref = np.fft.rfft(x, axis=pos)
            if ctx.check(_numeric(got, ref.shape), "C18.dft", lambda: f"dft(x[perm], xscale=perm) has shape {np.shape(got)}, "
                                                                       f"expected {ref.shape}"):
                s = np.maximum(np.sum(np.abs(x), axis=pos, keepdims=True), 1e-300)
                err = float(np.max(np.abs(got - ref) / s)) / n
                ctx.check(err <= DFT_TOL_EPS * EPS["f8"], "C18.dft",
                          lambda: f"dft(x[perm], xscale=perm) differs from rfft(x) by {err:.3g} x n sum|x| (n={n}, ndim={ndim}, "
                                  f"axis={dax})")
        ctx.check(_same(pin, perm), "C18.dft_scale_mutated", "dft modified xscale")


def _check_filter_ref(case, ctx, F, x, xin, n, si, si_arg, pos, ndim, axarg, akw, c):
    """Real-data scale class: ONE of lp / hp / bp (or lp + hp) on one long trace. Oracle of lp / hp / bp: the textbook filter
    itself, numpy's real FFT of the trace times the (1 -) cosine taper at the DFT bin frequencies k / (n si) (product of the
    two for the band-pass), transformed back - O(n log n), independent of fscale / fcn_cosine / fexpand and of the complex
    transforms of the implementation. Tolerance: the spectral tolerance of the small cases carried to the time domain
    (|y - ref|_inf <= |y - ref|_2 <= max|H - H_ref| |x|_2 by Parseval: RESP_TOL |x|_2) plus the FFT rounding allowance of
    lp + hp (FILT_TOL_EPS eps |x|_2)."""
    which, dt, bk = case["filt"], case.get("dt", "f8"), case.get("bk", "list")
    edt = "f4" if dt == "f4" else "f8"
    tol = FILT_TOL_EPS * EPS[edt]
    ctx.label("filters", "filter_corners_" + bk, "filter_scale_" + which)
    norm = np.maximum(np.sqrt(np.sum(x ** 2, axis=pos, keepdims=True)), 1e-300)

    def relerr(a, b):
        e = float(np.max(np.abs(a - b) / norm))
        return e if e == e else float("inf")

    if which == "ident":
        B = _box(c[0:2], bk)
        lo = ctx.call("C18.filter", F.lp, xin, si_arg, B, **akw)
        hi = ctx.call("C18.filter", F.hp, xin, si_arg, B, **akw)
        if lo is ctx.CRASH or hi is ctx.CRASH:
            return
        lo = _num(ctx, lo, x.shape, "C18.filter_shape", f"lp of input {x.shape} axis {axarg}")
        hi = _num(ctx, hi, x.shape, "C18.filter_shape", f"hp of input {x.shape} axis {axarg}")
        if lo is None or hi is None:
            return
        err = relerr(lo + hi, x)
        ctx.stat("lp_plus_hp_err_in_eps" + ("" if edt == "f8" else "_f4"), err / EPS[edt])
        ctx.check(err <= tol, "C18.lp_plus_hp",
                  lambda: f"lp + hp with the same corners differs from the input by {err:.3g} x |x|_2 (n={n}, axis={axarg}, "
                          f"corners {c[0:2]} as {bk}, si={si_arg!r}, signal {dt})")
        ctx.check(_same(B, c[0:2]), "C18.filter_corners_mutated", lambda: f"lp / hp modified the corners passed as {bk}")
        return
    f1 = np.arange(n // 2 + 1) / (n * si)
    if which == "lp":
        b, resp = c[0:2], 1.0 - _taper(f1, c[0], c[1])
    elif which == "hp":
        b, resp = c[0:2], _taper(f1, c[0], c[1])
    else:
        b, resp = c[0:4], _taper(f1, c[0], c[1]) * (1.0 - _taper(f1, c[2], c[3]))
    B = _box(b, bk)
    y = ctx.call("C18.filter", getattr(F, which), xin, si_arg, B, **akw)
    if y is ctx.CRASH:
        return
    y = _num(ctx, y, x.shape, "C18.filter_shape", f"{which} of input {x.shape} axis {axarg}")
    if y is None:
        return
    rs = [1] * ndim
    rs[pos] = resp.size
    ref = np.fft.irfft(np.fft.rfft(x, axis=pos) * resp.reshape(rs), n=n, axis=pos)
    err = relerr(y, ref)
    ctx.stat("filter_ref_err" + ("" if edt == "f8" else "_f4"), err)
    ctx.check(err <= RESP_TOL + tol, "C18.filter_response",
              lambda: f"{which} differs from irfft(rfft(x) x cosine-taper response at the bins k/(n si)) by {err:.3g} x |x|_2 "
                      f"(tol {RESP_TOL + tol:.3g}); n={n}, axis={axarg}, corners {b} as {bk}, si={si_arg!r}, signal {dt} "
                      f"{case.get('xk', 'normal')}; first bad sample along the axis "
                      f"{int(np.argmax(np.max(np.abs(y - ref) / norm, axis=tuple(i for i in range(ndim) if i != pos)) > RESP_TOL + tol))}")
    ctx.check(_same(B, b), "C18.filter_corners_mutated", lambda: f"{which} modified the corners passed as {bk}")


def _check_filters(case, ctx, F, x, xin, n, si, si_arg, pos, ndim, axarg, akw, c):
    rep, dt, bk = case.get("rep", 0), case.get("dt", "f8"), case.get("bk", "list")
    edt = "f4" if dt == "f4" else "f8"  # numpy's FFT of a float32 signal is single precision
    sfx = "" if edt == "f8" else "_f4"
    tol = FILT_TOL_EPS * EPS[edt]
    b_lh = c[0:2]
    b4 = c[0:4]
    # the corner containers are built once and passed to every call that uses these corners
    B_lh, B_lp, B4 = _box(c[0:2], bk), _box(c[2:4], bk), _box(c[0:4], bk)
    ctx.label("filters", "filter_corners_" + bk)
    norm = np.maximum(np.sqrt(np.sum(x ** 2, axis=pos, keepdims=True)), 1e-300)

    def relerr(a, b):
        e = float(np.max(np.abs(a - b) / norm))
        return e if e == e else float("inf")

    lo_r = ctx.call("C18.filter", F.lp, xin, si_arg, B_lh, **akw)
    hi_r = ctx.call("C18.filter", F.hp, xin, si_arg, B_lh, **akw)
    if lo_r is ctx.CRASH or hi_r is ctx.CRASH:
        return
    lo = _num(ctx, lo_r, x.shape, "C18.filter_shape", f"lp of input {x.shape} axis {axarg}")
    hi = _num(ctx, hi_r, x.shape, "C18.filter_shape", f"hp of input {x.shape} axis {axarg}")
    if lo is None or hi is None:
        return
    err = relerr(lo + hi, x)
    ctx.stat("lp_plus_hp_err_in_eps" + sfx, err / EPS[edt])
    ctx.check(err <= tol, "C18.lp_plus_hp",
              lambda: f"lp + hp with the same corners differs from the input by {err:.3g} x |x|_2 (n={n}, axis={axarg}, "
                      f"corners {b_lh} as {bk}, si={si_arg!r}, signal {dt})")
    band_r = ctx.call("C18.filter", F.bp, xin, si_arg, B4, **akw)
    lo2 = ctx.call("C18.filter", F.lp, xin, si_arg, B_lp, **akw)
    band = None
    if band_r is not ctx.CRASH and lo2 is not ctx.CRASH:
        hl = ctx.call("C18.filter", F.hp, lo2, si_arg, B_lh, **akw)
        lh = ctx.call("C18.filter", F.lp, hi_r, si_arg, B_lp, **akw)
        if hl is not ctx.CRASH and lh is not ctx.CRASH:
            band = _num(ctx, band_r, x.shape, "C18.filter_shape", f"bp of input {x.shape} axis {axarg}")
            hl = _num(ctx, hl, x.shape, "C18.filter_shape", "hp(lp(x))")
            lh = _num(ctx, lh, x.shape, "C18.filter_shape", "lp(hp(x))")
            if band is not None and hl is not None and lh is not None:
                err = max(relerr(band, hl), relerr(band, lh))
                ctx.stat("bp_err_in_eps" + sfx, err / EPS[edt])
                ctx.check(err <= tol, "C18.bp_product",
                          lambda: f"bp differs from hp(lp(x)) / lp(hp(x)) by {err:.3g} x |x|_2 (n={n}, axis={axarg}, "
                                  f"corners {b4} as {bk}, si={si_arg!r}, signal {dt})")
    # the wrapper itself: typ at its default (low-pass) and at the two other values
    if case.get("ff") and n <= 8192:
        ctx.label("freq_filter_direct")
        for kw, ref, B, name in (({}, lo, B_lh, "default"), ({"typ": "hp"}, hi, B_lh, "'hp'"), ({"typ": "bp"}, band, B4, "'bp'")):
            if ref is None:
                continue
            r = ctx.call("C18.filter", F._freq_filter, xin, si_arg, B, **akw, **kw)
            if r is ctx.CRASH:
                continue
            r = _num(ctx, r, x.shape, "C18.filter_shape", f"_freq_filter typ={name}")
            if r is not None:
                err = relerr(r, ref)
                ctx.check(err <= tol, "C18.freq_filter_typ", lambda: f"_freq_filter with typ {name} differs from "
                          f"{'lp' if not kw else kw['typ']} by {err:.3g} x |x|_2 (n={n}, axis={axarg})")
    # second call with the same argument objects, after the band-pass (and, rep 2, after the caller overwrote its results)
    if rep:
        if rep == 2:
            _scribble(lo_r)
            _scribble(band_r if band_r is not ctx.CRASH else None)
        again = ctx.call("C18.filter", F.lp, xin, si_arg, B_lh, **akw)
        if again is not ctx.CRASH:
            again = _num(ctx, again, x.shape, "C18.filter_shape", "lp, second call")
            if again is not None:
                err = max(relerr(again, lo), relerr(again + hi, x))
                ctx.check(err <= tol, "C18.filter_repeat", lambda: f"lp called a second time with the same signal, sampling "
                          f"interval and corner objects differs from its first answer by {err:.3g} x |x|_2 (n={n}, "
                          f"axis={axarg}, corners {b_lh} as {bk})")
    ctx.check(_same(B_lh, c[0:2]) and _same(B_lp, c[2:4]) and _same(B4, c[0:4]), "C18.filter_corners_mutated",
              lambda: f"lp / hp / bp modified the corner frequencies passed as {bk}")
    # frequency response of the low-pass on an impulse at sample 0, against the analytic taper at the DFT bin frequencies
    # (a response read off a single-precision filtered basis is not held to the double-precision tolerance)
    if (case["basis"] and edt == "f8") or (not case["basis"] and ndim == 1 and n <= 8192):
        if case["basis"]:
            idx = [slice(None)] * 2
            idx[1 - pos] = 0
            h = lo[tuple(idx)]
            hh = hi[tuple(idx)]
        else:
            d = np.zeros(n)
            d[0] = 1.0
            h = ctx.call("C18.filter", F.lp, d, si_arg, B_lh, **akw)
            hh = ctx.call("C18.filter", F.hp, d, si_arg, B_lh, **akw)
            if h is ctx.CRASH or hh is ctx.CRASH:
                return
            h = _num(ctx, h, (n,), "C18.filter_shape", "lp of an impulse")
            hh = _num(ctx, hh, (n,), "C18.filter_shape", "hp of an impulse")
            if h is None or hh is None:
                return
        ctx.label("filter_response")
        kk = np.arange(n)
        fabs = np.minimum(kk, n - kk) / (n * si)
        tap = _taper(fabs, b_lh[0], b_lh[1])
        H = np.fft.fft(h)
        Hh = np.fft.fft(hh)
        err = max(float(np.max(np.abs(H - (1.0 - tap)))), float(np.max(np.abs(Hh - tap))))
        err = err if err == err else float("inf")
        ctx.stat("filter_response_err", err)
        ctx.check(err <= RESP_TOL, "C18.filter_response",
                  lambda: f"frequency response of lp/hp differs from the (1 -) cosine taper between {b_lh} Hz by {err:.3g} "
                          f"(n={n}, si={si}, axis={axarg})")


# ---- fast size ------------------------------------------------------------------------------------

def _optim_arg(a, kind):
    """the argument in one of the scalar types callers hold, and the integer the answer must not be below"""
    if kind == "float":
        return float(a), a
    if kind == "npf":
        return np.float64(a), a
    if kind == "below":
        return a - 0.5, a       # integers not below a - 0.5 are those not below a
    if kind == "above":
        return a + 0.5, a + 1
    return _int_kind(a, kind), a


def _run_optim(case, ctx):
    F = sut.fourier()
    args = list(case["args"]) + list(range(case["lo"], case["hi"] + 1))
    ak = case.get("ak", "int")
    kinds = OPTIM_KINDS if ak == "all" else ["int"] + ([ak] if ak != "int" else [])
    ctx.label("optim_range" if case["hi"] >= case["lo"] else "optim_list", "optim_arg_" + ak)
    for a in args:
        if a <= 5000:
            # the table itself against the definition
            m = a
            while not _is_23(m):
                m += 1
            if m != next_smooth(a):
                raise AssertionError(f"oracle table wrong at {a}: {next_smooth(a)} vs {m}")
        for kind_of_arg in kinds:
            arg, lower = _optim_arg(a, kind_of_arg)
            exp = next_smooth(lower)
            if exp % 2 == 1 and exp > 1:
                ctx.nontrivial = True
                ctx.label("optim_answer_pow3")
            if a == exp:
                ctx.label("optim_arg_is_smooth")
            kind = "C18.ns_optim_3pow15" if exp == P3_15 else "C18.ns_optim"
            got = ctx.call(kind, F.ns_optim_fft, arg)
            if got is ctx.CRASH:
                continue
            try:
                ok = np.ndim(got) == 0 and float(got) == float(exp)
            except Exception:  # noqa - not a number
                ok = False
            ctx.check(ok, kind, lambda: f"ns_optim_fft({arg!r}) = {got!r}, smallest 2^a 3^b not below it is {exp}")


# ---- 2-D DFT --------------------------------------------------------------------------------------

def _run_dft2(case, ctx):
    F = sut.fourier()
    nk, nl, nt = case["nk"], case["nl"], case["nt"]
    lay, rc, ro = case.get("lay", "C"), case.get("rc", "C"), bool(case.get("ro", False))
    dt, nkk, rep = case.get("dt", "f8"), case.get("nkk", "int"), case.get("rep", 0)
    rng = np.random.default_rng(case["seed"])
    img = rng.standard_normal((nk, nl, nt))
    if case["cplx"]:
        img = img + 1j * rng.standard_normal((nk, nl, nt))
    if dt == "f4":
        img = img.astype(np.complex64 if case["cplx"] else np.float32)
    mask = rng.random(nk * nl) < case["keep"] / 1000.0
    if not mask.any():
        mask[int(rng.integers(0, nk * nl))] = True
    pts = np.flatnonzero(mask)
    if case["perm"]:
        pts = rng.permutation(pts)
    i, j = pts // nl, pts % nl
    r, c = i / nk, j / nl
    x0 = img.reshape(nk * nl, nt)[pts]
    if case["vector"]:
        x0 = np.ascontiguousarray(x0[:, 0])
    x = x0.astype(np.complex128 if case["cplx"] else np.float64)
    img64 = img.astype(np.complex128 if case["cplx"] else np.float64)
    ref = np.fft.fft2(img64 * mask.reshape(nk, nl, 1), axes=(0, 1))
    # what the code under test sees
    xin, rin, cin = _lay(x0, lay, ro), _lay(r, rc, ro), _lay(c, rc, ro)
    nk_arg, nl_arg = _int_kind(nk, nkk), _int_kind(nl, nkk)
    ctx.label("dft2_full_grid" if mask.all() else "dft2_subset", "dft2_perm" if case["perm"] else "dft2_ordered",
              "dft2_complex" if case["cplx"] else "dft2_real", "dft2_lay_" + lay, "dft2_rc_" + rc, "dft2_" + dt,
              "dft2_n_" + nkk, f"dft2_rep{rep}")
    if ro:
        ctx.label("dft2_readonly")
    if _is_prime(nk) or _is_prime(nl):
        ctx.nontrivial = True
        ctx.label("dft2_prime")
    s = np.maximum(np.sum(np.abs(x), axis=0), 1e-300)
    tol = DFT_TOL_EPS * EPS["f8"] * (nk + nl)
    kind = "C18.dft2_vector" if case["vector"] else "C18.dft2"
    if case["vector"]:
        ctx.label("dft2_vector")
    for it in range(2 if rep else 1):
        which = "first call" if it == 0 else "second call with the same argument objects"
        if it == 1 and rep == 2:
            # another data set on the same positions went through in between
            ctx.call(kind, F.dft2, _lay((x + 1.0).astype(x0.dtype), lay, ro), rin, cin, nk_arg, nl_arg)
        got = ctx.call(kind, F.dft2, xin, rin, cin, nk_arg, nl_arg)
        if got is ctx.CRASH:
            break
        if case["vector"]:
            ok = _numeric(got, (nk, nl)) or _numeric(got, (nk, nl, 1))
            if ctx.check(ok, kind, lambda: f"dft2 of a vector: shape {np.shape(got)}, expected ({nk},{nl}[,1])"):
                err = float(np.max(np.abs(np.reshape(got, (nk, nl)) - ref[:, :, 0]))) / float(s)
                ctx.check(err <= tol, kind, lambda: f"dft2 of a vector differs from fft2 by {err:.3g} x sum|x| ({which})")
        elif ctx.check(_numeric(got, (nk, nl, nt)), kind, lambda: f"dft2 shape {np.shape(got)}, expected {(nk, nl, nt)}"):
            err = float(np.max(np.abs(got - ref) / s))
            ctx.stat("dft2_err_in_eps", err / (nk + nl) / EPS["f8"])
            ctx.check(err <= tol, kind, lambda: f"dft2 on a {nk}x{nl} grid ({pts.size} points, data {x0.dtype} layout {lay}, "
                                                f"positions layout {rc}) differs from fft2 of the zero-filled image by "
                                                f"{err:.3g} x sum|x| ({which})")
        if rep == 2:
            _scribble(got)
    ctx.check(_same(xin, x0) and _same(rin, r) and _same(cin, c), "C18.dft2_input_mutated",
              lambda: f"dft2 modified its {'data' if not _same(xin, x0) else 'position'} argument")


# ---- cosine soft threshold ---------------------------------------------------------------------------

def _run_cos(case, ctx):
    U = sut.utils()
    b0, b1, npts = case["b0"], case["b1"], case["npts"]
    lay, ro, rep = case.get("lay", "C"), bool(case.get("ro", False)), case.get("rep", 0)
    xdt, bk, form = case.get("xdt", ""), case.get("bk", ""), case.get("form", 0)
    rng = np.random.default_rng(case["seed"])
    d = b1 - b0
    edt = "f8"
    if case["int"]:
        xs = rng.integers(b0 - d - 2, b1 + d + 3, size=npts)
        xs[: min(npts, 3)] = [b0, b1, b0 + d // 2][: min(npts, 3)]
        # integer bounds and samples are exact in every dtype: int32, float32, and uint16 when the lower bound is not negative
        # (numpy refuses uint16 - negative Python integer; samples below the bound wrap around in x - b0 and must still give 0)
        if xdt == "u2" and b0 >= 0:
            xs = np.clip(xs, 0, 65535).astype(np.uint16)
        elif xdt in ("i4", "u2"):
            xs = xs.astype(np.int32)
        elif xdt == "f4":
            xs = xs.astype(np.float32)
            edt = "f4"
    elif case.get("i1") is not None:
        # real-data scale class: npts sorted samples by construction (no sort): sample i0 is the lower bound exactly, sample i1
        # the upper bound, those before / between / after lie strictly below / inside / above
        i0, i1 = case["i0"], case["i1"]

        def ramp(m, lo, hi):
            # m increasing samples strictly inside (lo, hi)
            return lo + (hi - lo) * (np.arange(1, m + 1) - rng.random(m) * 0.5) / (m + 1)
        xs = np.concatenate([ramp(i0, b0 - d, b0), [b0], ramp(i1 - i0 - 1, b0, b1), [b1], ramp(npts - i1 - 1, b1, b1 + d)])
        xs = np.clip(xs, b0 - d, b1 + d)
        xs[:i0] = np.minimum(xs[:i0], np.nextafter(b0, -np.inf))
        xs[i0 + 1:i1] = np.clip(xs[i0 + 1:i1], b0, b1)
        xs[i1 + 1:] = np.maximum(xs[i1 + 1:], np.nextafter(b1, np.inf))
    else:
        xs = np.concatenate([rng.uniform(b0 - d, b1 + d, npts), rng.uniform(b0, b1, npts),
                             b0 + d * rng.uniform(-1e-9, 1e-9, 4), b1 + d * rng.uniform(-1e-9, 1e-9, 4),
                             [b0, b1, (b0 + b1) / 2, b0 + d / 4, b0 - 1e6 * d, b1 + 1e6 * d,
                              np.nextafter(b0, -np.inf), np.nextafter(b1, np.inf)]])
    xs = np.sort(xs)
    if case["two_d"] and xs.size % 2 == 0:
        xs = xs.reshape(2, -1)
        ctx.label("cos_2d")
    xin = _lay(xs, lay, ro)  # xs stays behind as the copy the oracle works from
    if bk:
        bounds = _box([b0, b1], bk)
    else:
        bounds = np.array([b0, b1]) if case["arr"] else [b0, b1]
    ctx.label("cos_int" if case["int"] else "cos_float", "cos_bounds_" + type(bounds).__name__, "cos_x_" + xs.dtype.name,
              "cos_lay_" + lay, f"cos_rep{rep}", f"cos_form{form}")
    if ro:
        ctx.label("cos_readonly")
    xf = xs.astype(np.float64).ravel()
    below, above = xf <= b0, xf >= b1
    exp = _taper(xf, b0, b1)
    tol = COS_TOL if edt == "f8" else 64 * EPS["f4"]
    mono = COS_MONO_TOL if edt == "f8" else 4 * EPS["f4"]

    def check(y, which):
        try:
            ya = np.asarray(y)
            ok = ya.shape == xs.shape and ya.dtype.kind == "f"
        except Exception:  # noqa
            ok = False
        if not ctx.check(ok, "C18.cosine", lambda: f"output {type(y).__name__} shape {np.shape(y)} dtype "
                                                   f"{getattr(y, 'dtype', None)} for input {xs.shape} {xs.dtype} ({which})"):
            return
        yf = ya.astype(np.float64).ravel()
        if not ctx.check(bool(np.all(np.isfinite(yf))), "C18.cosine", lambda: f"non-finite values ({which})"):
            return
        ctx.check(np.all(np.abs(yf[below]) <= 1e-15), "C18.cosine", lambda: f"not 0 at or below the lower bound {b0} "
                                                                            f"(samples {xs.dtype}, {which})")
        ctx.check(np.all(np.abs(yf[above] - 1) <= 1e-15), "C18.cosine", lambda: f"not 1 at or above the upper bound {b1} "
                                                                                f"(samples {xs.dtype}, layout {lay}, {which})")
        ctx.check(np.all((yf >= 0) & (yf <= 1)), "C18.cosine", "values outside [0, 1]")
        if yf.size > 1:
            dmin = float(np.min(np.diff(yf)))
            if edt == "f8":
                ctx.stat("min_cos_diff", dmin)
            ctx.check(dmin >= -mono, "C18.cosine", lambda: f"not non-decreasing on sorted samples (step {dmin:.3g}), "
                                                          f"bounds {b0}, {b1} ({which})")
        err = float(np.max(np.abs(yf - exp)))
        ctx.stat("cosine_err" if edt == "f8" else "cosine_err_f4", err)
        ctx.check(err <= tol, "C18.cosine", lambda: f"differs from (1 - cos(pi (x-b0)/(b1-b0)))/2 by {err:.3g} (samples "
                                                    f"{xs.dtype}, layout {lay}, {which})")

    def make():
        if form == 1:
            return U.fcn_cosine(bounds, gpu=False)
        if form == 2:
            return U.fcn_cosine(bounds=bounds)
        return U.fcn_cosine(bounds)

    fcn = ctx.call("C18.cosine", make)
    if fcn is ctx.CRASH:
        return
    y = ctx.call("C18.cosine", fcn, xin)
    if y is not ctx.CRASH:
        check(y, "first call")
        if isinstance(y, np.ndarray):
            # voltage.fk multiplies the taper it gets in place
            ctx.check(y.flags.writeable, "C18.cosine_result_readonly",
                      "the taper is returned read-only (fk multiplies it in place)")
    if rep:
        _scribble(y if y is not ctx.CRASH else None)
        if rep == 2:
            ctx.call("C18.cosine", fcn, _lay((xs[..., ::-1] + 1).astype(xs.dtype), lay, ro))
        y2 = ctx.call("C18.cosine", fcn, xin)
        if y2 is not ctx.CRASH:
            check(y2, "same function, same samples object, second call")
        if rep == 2:
            y3 = ctx.call("C18.cosine", lambda: make()(xin))
            if y3 is not ctx.CRASH:
                check(y3, "second function built from the same bounds object")
    ctx.check(_same(xin, xs) and _same(bounds, [b0, b1]), "C18.cosine_input_mutated",
              lambda: f"fcn_cosine modified its {'samples' if not _same(xin, xs) else 'bounds'} ({xs.dtype}, layout {lay})")
