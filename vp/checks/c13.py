"""C13 - Extracted waveforms equal the source data and the saved files agree row by row."""
import collections

import numpy as np
from hypothesis import strategies as st

from vp import sut
from vp.gens import meta as gm, recording as rec, weighted
from vp.oracles import calib

ID = "C13"
LEVEL = "exploration"
RULE = ("Case = recording (flat float32 / flat int16 opened with explicit nc/ns/fs/dtype, or generated SpikeGLX "
        "metadata + int16 .bin/.cbin with h taken from the reader; 16-96 channels + sync, ns 3000-40000, content from a "
        "seed) x geometry (NP1 / NP2 / 4-shank / ultra grids: dense, sparse or shuffled channel order) x sorted spike "
        "train built per unit (0 / 1 / fewer / exactly / more than max_wf valid spikes; spikes on both validity limits, "
        "on and around chunk boundaries, duplicated across units, first spike valid or not, peak channels at both probe "
        "ends) x two (chunk size 500-10000, 1-8 workers) configurations at one seed x loader queries x an in-memory "
        "sub-case (radius, window offset/length, spikes on both array ends). Oracle: own neighbour table (integer "
        "squared distances, ascending, padded with nc); every saved row == source[sample-offset:sample-offset+length, "
        "neighbours].T bit for bit with NaN padding; waveform_index == row; channel map == neighbour row; templates == "
        "nanmedian (float64) of the expected rows per cluster within 2^-23 relative; per unit count == min(max_wf, "
        "#valid) and rows are a sub-multiset of the unit's valid (sample, channel) pairs; both configurations give "
        "identical files; load_waveforms(labels, indices) == saved rows selected by cluster and rank. Non-trivial = "
        ">= 2 chunks AND a selected spike within one window length of an interior chunk boundary AND a unit with more "
        "than max_wf valid spikes. Distinct = distinct case hash. Dimensions drawn on top (fields dims / ldims / arr.*, "
        "absent in older corpus cases): OPTIONS - chunksize_samples / n_jobs / max_wf (256) / reader_kwargs / scratch_dir "
        "(last run only) / loader trough_offset left at their defaults, h given explicitly for metadata recordings (the "
        "file's geometry, or another one which then defines the neighbourhoods), channel_labels given, wfs_dtype float32 "
        "/ float16 / float64 (saved dtype float32 or the requested one, values compared after the same cast), "
        "load_waveforms(flatten=True), extract_wfs_array(verbose=True), bin_file / loader directory as str; RE-USE - in a "
        "quarter of the cases the first configuration writes into a directory that already holds an earlier extraction "
        "with a larger max_wf and another seed (optionally read by a loader first), a second WaveformsLoader on the same "
        "files, the first query repeated after the others and after the caller overwrote what it had received, "
        "make_channel_index asked for other radius / padding on the same geometry object and then for the first table "
        "again (after the caller overwrote it), extract_wfs_array called with other spikes of the same shape and then "
        "again with the same objects (the first result must not change); ARGUMENTS - spike vectors, geometry, traces, "
        "spike table and neighbour table compared with copies after every call, read-only arrays in a third of the "
        "cases; LAYOUT / TYPE - spike vectors as strided or reversed views, geometry h as float64 / float32 / int64, "
        "make_channel_index geometry C / Fortran / transposed / strided / float32 / int64, extract_wfs_array traces C / "
        "transposed / row- or column-strided / float32 / float64 / int16 (+NaN row added by the function), sample and "
        "peak-channel columns int64 / int32 / uint32 / int16 / uint8 / uint64, table index offset or shuffled, neighbour "
        "table int32 / Fortran-ordered, loader labels / indices as array, list, tuple, int32, uint64. REAL-DATA SCALE (field "
        "scale, labels scale_*; ~1 % of the cases file level, ~3 % in memory): (file) a flat int16 / float32 recording of 2^20+200 .. 1.3e6 samples (a "
        "quarter: beyond 2e6 or 2^21; length optionally a multiple of the chunk size +-1) x 4-8 channels, a train of more "
        "than 10^6 / 2^20 spikes anywhere in the file spread over 1-60 units plus up to 60 special units of <= max_wf spikes each "
        "(so that all of them are selected): every boundary offset around each multiple of 2^20 and 10^6 and around the chunk "
        "seams of both configurations on either side of it and the first / last seam, one spike "
        "exactly on every chunk seam of the first configuration (up to 450 seams), seams and multiples of 2^16 / 10^5 at a "
        "boundary offset, both validity limits; chunk sizes 500-10000 incl. 1000 / 1024 / 4096 / 8192 / 10000 (up to 2600 "
        "chunks), same oracle as above with the membership test on integer keys; (array) extract_wfs_array on 4-8 x "
        "2^20..2^21+7e4 samples or 1-2 x (2^24 + 300..2^17) samples, float32 with the NaN row / float32 or int16 with "
        "add_nan_trace, C or transposed, 2^16+1 .. 2^17+3000 sorted spikes: both ends, every position within one window of "
        "the multiples of 2^20 / 10^6, boundary offsets around the multiples of 2^16 / 10^5, random elsewhere; expected "
        "stack by NumPy fancy indexing compared bit for bit in blocks of 4096 rows. Non-trivial (scale) = a selected / "
        "extracted window holds a multiple of 2^20 or 10^6 (array: and more than 2^16 spikes).")
EXHAUSTIVE_NOTE = ("every spike offset within +-130 samples of the first, second and last chunk boundary, every sample of "
                   "the first and the last 300 samples of the file, for a fixed list of chunk sizes (see CHUNKS_ENUM) on "
                   "one geometry; everything else (geometries, unit sizes, other chunk sizes, workers, seeds) is sampled")
ASSUMPTIONS = [
    "spike trains are sorted by sample (extract_wfs_cbin locates the spikes of a chunk with searchsorted); ties in any order",
    "at least one spike of the train is valid (an extraction with nothing to extract is not generated)",
    "preprocess_steps=[] so that equality with the source is exact; source traces of int16/metadata recordings are "
    "what an independent spikeglx.Reader returns (its calibration is C01's subject), of float32 recordings the array "
    "written by the harness",
    "validity is strict on both sides as the property states: offset < sample < ns - (length - offset)",
    "the selection seed is always an integer (seed=None draws OS entropy: same code path, but a case would not replay)",
    "worker pools are joblib threads; a small loky (process) subset runs in the thorough tier only",
    "in-memory sub-case: windows touching the first sample are generated, windows ending on the last sample are not "
    "(extract_wfs_array asserts strictly)",
    "templates of units without any valid spike: only rows of clusters present in the table are compared (table order)",
    "input kinds the unchanged tree rejects are outside the domain: spike vectors as lists or pandas Series, output_dir "
    "as str, geometry / traces / neighbour table as lists, uint64 or float sample columns for extract_wfs_array",
    "wfs_dtype: the unchanged tree ignores it and saves float32; both float32 and the requested type are accepted",
    "scratch_dir is left at its default only in the last extraction of a case (with a .cbin the default form removes the "
    ".meta file next to it together with the temporary .bin - not part of this property)",
    "loader labels are passed in ascending order (the order of the returned rows for unsorted labels is not documented)",
    "objects returned by make_channel_index / extract_wfs_array / load_waveforms belong to the caller: overwriting them "
    "must not change later answers",
    "real-data scale class: flat recordings only (a SpikeGLX file of 16+ channels x 10^6 samples and its decompressed copy "
    "exceed the scratch budget); sample positions stop at 2^24 + 2^17 in memory and 2^21 + 2e4 in files (10^8 samples do "
    "not fit the 1 GB / 50 MB budget of a case), spike counts at 1.3e6 (files) and 1.3e5 (in memory, one returned stack)",
]
BUDGET = {"quick": 320, "thorough": 9000}
SHRINK = {"quick": False, "thorough": True}
WALL_CAP = {"quick": 600, "thorough": 3000}
CHUNKS_ENUM = {"quick": [500, 777, 3000], "thorough": [500, 501, 777, 1000, 2048, 3000, 4999, 10000]}

TROUGH, LENGTH = 42, 128
_GEN_OF = {"np1": "3B2", "np2": "NP2.1", "np24": "NP2.4", "ultra": "NPultra"}
_GRID_LEN = {"np1": 960, "np2": 1280, "np24": 5120, "ultra": 384}


# ---------------------------------------------------------------------------------------------------
# geometry (harness side)

def _flat_geometry(g):
    """Integer site coordinates (um) of the n channels of a flat recording, in channel order."""
    kind, n = g["kind"], g["n"]
    if kind == "np24":
        grid = [(s, c, r) for r in range(640) for s in range(4) for c in range(2)]
    else:
        grid = gm.grid(_GEN_OF[kind])
    rng = np.random.default_rng(g["gseed"])
    start = g["start"]
    if g["layout"] == "dense":
        idx = start + np.arange(n)
    else:
        span = min(len(grid) - start, 3 * n)
        idx = start + rng.choice(span, size=n, replace=False)
        if g["layout"] == "sparse":
            idx = np.sort(idx)
    x = np.zeros(n, dtype=np.int64)
    y = np.zeros(n, dtype=np.int64)
    for k, i in enumerate(idx):
        s, c, r = grid[int(i)]
        xx, yy, _, _ = calib.site_xy_rc(_GEN_OF[kind], s, c, r)
        x[k] = int(xx) + (250 * s if kind == "np24" else 0)
        y[k] = int(yy)
    return x, y


def _neighbour_lists(x, y, r2):
    """Ascending channel indices within the radius (squared radius r2), from exact integer arithmetic."""
    xi = [int(round(float(v))) for v in x]
    yi = [int(round(float(v))) for v in y]
    n = len(xi)
    out = []
    for c in range(n):
        out.append([j for j in range(n) if (xi[j] - xi[c]) ** 2 + (yi[j] - yi[c]) ** 2 <= r2])
    return out


def _neighbour_table(lists, pad):
    nn = max(len(v) for v in lists)
    t = np.full((len(lists), nn), pad, dtype=np.int64)
    for c, v in enumerate(lists):
        t[c, :len(v)] = v
    return t


# ---------------------------------------------------------------------------------------------------
# spike trains (harness side, deterministic function of the case)

def _n_channels(case):
    return case["geom"]["n"] if case["mode"].startswith("flat") else case["spec"]["n"]


def _valid_range(ns, off, length):
    return off + 1, ns - (length - off) - 1  # inclusive bounds of valid samples


# real-data scale (field "scale", absent in ordinary cases): the blocks a batching implementation is likely to use
_BIG_BLOCKS = (2 ** 20, 10 ** 6)
_ROUND_STEPS = (2 ** 16, 10 ** 5)


def _big_seams(ns):
    """Multiples of 2^20 and 10^6 inside a recording of ns samples."""
    return sorted({int(m) for b in _BIG_BLOCKS for m in range(b, ns, b)})


def _scale_positions(case):
    """Special spike positions of a scale-file case, most important first: every boundary offset around the multiples of
    2^20 / 10^6 and around the chunk seams (both configurations) next to them, a spike exactly on every chunk seam of the
    first configuration (all seams, or the ones next to the big
    blocks and file ends + a random subset when there are more than sc['max_seams']), some seams at a boundary offset, the
    multiples of 2^16 / 10^5 and one boundary offset next to each."""
    sc = case["scale"]
    ns = case["ns"]
    off, length = case["win"]
    rng = np.random.default_rng(sc["pseed"])
    offs = np.array(_bnd_offsets(off, length), dtype=np.int64)
    big = _big_seams(ns)
    chunk = int(case["runs"][0]["chunk"])
    # where the two grids meet: the chunk seams on either side of a big block boundary, of both configurations (all in a
    # handful of chunks, so cheap), and the first / last seam
    meet = set(big)
    for run in case["runs"]:
        ck = int(run["chunk"])
        last = (ns - 1) // ck
        meet |= {q * ck for b in big for q in (b // ck, b // ck + 1) if 1 <= q <= last}
        meet |= {q * ck for q in (1, last) if 1 <= q <= last}
    top = np.concatenate([m + offs for m in sorted(meet)])
    pos = top[rng.permutation(top.size)].tolist()
    k = np.arange(1, (ns - 1) // chunk + 1, dtype=np.int64)
    if k.size > sc["max_seams"]:
        near = {int(min(max(b // chunk + e, 1), k[-1])) for b in big for e in (0, 1)} | {1, int(k[-1])}
        rest = rng.permutation(k)[:max(0, sc["max_seams"] - len(near))]
        k = np.unique(np.r_[np.array(sorted(near), dtype=np.int64), rest])
    pos += (k * chunk).tolist()
    if k.size:
        sub = rng.permutation(k)[:60]
        pos += (sub * chunk + rng.choice(offs, size=sub.size)).tolist()
    for step in _ROUND_STEPS:
        m = np.arange(step, ns, step, dtype=np.int64)
        pos += m.tolist()
        pos += (m + rng.choice(offs, size=m.size)).tolist()
    pos += [off + 1, ns - (length - off) - 1, off, ns - (length - off)]  # both validity limits, valid and not
    return [int(min(max(p, 0), ns - 1)) for p in pos]


def _scale_units(case):
    """The special positions of a scale-file case as units of at most max_wf valid spikes each (so that every one of them
    is selected), in the format of case['units']."""
    sc = case.get("scale")
    if not sc or sc.get("kind") != "file":
        return []
    ns = case["ns"]
    off, length = case["win"]
    lo, hi = _valid_range(ns, off, length)
    max_wf = case["max_wf"]
    pos = _scale_positions(case)[:sc["max_special_units"] * max_wf]
    rng = np.random.default_rng(sc["pseed"] ^ 0x9e3779b9)
    pos = [pos[i] for i in rng.permutation(len(pos))]
    units = []
    for j in range(0, len(pos), max_wf):
        part = pos[j:j + max_wf]
        units.append({"id": sc["special_id0"] + len(units), "target": sum(1 for p in part if lo <= p <= hi), "fixed": part,
                      "chan": {"mode": "any", "c": 0}, "rseed": int(sc["pseed"]) + 1 + len(units)})
    return units


def _scale_bulk(case):
    """The bulk of the spike train of a scale-file case: sc['nbulk'] spikes anywhere in the file (valid or not) spread over
    sc['nbu'] units and all channels. None for ordinary cases."""
    sc = case.get("scale")
    if not sc or sc.get("kind") != "file":
        return None
    rng = np.random.default_rng(sc["bseed"])
    n = sc["nbulk"]
    s = rng.integers(0, case["ns"], size=n, dtype=np.int64)
    u = sc["bulk_id0"] + sc["bulk_step"] * rng.integers(0, sc["nbu"], size=n, dtype=np.int64)
    c = rng.integers(0, _n_channels(case), size=n, dtype=np.int64)
    return s, u, c


def _unit_ids(case):
    """Ids the loader queries index into: the units of the case, then (scale-file cases) the special and the bulk units."""
    ids = [un["id"] for un in case["units"]]
    sc = case.get("scale")
    if sc and sc.get("kind") == "file":
        ids += [un["id"] for un in _scale_units(case)]
        ids += [sc["bulk_id0"] + sc["bulk_step"] * k for k in range(sc["nbu"])]
    return ids


def _valid_counts(u, valid):
    """(unit ids ascending, number of valid spikes of each) - vectorised, the trains of the scale class hold > 10^6 spikes."""
    ids, inv = np.unique(u, return_inverse=True)
    return ids, np.bincount(inv.reshape(-1)[valid], minlength=ids.size)


def _build_spikes(case):
    """Returns (samples, clusters, channels) sorted by sample, int64."""
    ns = case["ns"]
    off, length = case["win"]
    nch = _n_channels(case)
    lo, hi = _valid_range(ns, off, length)
    per_unit = []
    rows_s, rows_u, rows_c = [], [], []
    bulk = _scale_bulk(case)
    if bulk is not None:
        rows_s.append(bulk[0])
        rows_u.append(bulk[1])
        rows_c.append(bulk[2])
    for u in list(case["units"]) + _scale_units(case):
        rng = np.random.default_rng(u["rseed"])
        cand = [int(v) for v in u["fixed"]]
        dj = u.get("dup_from")
        if dj is not None and dj < len(per_unit) and len(per_unit[dj]):
            srcs = per_unit[dj]
            take = rng.permutation(len(srcs))[:u["n_dup"]]
            cand += [int(srcs[i]) for i in take]
        cand = np.clip(np.array(cand, dtype=np.int64), 0, ns - 1)
        ok = (cand >= lo) & (cand <= hi)
        v = cand[ok][:u["target"]]
        inv = cand[~ok]
        nrand = u["target"] - v.size
        r = rng.integers(lo, hi + 1, size=nrand) if nrand > 0 else np.zeros(0, dtype=np.int64)
        s = np.concatenate([v, inv, r]).astype(np.int64)
        ch = u["chan"]
        if ch["mode"] == "fixed":
            c = np.full(s.size, ch["c"], dtype=np.int64)
        elif ch["mode"] == "jitter":
            c = np.clip(ch["c"] + rng.integers(-3, 4, size=s.size), 0, nch - 1)
        else:
            c = rng.integers(0, nch, size=s.size)
        per_unit.append(s)
        rows_s.append(s)
        rows_u.append(np.full(s.size, u["id"], dtype=np.int64))
        rows_c.append(np.asarray(c, dtype=np.int64))
    s = np.concatenate(rows_s)
    u = np.concatenate(rows_u)
    c = np.concatenate(rows_c)
    perm = np.random.default_rng(case["tie_seed"]).permutation(s.size)
    s, u, c = s[perm], u[perm], c[perm]
    order = np.argsort(s, kind="stable")
    return s[order], u[order], c[order]


# ---------------------------------------------------------------------------------------------------
# strategies

_ST_CHUNK = st.one_of(st.sampled_from([500, 1000, 3000, 10000]), st.integers(500, 10000), st.integers(500, 2500))


def _bnd_offsets(off, length):
    post = length - off
    return sorted({-length - 1, -length, -length + 1, -post - 1, -post, -post + 1, -off - 1, -off, -off + 1, -1, 0, 1,
                   off - 1, off, off + 1, post - 1, post, post + 1, length - 1, length, length + 1})


@st.composite
def _special(draw, ns, chunks, off, length, lead_invalid, only_invalid=False):
    lo, hi = _valid_range(ns, off, length)
    kinds = ["ihi"] + (["ilo"] if lead_invalid else [])
    if not only_invalid:
        kinds += ["lo", "hi", "bnd", "bnd", "bnd"]
    k = draw(st.sampled_from(kinds))
    if k == "lo":
        v = lo + draw(st.integers(0, 2))
    elif k == "hi":
        v = hi - draw(st.integers(0, 2))
    elif k == "ilo":
        v = draw(st.one_of(st.integers(0, off), st.sampled_from([0, off])))
    elif k == "ihi":
        v = draw(st.one_of(st.integers(hi + 1, ns - 1), st.sampled_from([hi + 1, ns - 1])))
    else:
        chunk = draw(st.sampled_from(chunks))
        kmax = max(1, (ns - 1) // chunk)
        kk = draw(st.integers(1, kmax))
        v = kk * chunk + draw(st.sampled_from(_bnd_offsets(off, length)))
    v = int(min(max(v, 0), ns - 1))
    if not lead_invalid and v < lo:
        v = lo
    return v


@st.composite
def _array_case(draw):
    if draw(st.booleans()):
        off, length = TROUGH, LENGTH
    else:
        length = draw(st.one_of(st.integers(1, 160), st.sampled_from([1, 2, 128])))
        off = draw(st.integers(0, length - 1))
    rk = draw(st.sampled_from(["num", "num", "pair", "default"]))
    if rk == "num":
        if draw(st.booleans()):
            v = draw(st.integers(0, 600)) / 2.0
        else:
            v = float(draw(st.sampled_from([0, 15, 20, 30, 32, 40, 60, 100, 160, 200, 250, 400])))
        radius = {"t": "num", "v": v}
    elif rk == "pair":
        radius = {"t": "pair", "i": draw(st.integers(0, 95)), "j": draw(st.integers(0, 95))}
    else:
        radius = {"t": "default"}
    a = {"off": off, "len": length, "radius": radius, "extra": draw(st.integers(1, 1200)), "m": draw(st.integers(1, 16)),
         "edges": draw(st.booleans()), "nan_row": draw(st.booleans()), "f64": draw(st.booleans()),
         "pad": draw(st.sampled_from([None, None, -1])), "seed": draw(st.integers(0, 2 ** 32 - 1))}
    # dimensions: layout / dtype / read-only of every argument, re-use of the same argument objects, verbose option
    a["geom_kind"] = draw(st.sampled_from(["c64", "c64", "f_order", "transposed", "strided", "f32", "int"]))
    a["geom_ro"] = draw(st.sampled_from([False, False, True]))
    a["ci_seq"] = draw(st.sampled_from([True, True, False]))
    a["arr_layout"] = draw(st.sampled_from(["c", "c", "t", "t", "strided_rows", "strided_cols"]))
    a["arr_ro"] = draw(st.sampled_from([False, False, True]))
    a["arr_int16"] = a["nan_row"] and draw(st.sampled_from([False, False, False, True]))
    a["nb_kind"] = draw(st.sampled_from(["int64", "int64", "int32", "f_order", "readonly"]))
    a["df_dt"] = [draw(st.sampled_from(["int64", "int64", "int32", "uint32"])),
                  draw(st.sampled_from(["int64", "int64", "int32", "int16", "uint8", "uint64"]))]
    a["df_index"] = draw(st.sampled_from(["range", "range", "offset", "shuffled"]))
    a["verbose"] = draw(st.sampled_from([False, False, False, True]))
    a["repeat"] = draw(st.sampled_from([True, True, False]))
    return a


@st.composite
def _case(draw, tier):
    mode = draw(st.sampled_from(["flat32"] * 5 + ["flat16"] * 2 + ["meta_bin", "meta_cbin", "meta_cbin"]))
    ns = draw(st.one_of(st.integers(3000, 9000), st.integers(3000, 40000)))
    wk = draw(st.sampled_from(["default"] * 11 + ["custom"]))
    if wk == "default":
        off, length = TROUGH, LENGTH
    else:
        sub = draw(st.sampled_from(["off", "len", "both"]))
        length = LENGTH if sub == "off" else draw(st.integers(2, 160))
        off = TROUGH if (sub == "len" and length > TROUGH) else draw(st.integers(0, length - 1))
        if (off, length) == (TROUGH, LENGTH):
            off = 30
    case = {"mode": mode, "ns": ns, "win": [off, length], "data_seed": draw(st.integers(0, 2 ** 32 - 1))}
    if mode.startswith("flat"):
        kind = draw(st.sampled_from(["np1", "np1", "np1", "np2", "np2", "np24", "ultra"]))
        n = draw(st.one_of(st.integers(16, 96), st.integers(45, 96)))
        case["geom"] = {"kind": kind, "n": n, "layout": draw(st.sampled_from(["dense", "dense", "sparse", "shuffled"])),
                        "start": draw(st.integers(0, _GRID_LEN[kind] - 3 * n)), "gseed": draw(st.integers(0, 2 ** 32 - 1))}
        nch = n
    else:
        spec = draw(gm.st_spec(gens=("3A", "3B2", "NP2.1", "NP2.4"), n_range=(16, 96), allow_lf=False,
                               allow_nosync=False, ns_range=(ns, ns)))
        case["spec"] = spec
        case["sort"] = draw(st.sampled_from([True, True, False]))
        case["cchunk"] = draw(st.sampled_from([1000, 3000, 7000, 30000]))
        nch = spec["n"]
    # documented options in their default form: chunksize_samples (3000), n_jobs, max_wf (256) left out of the call
    omit_chunk = [draw(st.integers(0, 7)) == 0 for _ in range(2)]
    chunks = [3000 if omit_chunk[k] else draw(_ST_CHUNK) for k in range(2)]
    loky = tier == "thorough" and draw(st.integers(0, 79)) == 0
    case["runs"] = [{"chunk": chunks[0], "jobs": draw(st.integers(1, 8)), "backend": "threading"},
                    {"chunk": chunks[1], "jobs": draw(st.integers(2, 3) if loky else st.integers(1, 8)),
                     "backend": "loky" if loky else "threading"}]
    for k, run in enumerate(case["runs"]):
        if omit_chunk[k]:
            run["omit_chunk"] = True
        if run["backend"] == "threading" and draw(st.integers(0, 7)) == 0:
            run["omit_jobs"] = True
    omit_max_wf = draw(st.integers(0, 15)) == 0
    max_wf = 256 if omit_max_wf else draw(st.one_of(st.integers(1, 6), st.integers(1, 24)))
    case["max_wf"] = max_wf
    dims = {"path": draw(st.sampled_from(["path", "path", "str"])),
            "spk": draw(st.sampled_from(["contig", "contig", "strided", "negstride"])),
            "ro": draw(st.sampled_from([False, False, True])),
            "wfs_dtype": draw(st.sampled_from([None, None, None, "float32", "float16", "float64"])),
            "chan_labels": draw(st.sampled_from([False, False, False, True])),
            "check_args": True}
    if omit_max_wf:
        dims["omit_max_wf"] = True
    if mode.startswith("flat"):
        dims["h"] = draw(st.sampled_from(["f64", "f64", "f32", "int"]))
    else:
        dims["h"] = draw(st.sampled_from(["file", "file", "same", "other", "other"]))
        if dims["h"] == "other":
            kind = draw(st.sampled_from(["np1", "np2", "np24", "ultra"]))
            dims["hgeom"] = {"kind": kind, "n": nch, "layout": draw(st.sampled_from(["dense", "sparse", "shuffled"])),
                             "start": draw(st.integers(0, _GRID_LEN[kind] - 3 * nch)), "gseed": draw(st.integers(0, 2 ** 32 - 1))}
        if case["sort"]:
            dims["omit_reader_kwargs"] = draw(st.sampled_from([False, False, True]))
        if mode == "meta_cbin":
            dims["omit_scratch_last"] = draw(st.sampled_from([False, False, True]))
    if draw(st.integers(0, 3)) == 0:
        # an earlier, larger extraction into the output directory of the first configuration
        dims["prerun"] = {"add": draw(st.integers(1, 20)), "seed": draw(st.integers(0, 2 ** 32 - 1)),
                          "loader": draw(st.booleans())}
    case["dims"] = dims
    # never None: default_rng(None) takes OS entropy and a replay would not be a function of the case any more
    case["seed"] = draw(st.one_of(st.integers(0, 3), st.integers(0, 2 ** 32 - 1)))
    lead_invalid = draw(st.booleans())
    nunits = draw(st.integers(1, 2 if omit_max_wf else 6))
    ids = draw(st.lists(st.one_of(st.integers(0, 12), st.integers(0, 100000)), min_size=nunits, max_size=nunits,
                        unique=True))
    units = []
    for k in range(nunits):
        classes = ["one", "fewer", "exact", "more", "more", "more"] + (["zero"] if k > 0 else [])
        cls = draw(st.sampled_from(classes))
        if cls == "zero":
            target = 0
        elif cls == "one":
            target = 1
        elif cls == "fewer":
            target = draw(st.integers(1, max(1, max_wf - 1)))
        elif cls == "exact":
            target = max_wf
        else:
            target = max_wf + draw(st.one_of(st.integers(1, 3), st.integers(1, 40)))
        nsp = draw(st.integers(0, 5))
        fixed = [draw(_special(ns, chunks, off, length, lead_invalid)) for _ in range(nsp)]
        if cls == "zero":
            fixed = [draw(_special(ns, chunks, off, length, lead_invalid, only_invalid=True))
                     for _ in range(draw(st.integers(1, 3)))]
        cm = draw(st.sampled_from(["fixed", "fixed", "jitter", "any"]))
        c = draw(st.one_of(st.sampled_from([0, nch - 1]), st.integers(0, nch - 1)))
        unit = {"id": ids[k], "target": target, "fixed": fixed, "chan": {"mode": cm, "c": c},
                "rseed": draw(st.integers(0, 2 ** 32 - 1))}
        if k > 0 and cls != "zero" and draw(st.booleans()):
            unit["dup_from"] = draw(st.integers(0, k - 1))
            unit["n_dup"] = draw(st.integers(1, 5))
        units.append(unit)
    case["units"] = units
    case["tie_seed"] = draw(st.integers(0, 2 ** 32 - 1))
    case["dtypes"] = [draw(st.sampled_from(["int64", "int64", "uint64", "int32"])),
                      draw(st.sampled_from(["int64", "int64", "int32", "uint32"])),
                      draw(st.sampled_from(["int64", "int64", "int32", "int16"]))]
    queries = []
    for _ in range(2):
        lab = draw(st.one_of(st.none(), st.lists(st.integers(0, nunits - 1), min_size=1, max_size=nunits, unique=True)))
        ind = draw(st.one_of(st.none(), st.lists(st.integers(0, max_wf + 1), min_size=1, max_size=6, unique=True)))
        queries.append({"labels": lab, "indices": ind,
                        "lab_kind": draw(st.sampled_from(["array", "array", "list", "tuple", "int32", "uint64"])),
                        "ind_kind": draw(st.sampled_from(["list", "list", "array", "tuple", "int32", "uint64"])),
                        "flatten": draw(st.sampled_from([False, False, True]))})
    case["queries"] = queries
    case["ldims"] = {"dir": draw(st.sampled_from(["path", "path", "str"])), "omit_trough": draw(st.booleans()),
                     "twice": draw(st.booleans()), "scribble": draw(st.booleans())}
    case["arr"] = draw(_array_case())
    return case


# ---------------------------------------------------------------------------------------------------
# real-data scale (rare): a recording of more than 2^20 samples with a train of more than 2^20 spikes, or an in-memory array
# of up to 2^24 samples with more than 2^16 spikes; spikes on and next to the multiples of 2^20 / 10^6 / 2^16 / 10^5 and on
# every chunk seam. A batching change introduces a block size the generator cannot know; small inputs never cross it.

_SCALE_CHUNKS = [500, 1000, 1024, 2048, 2500, 3000, 4096, 5000, 8192, 10000]


def _st_geom_small(draw, n):
    kind = draw(st.sampled_from(["np1", "np1", "np2", "np24", "ultra"]))
    return {"kind": kind, "n": n, "layout": draw(st.sampled_from(["dense", "dense", "sparse", "shuffled"])),
            "start": draw(st.integers(0, _GRID_LEN[kind] - 3 * n)), "gseed": draw(st.integers(0, 2 ** 32 - 1))}


@st.composite
def _scale_file_case(draw, tier):
    mode = draw(st.sampled_from(["flat16", "flat16", "flat32"]))
    two_blocks = mode == "flat16" and draw(st.integers(0, 3)) == 0  # long enough to hold 2 * 10^6 (and 2^21)
    omit_chunk = draw(st.integers(0, 3)) == 0
    chunk_a = 3000 if omit_chunk else draw(st.one_of(st.sampled_from(_SCALE_CHUNKS), st.integers(500, 10000)))
    chunk_b = draw(st.one_of(st.sampled_from([5000, 8192, 10000]), st.integers(5000, 10000)))  # the cheaper configuration
    if two_blocks:
        ns = draw(st.one_of(st.integers(2 * 10 ** 6 + 200, 2 * 10 ** 6 + 90000), st.integers(2 ** 21 + 200, 2 ** 21 + 20000)))
    else:
        ns = draw(st.one_of(st.integers(2 ** 20 + 200, 1300000),
                            st.sampled_from([2 ** 20 + 2 ** 10, 2 ** 20 + 2 ** 16, 1100000, 1200000])))
    align = draw(st.sampled_from([None, None, None, 0, 1, -1]))
    if align is not None:  # the last chunk is full / holds one sample / misses one
        ns = -(-ns // chunk_a) * chunk_a + align
    if draw(st.integers(0, 3)) > 0:
        off, length = TROUGH, LENGTH
    else:
        length = draw(st.integers(16, 160))
        off = draw(st.integers(0, length - 1))
    n = draw(st.integers(4, 5 if two_blocks else 6 if mode == "flat32" else 8))
    case = {"mode": mode, "ns": ns, "win": [off, length], "data_seed": draw(st.integers(0, 2 ** 32 - 1)),
            "geom": _st_geom_small(draw, n)}
    case["runs"] = [{"chunk": chunk_a, "jobs": draw(st.integers(1, 3)), "backend": "threading"},
                    {"chunk": chunk_b, "jobs": draw(st.integers(1, 2)), "backend": "threading"}]
    if omit_chunk:
        case["runs"][0]["omit_chunk"] = True
    omit_max_wf = draw(st.integers(0, 7)) == 0
    max_wf = 256 if omit_max_wf else draw(st.one_of(st.integers(2, 12), st.integers(2, 300)))
    case["max_wf"] = max_wf
    dims = {"path": draw(st.sampled_from(["path", "path", "str"])),
            "spk": draw(st.sampled_from(["contig", "contig", "strided", "negstride"])),
            "ro": draw(st.sampled_from([False, False, True])),
            "wfs_dtype": draw(st.sampled_from([None, None, None, "float32", "float16", "float64"])),
            "chan_labels": draw(st.sampled_from([False, False, False, True])),
            "check_args": True, "h": draw(st.sampled_from(["f64", "f64", "f32", "int"]))}
    if omit_max_wf:
        dims["omit_max_wf"] = True
    case["dims"] = dims
    case["seed"] = draw(st.one_of(st.integers(0, 3), st.integers(0, 2 ** 32 - 1)))
    nbu = draw(st.integers(1, max(1, min(60, 200 // max_wf))))  # the table costs O(units x spikes): 120 units at most
    bulk_first = draw(st.booleans())
    bulk_id0 = draw(st.sampled_from([0, 1, 7])) if bulk_first else 5000 + draw(st.integers(0, 100000))
    bulk_step = draw(st.sampled_from([1, 1, 3]))
    case["scale"] = {"kind": "file", "pseed": draw(st.integers(0, 2 ** 31 - 1)), "bseed": draw(st.integers(0, 2 ** 32 - 1)),
                     "nbulk": draw(st.one_of(st.integers(2 ** 20 + 1, 2 ** 20 + 5000), st.integers(10 ** 6 + 1, 1250000))),
                     "nbu": nbu, "bulk_id0": bulk_id0, "bulk_step": bulk_step,
                     "special_id0": (bulk_id0 + bulk_step * nbu + draw(st.integers(0, 5))) if bulk_first
                     else draw(st.integers(0, 1000)),
                     "max_seams": 450, "max_special_units": 60}
    case["units"] = []
    case["tie_seed"] = draw(st.integers(0, 2 ** 32 - 1))
    case["dtypes"] = [draw(st.sampled_from(["int64", "int64", "uint64", "int32"])),
                      draw(st.sampled_from(["int64", "int64", "int32", "uint32"])),
                      draw(st.sampled_from(["int64", "int64", "int32", "int16"]))]
    ntot = len(_unit_ids(case))
    queries = []
    for _ in range(2):
        lab = draw(st.one_of(st.none(), st.lists(st.integers(0, ntot - 1), min_size=1, max_size=4, unique=True)))
        ind = draw(st.one_of(st.none(), st.lists(st.integers(0, max_wf + 1), min_size=1, max_size=6, unique=True)))
        queries.append({"labels": lab, "indices": ind,
                        "lab_kind": draw(st.sampled_from(["array", "array", "list", "tuple", "int32", "uint64"])),
                        "ind_kind": draw(st.sampled_from(["list", "list", "array", "tuple", "int32", "uint64"])),
                        "flatten": draw(st.sampled_from([False, False, True]))})
    case["queries"] = queries
    case["ldims"] = {"dir": draw(st.sampled_from(["path", "path", "str"])), "omit_trough": draw(st.booleans()),
                     "twice": draw(st.booleans()), "scribble": draw(st.booleans())}
    case["arr"] = None
    return case


_ARR_BUDGET = {"given32": 70000000, "add32": 25000000, "add16": 25000000}  # elements of the returned stack (float32 / float64)


@st.composite
def _scale_array_case(draw):
    shape = draw(st.sampled_from(["wide", "wide", "long"]))
    if shape == "wide" and draw(st.integers(0, 2)) > 0:
        off, length = TROUGH, LENGTH
    else:
        length = draw(st.sampled_from([16, 32, 64, 82, 128]))
        off = draw(st.integers(0, length - 1))
    if shape == "wide":
        n = draw(st.integers(4, 8))
        ns = draw(st.one_of(st.integers(2 ** 20 + 300, 2 ** 21 + 70000),
                            st.sampled_from([2 ** 20 + 2 ** 16, 2 * 10 ** 6 + 1000, 2 ** 21 + 4096])))
        src = draw(st.sampled_from(["given32", "given32", "add32", "add16"]))
    else:  # beyond 2^24 samples (where float32 stops holding every integer), one or two channels
        n = draw(st.integers(1, 2))
        ns = 2 ** 24 + draw(st.integers(300, 2 ** 17))
        src = "given32"
    geom = _st_geom_small(draw, n)
    radius = draw(st.sampled_from([200, 200, 40, 25, 0]))
    x, y = _flat_geometry(geom)
    nn = max(len(v) for v in _neighbour_lists(x, y, radius * radius))
    if _ARR_BUDGET[src] // (nn * length) < 2 ** 16 + 1:
        src = "given32"
    want = draw(st.one_of(st.integers(2 ** 16 + 1, 2 ** 16 + 3000), st.integers(2 ** 16 + 1, 2 ** 17 + 3000),
                          st.integers(10 ** 5, 10 ** 5 + 3000)))
    return {"mode": "scale_array", "ns": ns, "win": [off, length], "data_seed": draw(st.integers(0, 2 ** 32 - 1)), "geom": geom,
            "scale": {"kind": "array", "shape": shape, "src": src, "radius": radius,
                      "m": min(want, _ARR_BUDGET[src] // (nn * length)), "sseed": draw(st.integers(0, 2 ** 32 - 1)),
                      "layout": draw(st.sampled_from(["c", "t", "t"])), "ro": draw(st.sampled_from([False, False, True])),
                      "df_dt": [draw(st.sampled_from(["int64", "int64", "int32", "uint32"])),
                                draw(st.sampled_from(["int64", "int64", "int16", "uint8"]))],
                      "df_index": draw(st.sampled_from(["range", "range", "offset", "shuffled"])),
                      "nb_kind": draw(st.sampled_from(["int64", "int64", "int32", "f_order"]))},
            "units": [], "arr": None}


def strategy(tier):
    # ~4 % of the cases are of the real-data scale: 1 % file level (3-5 s each, three times an ordinary case), 3 % in memory
    # (1-2 s each, the cost of an ordinary case)
    # (the rare branches sit in the middle of the index range: Hypothesis favours the ends of an integer range)
    main = _case(tier)
    return weighted((480, main), (10, _scale_file_case(tier)), (30, _scale_array_case()), (480, main))


# ---------------------------------------------------------------------------------------------------
# exhaustive part: every spike position around chunk boundaries and file ends

def enum_shards(tier):
    return [{"chunk": c, "tier": tier} for c in CHUNKS_ENUM[tier]]


def _enum_case(chunk, other, ns, positions, k):
    lo, hi = _valid_range(ns, TROUGH, LENGTH)
    positions = sorted(set(int(p) for p in positions if 0 <= p < ns))
    nvalid = sum(1 for p in positions if lo <= p <= hi)
    return {"mode": "flat32", "ns": ns, "win": [TROUGH, LENGTH], "data_seed": 1000 + k + chunk,
            "geom": {"kind": "np1", "n": 50, "layout": "dense", "start": 7, "gseed": 0},
            "runs": [{"chunk": chunk, "jobs": 1, "backend": "threading"}, {"chunk": other, "jobs": 4, "backend": "threading"}],
            "max_wf": max(nvalid, 1), "seed": 5,
            "units": [{"id": 3, "target": nvalid, "fixed": [10] + positions, "chan": {"mode": "any", "c": 0}, "rseed": 11 + k},
                      {"id": 1, "target": max(nvalid, 1) + 7, "fixed": [], "chan": {"mode": "fixed", "c": 49}, "rseed": 12 + k}],
            "tie_seed": k, "dtypes": ["int64", "int64", "int64"],
            "queries": [{"labels": None, "indices": None}, {"labels": [0], "indices": [0, 1, nvalid - 1]}],
            "arr": None}


def enum_cases(desc):
    chunk = desc["chunk"]
    other = 1234 if chunk != 1234 else 999
    ns = min(40000, 3 * chunk + 217)
    nb = (ns - 1) // chunk
    parts = [range(0, 301), range(ns - 300, ns)]
    for kb in sorted({1, 2, nb}):
        if 1 <= kb <= nb:
            parts.append(range(kb * chunk - 130, kb * chunk + 131))
    for k, p in enumerate(parts):
        yield _enum_case(chunk, other, ns, p, k)


# ---------------------------------------------------------------------------------------------------
# known findings (genuine defects of the unchanged tree; the search continues past them)

def _default_window(case):
    return list(case["win"]) == [TROUGH, LENGTH]


def known_first_spike(case, f):
    """Index table padded with 0 and 'remove initial zeros': a valid spike number 0 is dropped (or IndexError when
    nothing else is selected)."""
    if f.kind == "C13.unit_count.first_spike":
        return True
    if f.kind.startswith("C13.extract") and f.kind.endswith(":crash:IndexError@ibldsp/waveform_extraction.py:_make_wfs_table"):
        # all-zero index table: spike 0 is valid and it is the only spike selected (one valid spike in total, or
        # max_wf = 1 with a single unit holding valid spikes and the random choice falling on spike 0)
        s, u, c = _build_spikes(case)
        lo, hi = _valid_range(case["ns"], *case["win"])
        ok = (s >= lo) & (s <= hi)
        total = sum(min(case["max_wf"], int(np.sum(ok & (u == uid)))) for uid in np.unique(u))
        return bool(ok[0]) and total == 1
    return False


def known_window_ignored(case, f):
    """write_wfs_chunk does not forward trough_offset / spike_length_samples to extract_wfs_array."""
    if _default_window(case):
        return False
    if f.kind in ("C13.traces.window", "C13.templates.window", "C13.config_invariance.window"):
        return True
    # the crash surfaces in write_wfs_chunk / extract_wfs_array, or in extract_wfs_cbin when re-raised from a worker
    return (f.kind.startswith("C13.extract.window:crash:ValueError@ibldsp/waveform_extraction.py:")
            or f.kind.startswith("C13.extract.window:crash:AssertionError@ibldsp/waveform_extraction.py:"))


KNOWN = {"first_spike_dropped": known_first_spike, "window_params_ignored": known_window_ignored}


# ---------------------------------------------------------------------------------------------------
# in-memory sub-case: make_channel_index(radius) + extract_wfs_array(offset, length)

def _readonly(v):
    """What np.memmap(mode='r') hands out: the buffer (and so every view of it) refuses writes."""
    b = v
    while isinstance(getattr(b, "base", None), np.ndarray):
        b = b.base
    b.flags.writeable = False
    v.flags.writeable = False
    return v


def _geom_array(x, y, kind, ro):
    xf, yf = np.asarray(x, dtype=float), np.asarray(y, dtype=float)
    if kind == "f_order":
        g = np.asfortranarray(np.c_[xf, yf])
    elif kind == "transposed":
        g = np.vstack([xf, yf]).T
    elif kind == "strided":
        g = np.c_[xf, 0 * xf, yf, 0 * xf][:, ::2]
    elif kind == "f32":
        g = np.c_[xf, yf].astype(np.float32)
    elif kind == "int":
        g = np.c_[xf, yf].astype(np.int64)
    else:
        g = np.c_[xf, yf]
    return _readonly(g) if ro else g


def _trace_layout(G, kind, ro):
    """The same (rows, samples) values in another memory layout."""
    if kind == "t":  # what the readers hand over: transposed view of a (samples, channels) block
        v = np.ascontiguousarray(G.T).T
    elif kind == "strided_rows":
        big = np.zeros((2 * G.shape[0], G.shape[1]), dtype=G.dtype)
        big[::2] = G
        v = big[::2]
    elif kind == "strided_cols":
        big = np.zeros((G.shape[0], 2 * G.shape[1] + 1), dtype=G.dtype)
        big[:, 1::2] = G
        v = big[:, 1::2]
    else:
        v = G.copy()
    return _readonly(v) if ro else v


def _same_array(a, b):
    return np.shape(a) == np.shape(b) and np.array_equal(np.asarray(a), np.asarray(b), equal_nan=True)


def _array_level(case, ctx, x, y):
    a = case.get("arr")
    if not a:
        return
    import pandas as pd
    ut = sut.utils()
    wx = sut.waveform_extraction()
    nch = len(x)
    rd = a["radius"]
    if rd["t"] == "num":
        radius = float(rd["v"])
        r2 = radius * radius
    elif rd["t"] == "pair":
        i, j = rd["i"] % nch, rd["j"] % nch
        r2 = int((int(x[i]) - int(x[j])) ** 2 + (int(y[i]) - int(y[j])) ** 2)
        radius = float(np.sqrt(np.float64(r2)))
    else:
        radius, r2 = None, 200 * 200
    lists = _neighbour_lists(x, y, r2)
    pad = a["pad"]
    exp_ci = _neighbour_table(lists, nch if pad is None else pad)
    gk, gro = a.get("geom_kind", "c64"), bool(a.get("geom_ro", False))
    geom = _geom_array(x, y, gk, gro)
    geom0 = np.array(geom, copy=True)
    kw = {}
    if radius is not None:
        kw["radius"] = radius
    if pad is not None:
        kw["pad_val"] = pad
    ctx.label("arr_geom_" + gk, "arr_geom_readonly" if gro else "arr_geom_writeable")
    ci = ctx.call("C13.channel_index", ut.make_channel_index, geom, **kw)
    if ci is ctx.CRASH:
        return
    nn = exp_ci.shape[1]
    ctx.label("arr_radius_" + rd["t"], "arr_nn=1" if nn == 1 else ("arr_nn=all" if nn == nch else "arr_nn_mid"),
              "arr_padded" if any(len(v) < nn for v in lists) else "arr_unpadded")
    if not ctx.check(np.shape(ci) == exp_ci.shape and np.array_equal(ci, exp_ci), "C13.channel_index",
                     lambda: f"make_channel_index({gk} geometry, radius={radius}, pad_val={pad}) shape {np.shape(ci)} != "
                             f"ascending sites within the radius padded with {nch if pad is None else pad} (shape {exp_ci.shape})"):
        return
    if a.get("ci_seq", False):
        # the table handed out belongs to the caller: overwrite it, ask for another table of the same geometry object
        # (other radius, other padding), then repeat the first request
        ctx.label("arr_channel_index_sequence")
        try:
            if isinstance(ci, np.ndarray) and ci.flags.writeable:
                ci[...] = -9
        except Exception:  # noqa
            pass
        pad2 = -1 if pad is None else None
        rad2 = 150.5  # never a tie: squared distances are integers
        lists2 = _neighbour_lists(x, y, rad2 * rad2)
        kw2 = {"radius": rad2}
        if pad2 is not None:
            kw2["pad_val"] = pad2
        exp2 = _neighbour_table(lists2, nch if pad2 is None else pad2)
        c2 = ctx.call("C13.channel_index", ut.make_channel_index, geom, **kw2)
        if c2 is not ctx.CRASH:
            ctx.check(_same_array(c2, exp2), "C13.channel_index",
                      lambda: f"make_channel_index({gk} geometry, radius={rad2}, pad_val={pad2}) after a call with radius="
                              f"{radius}, pad_val={pad} on the same geometry differs from the sites within the radius")
        # the same radius, other padding (a cache keyed without the padding), then the first request again
        kw3 = dict(kw)
        kw3.pop("pad_val", None)
        if pad2 is not None:
            kw3["pad_val"] = pad2
        c3 = ctx.call("C13.channel_index", ut.make_channel_index, geom, **kw3)
        if c3 is not ctx.CRASH:
            ctx.check(_same_array(c3, _neighbour_table(lists, nch if pad2 is None else pad2)), "C13.channel_index_repeat",
                      lambda: f"make_channel_index(radius={radius}, pad_val={pad2}) after the same call with pad_val={pad}: "
                              f"table differs from the sites within the radius padded with {nch if pad2 is None else pad2}")
        c4 = ctx.call("C13.channel_index", ut.make_channel_index, geom, **kw)
        if c4 is not ctx.CRASH:
            ctx.check(_same_array(c4, exp_ci), "C13.channel_index_repeat",
                      lambda: f"make_channel_index(radius={radius}, pad_val={pad}) repeated on the same geometry object after "
                              f"calls with other radius / padding (first table overwritten by the caller) differs from the "
                              f"first answer")
        ctx.check(_same_array(geom, geom0), "C13.channel_index_args", "make_channel_index modified the geometry it was given")
    off, length = a["off"], a["len"]
    ns2 = length + a["extra"]
    rng = np.random.default_rng(a["seed"])
    dt = np.float64 if a["f64"] else np.float32
    arr = (rng.standard_normal((nch, ns2)) * 30).astype(dt)
    smin, smax = off, ns2 - (length - off) - 1
    s = np.sort(rng.integers(smin, smax + 1, size=a["m"]))
    if a["edges"]:
        s[0], s[-1] = smin, smax
        s = np.sort(s)
    p = rng.integers(0, nch, size=s.size)
    if a["edges"] and s.size >= 2:
        p[0], p[1] = 0, nch - 1
    int16 = bool(a.get("arr_int16", False)) and a["nan_row"]
    if int16:  # integer traces: only legitimate when the function appends the NaN row itself
        arr = np.round(arr * 100).astype(np.int16)
        dt = np.float64
    sdt, pdt = a.get("df_dt", ["int64", "int64"])
    dfi = a.get("df_index", "range")
    if dfi == "offset":  # what write_wfs_chunk passes: rows of a longer table
        index = np.arange(s.size) + 1000
    elif dfi == "shuffled":
        index = np.random.default_rng(a["seed"] ^ 0x5bd1).permutation(s.size)
    else:
        index = None
    df = pd.DataFrame({"sample": s.astype(sdt), "peak_channel": p.astype(pdt)}, index=index)
    df0 = df.copy(deep=True)
    nanrow = np.full((1, ns2), np.nan, dtype=arr.dtype if not int16 else np.float64)
    lay, aro = a.get("arr_layout", "c"), bool(a.get("arr_ro", False))
    given = _trace_layout(arr if a["nan_row"] else np.vstack([arr, nanrow]), lay, aro)
    given0 = np.array(given, copy=True)
    nbk = a.get("nb_kind", "int64")
    nbt0 = _neighbour_table(lists, nch)
    nbt = nbt0.astype(np.int32) if nbk == "int32" else np.asfortranarray(nbt0) if nbk == "f_order" else nbt0.copy()
    if nbk == "readonly":
        nbt = _readonly(nbt)
    kwa = {}
    if (off, length) != (TROUGH, LENGTH) or a["extra"] % 2:
        kwa = {"trough_offset": off, "spike_length_samples": length}
    if a.get("verbose", False):
        kwa["verbose"] = True
    ctx.label("arr_window_default" if (off, length) == (TROUGH, LENGTH) else "arr_window_custom",
              "arr_edges" if a["edges"] else "arr_inner", "arr_layout_" + lay, "arr_readonly" if aro else "arr_writeable",
              "arr_int16" if int16 else ("arr_float64" if a["f64"] else "arr_float32"), "arr_df_sample_" + sdt,
              "arr_df_peak_" + pdt, "arr_df_index_" + dfi, "arr_table_" + nbk,
              "arr_verbose" if a.get("verbose", False) else "arr_quiet")
    exp = np.full((s.size, nn, length), np.nan, dtype=dt)
    for i in range(s.size):
        nb = lists[int(p[i])]
        exp[i, :len(nb), :] = arr[nb, int(s[i]) - off:int(s[i]) - off + length]

    def _one(kind, frame):
        r = ctx.call(kind, wx.extract_wfs_array, given, frame, nbt, add_nan_trace=a["nan_row"], **kwa)
        if r is ctx.CRASH:
            return None
        if not ctx.check(isinstance(r, tuple) and len(r) == 3, kind, "extract_wfs_array did not return (wfs, cind, trough_offset)"):
            return None
        return r

    r = _one("C13.extract_array", df)
    if r is None:
        return
    wfs, cind, toff = r
    ctx.check(np.shape(wfs) == exp.shape and np.array_equal(wfs, exp, equal_nan=True), "C13.extract_array",
              lambda: f"extract_wfs_array(offset={off}, length={length}, traces {lay}/{given.dtype}) differs from "
                      f"arr[neighbours, s-off:s-off+len] (shape {np.shape(wfs)} vs {exp.shape}; samples {s[:5]}.., "
                      f"array length {ns2})")
    ctx.check(np.array_equal(cind, nbt0[p]) and toff == off, "C13.extract_array_info",
              "returned channel indices / trough offset differ from the request")
    if a.get("repeat", False):
        # same traces and table, other spikes of the same count (a buffer shared between calls, a polluted cache), then the
        # first request again with the very same argument objects
        ctx.label("arr_repeat")
        df2 = pd.DataFrame({"sample": s.astype(sdt), "peak_channel": p[::-1].astype(pdt)}, index=index)
        r2 = _one("C13.extract_array", df2)
        ctx.check(np.shape(wfs) == exp.shape and np.array_equal(wfs, exp, equal_nan=True), "C13.extract_array_repeat",
                  "the waveforms returned by extract_wfs_array changed when the function was called again with other spikes")
        r3 = _one("C13.extract_array", df)
        if r3 is not None:
            ctx.check(np.shape(r3[0]) == exp.shape and np.array_equal(r3[0], exp, equal_nan=True)
                      and np.array_equal(r3[1], nbt0[p]), "C13.extract_array_repeat",
                      lambda: f"extract_wfs_array called a second time with the same traces / table / neighbour objects "
                              f"(offset={off}, length={length}) differs from arr[neighbours, s-off:s-off+len]")
        del r2, r3
    try:
        same_df = bool(df.equals(df0)) and np.array_equal(df.index.to_numpy(), df0.index.to_numpy())
    except Exception:  # noqa
        same_df = False
    ctx.check(_same_array(given, given0) and _same_array(nbt, nbt0) and same_df, "C13.extract_array_args",
              "extract_wfs_array modified the traces, the spike table or the neighbour table it was given")


# ---------------------------------------------------------------------------------------------------
# file level

def _load_outputs(ctx, out, tag):
    import pandas as pd
    try:
        table = pd.read_parquet(out / "waveforms.table.pqt")
        traces = np.load(out / "waveforms.traces.npy")
        channels = np.load(out / "waveforms.channels.npz")["channels"]
        templates = np.load(out / "waveforms.templates.npy")
    except Exception as e:  # noqa
        ctx.fail("C13.files", f"run {tag}: output files unreadable: {type(e).__name__}: {e}")
        return None
    cols = ["sample", "cluster", "peak_channel", "waveform_index"]
    if not ctx.check(all(c in table.columns for c in cols), "C13.files", f"run {tag}: table columns {list(table.columns)}"):
        return None
    try:
        t = {c: table[c].to_numpy().astype(np.int64) for c in cols}
    except Exception as e:  # noqa
        ctx.fail("C13.files", f"run {tag}: table columns are not integers: {e}")
        return None
    return {"table": table, "t": t, "traces": traces, "channels": channels, "templates": templates}


_VECTORISED_ABOVE = 20000  # spikes in the train: beyond this the membership test works on integer keys instead of Counters


def _members_vectorised(t, s, u, c, valid, uids, ns, nch):
    """(every table row is a valid (cluster, sample, channel) spike of the train, as a sub-multiset; a copy of the very first
    spike of the train - valid - is missing from the table). Same statement as the Counter version, on int64 keys."""
    def key(ui, ss, cc):
        return (ui.astype(np.int64) * ns + ss.astype(np.int64)) * nch + cc.astype(np.int64)
    pk, pcnt = np.unique(key(np.searchsorted(uids, u[valid]), s[valid], c[valid]), return_counts=True)
    tc, ts, tp = t["cluster"], t["sample"], t["peak_channel"]
    inr = np.isin(tc, uids) & (ts >= 0) & (ts < ns) & (tp >= 0) & (tp < nch)
    tk, tcnt = np.unique(key(np.searchsorted(uids, tc[inr]), ts[inr], tp[inr]), return_counts=True)
    if pk.size == 0:
        return tc.size == 0, False
    pos = np.minimum(np.searchsorted(pk, tk), pk.size - 1)
    ok = bool(np.all(inr[np.isin(tc, uids)])) and bool(np.all((pk[pos] == tk) & (tcnt <= pcnt[pos])))
    first_missing = False
    if valid[0]:
        k0 = key(np.searchsorted(uids, u[:1]), s[:1], c[:1])[0]
        have = int(tcnt[tk == k0].sum())
        first_missing = have < int(pcnt[pk == k0].sum())
    return ok, first_missing


def _check_outputs(ctx, case, tag, o, src, lists, nbt, spikes, sfx):
    """Row-wise oracle on one set of output files. Returns the expected waveforms of the table rows (or None)."""
    ns = case["ns"]
    off, length = case["win"]
    max_wf = case["max_wf"]
    nch = len(lists)
    nn = nbt.shape[1]
    s, u, c = spikes
    lo, hi = _valid_range(ns, off, length)
    valid = (s >= lo) & (s <= hi)
    t = o["t"]
    n = t["sample"].size
    traces, channels, templates = o["traces"], o["channels"], o["templates"]
    # shapes
    # wfs_dtype is documented as the type of the saved waveforms; float32 is accepted as well (the values are then compared
    # exactly, otherwise after the same cast)
    req = (case.get("dims") or {}).get("wfs_dtype")
    allowed = {np.dtype(np.float32)} | ({np.dtype(req)} if req else set())
    if not ctx.check(traces.shape == (n, nn, length) and traces.dtype in allowed and channels.shape == (n, nn),
                     "C13.shapes" + sfx, lambda: f"run {tag}: traces {traces.shape} {traces.dtype}, channels {channels.shape}, "
                                                 f"table {n} rows, expected ({n}, {nn}, {length}) "
                                                 f"{' or '.join(sorted(str(v) for v in allowed))}"):
        return None
    # per unit counts and membership
    uids, nvs = _valid_counts(u, valid)
    units = [int(v) for v in uids]
    tcl, tcnt = np.unique(t["cluster"], return_counts=True)
    gots = dict(zip(tcl.tolist(), tcnt.tolist()))
    deficits = {}
    for uid, nv in zip(units, nvs.tolist()):
        got = gots.get(uid, 0)
        if got != min(max_wf, nv):
            deficits[uid] = (min(max_wf, nv), got)
    extra = sorted(set(int(v) for v in tcl) - set(units))
    members_ok = not extra
    first_missing = False
    if s.size > _VECTORISED_ABOVE:
        members_ok, first_missing = _members_vectorised(t, s, u, c, valid, uids, ns, nch)
        members_ok = members_ok and not extra
    for uid in (units if s.size <= _VECTORISED_ABOVE else []):
        have = collections.Counter(zip(t["sample"][t["cluster"] == uid].tolist(), t["peak_channel"][t["cluster"] == uid].tolist()))
        pool = collections.Counter(zip(s[valid & (u == uid)].tolist(), c[valid & (u == uid)].tolist()))
        if have - pool:
            members_ok = False
        if uid == int(u[0]) and valid[0]:
            key = (int(s[0]), int(c[0]))
            first_missing = have[key] < pool[key]
    ctx.check(members_ok, "C13.unit_members",
              lambda: f"run {tag}: table rows are not distinct valid spikes of their unit (unknown clusters {extra})")
    if deficits:
        u0 = int(u[0])
        if bool(valid[0]) and set(deficits) == {u0} and deficits[u0][0] - deficits[u0][1] == 1 and first_missing:
            ctx.fail("C13.unit_count.first_spike",
                     f"run {tag}: unit {u0} got {deficits[u0][1]} waveforms, expected {deficits[u0][0]}: the first spike of the "
                     f"train (sample {int(s[0])}, valid) is never extracted")
        else:
            ctx.fail("C13.unit_count", f"run {tag}: (expected, got) waveforms per unit {deficits}; max_wf={max_wf}, ns={ns}")
    ctx.check(np.array_equal(t["waveform_index"], np.arange(n)), "C13.waveform_index",
              lambda: f"run {tag}: waveform_index of row i is not i: {t['waveform_index'][:10]}..")
    # rows against the source
    rows_ok = (t["sample"] - off >= 0) & (t["sample"] - off + length <= ns) & (t["peak_channel"] >= 0) & (t["peak_channel"] < nch)
    if not ctx.check(bool(np.all(rows_ok)), "C13.table_rows" + sfx,
                     lambda: f"run {tag}: table holds rows outside the recording: "
                             f"{[(int(a), int(b)) for a, b in zip(t['sample'][~rows_ok][:4], t['peak_channel'][~rows_ok][:4])]}"):
        return None
    W = np.full((n, nn, length), np.nan, dtype=np.float32)
    for i in range(n):
        nb = lists[int(t["peak_channel"][i])]
        a = int(t["sample"][i]) - off
        W[i, :len(nb), :] = src[a:a + length, nb].T
    if traces.dtype != W.dtype:
        with np.errstate(over="ignore"):
            W = W.astype(traces.dtype)
    bad = [i for i in range(n) if not np.array_equal(traces[i], W[i], equal_nan=True)]
    ctx.check(not bad, "C13.traces" + sfx,
              lambda: f"run {tag} (chunk {case['runs'][0 if tag == 'A' else 1]}): {len(bad)}/{n} saved waveforms differ from "
                      f"source[sample-{off}:sample+{length - off}, neighbours]; first rows (row, sample, cluster, channel): "
                      f"{[(i, int(t['sample'][i]), int(t['cluster'][i]), int(t['peak_channel'][i])) for i in bad[:4]]}")
    exp_ch = nbt[t["peak_channel"]] if n else np.zeros((0, nn), dtype=np.int64)
    ctx.check(np.array_equal(channels, exp_ch), "C13.channels",
              lambda: f"run {tag}: channel map rows differ from the neighbour list of the row's peak channel")
    # templates: i-th cluster of the table
    cl = []
    for v in t["cluster"].tolist():
        if not cl or cl[-1] != v:
            cl.append(v)
    if ctx.check(len(cl) == len(set(cl)), "C13.table_grouping", f"run {tag}: rows of a cluster are not contiguous in the table") \
            and ctx.check(templates.shape == (len(units), nn, length), "C13.templates_shape" + sfx,
                          lambda: f"run {tag}: templates {templates.shape}, expected ({len(units)}, {nn}, {length})"):
        worst = 0.0
        okt = True
        for i, v in enumerate(cl):
            e = np.nanmedian(W[t["cluster"] == v].astype(np.float64), axis=0)
            g = templates[i].astype(np.float64)
            if not np.array_equal(np.isnan(e), np.isnan(g)):
                okt = False
                worst = float("inf")
                break
            m = ~np.isnan(e)
            if m.any():
                rel = np.abs(g[m] - e[m]) / np.maximum(np.abs(e[m]), 1e-30)
                worst = max(worst, float(rel.max()))
        if np.isfinite(worst) and not bad:
            ctx.stat("templates_rel_err", worst)
        ctx.check(okt and worst <= (2.0 ** -10 if traces.dtype == np.float16 else 2.0 ** -23), "C13.templates" + sfx,
                  lambda: f"run {tag}: template of a cluster differs from the median of its waveforms (rel err {worst:.3g})")
    return W


def _as_selector(vals, kind, old):
    """labels / indices of a loader query in the drawn container kind (old = form used before the field existed)."""
    if vals is None:
        return None
    kind = kind or old
    vals = [int(v) for v in vals]
    if kind == "list":
        return vals
    if kind == "tuple":
        return tuple(vals)
    if kind in ("int32", "uint64", "int64"):
        return np.array(vals, dtype=kind)
    return np.array(vals)


def _check_loader(ctx, case, out, o, sfx):
    wx = sut.waveform_extraction()
    off = case["win"][0]
    ld = case.get("ldims") or {}
    data_dir = str(out) if ld.get("dir") == "str" else out
    lkw = {} if (ld.get("omit_trough") and off == TROUGH) else {"trough_offset": off}
    ctx.label("loader_dir_" + ("str" if isinstance(data_dir, str) else "path"),
              "loader_trough_default" if not lkw else "loader_trough_given")
    wl = ctx.call("C13.loader", wx.WaveformsLoader, data_dir, **lkw)
    if wl is ctx.CRASH:
        return
    wl2 = None
    if ld.get("twice"):
        # a second loader on the same files while the first one is alive
        ctx.label("loader_opened_twice")
        wl2 = ctx.call("C13.loader", wx.WaveformsLoader, data_dir, **lkw)
        if wl2 is ctx.CRASH:
            return
    t = o["t"]
    n = t["sample"].size
    rank = np.zeros(n, dtype=np.int64)
    seen = collections.Counter()
    for i, v in enumerate(t["cluster"].tolist()):
        rank[i] = seen[v]
        seen[v] += 1
    ids = _unit_ids(case)

    def _query(loader, q, scribble=False, again=False):
        labels = _as_selector(None if q["labels"] is None else sorted(ids[k] for k in q["labels"]), q.get("lab_kind"), "array")
        indices = _as_selector(q["indices"], q.get("ind_kind"), "list")
        sel = np.ones(n, bool)
        if q["labels"] is not None:
            sel &= np.isin(t["cluster"], [ids[k] for k in q["labels"]])
        if q["indices"] is not None:
            sel &= np.isin(rank, list(q["indices"]))
        rows = np.flatnonzero(sel)
        kind = "C13.loader_rows_repeat" if again else "C13.loader_rows"
        kwq = {"flatten": True} if q.get("flatten") else {}
        ctx.label("loader_" + ("all" if labels is None else "labels") + ("" if indices is None else "+indices"),
                  "loader_labels_" + ("none" if labels is None else q.get("lab_kind") or "array"),
                  "loader_indices_" + ("none" if indices is None else q.get("ind_kind") or "list"),
                  "loader_flatten" if kwq else "loader_flatten_default")
        r = ctx.call("C13.loader", loader.load_waveforms, labels=labels, indices=indices, **kwq)
        if r is ctx.CRASH:
            return
        try:
            wfs, info, chans = r
            got_rows = np.c_[info["sample"].to_numpy(), info["cluster"].to_numpy(), info["peak_channel"].to_numpy(),
                             info["waveform_index"].to_numpy()].astype(np.int64).reshape(-1, 4)
            exp_rows = np.c_[t["sample"][rows], t["cluster"][rows], t["peak_channel"][rows], t["waveform_index"][rows]].reshape(-1, 4)
            ok = (np.shape(wfs) == o["traces"][rows].shape and np.array_equal(wfs, o["traces"][rows], equal_nan=True)
                  and np.array_equal(got_rows, exp_rows) and np.array_equal(chans, o["channels"][rows]))
            msg = f"load_waveforms(labels={None if labels is None else list(labels)} [{q.get('lab_kind') or 'array'}], " \
                  f"indices={None if indices is None else list(indices)} [{q.get('ind_kind') or 'list'}]" \
                  f"{', flatten=True' if kwq else ''}){' called again after other queries' if again else ''} returned " \
                  f"{np.shape(wfs)[0]} rows, expected the {rows.size} saved rows {rows[:8].tolist()}.. of those clusters/ranks"
        except Exception as e:  # noqa
            ok, msg = False, f"load_waveforms result unusable: {type(e).__name__}: {e}"
        ctx.check(ok, kind, msg)
        if scribble and ok:
            # what was handed out belongs to the caller: normalising it in place must not reach the data set
            try:
                if isinstance(wfs, np.ndarray) and wfs.flags.writeable:
                    wfs[...] = 0
                if isinstance(chans, np.ndarray) and chans.flags.writeable:
                    chans[...] = -7
                info["sample"] = -1
                info["waveform_index"] = -1
            except Exception:  # noqa
                pass
        r2 = ctx.call("C13.loader", loader.load_waveforms, labels=labels, indices=indices, return_info=False, **kwq)
        if r2 is not ctx.CRASH:
            ctx.check(isinstance(r2, np.ndarray) and r2.shape == o["traces"][rows].shape
                      and np.array_equal(r2, o["traces"][rows], equal_nan=True), kind,
                      "load_waveforms(return_info=False) differs from the saved rows")

    qs = case["queries"]
    scribble = bool(ld.get("scribble"))
    if scribble:
        ctx.label("loader_result_overwritten")
    for k, q in enumerate(qs):
        _query(wl2 if (wl2 is not None and k % 2 == 1) else wl, q, scribble=scribble)
    if qs and (scribble or wl2 is not None):
        # the first query again, on the first loader, after other labels / another loader / overwritten results
        ctx.label("loader_query_repeated")
        _query(wl, qs[0], again=True)
        if wl2 is not None and len(qs) > 1:
            _query(wl2, qs[0], again=True)
    try:
        del wl, wl2
    except Exception:  # noqa
        pass
    if scribble:
        try:
            tr = np.load(out / "waveforms.traces.npy")
            ch = np.load(out / "waveforms.channels.npz")["channels"]
            same = _same_array(tr, o["traces"]) and _same_array(ch, o["channels"])
        except Exception:  # noqa
            same = False
        ctx.check(same, "C13.loader_modified_files", "the saved traces / channel map changed while the loader was used")


def _same_files(a, b):
    if not (a["table"].shape == b["table"].shape and list(a["table"].columns) == list(b["table"].columns)):
        return "table shape/columns"
    if not np.array_equal(a["table"].to_numpy(), b["table"].to_numpy()) or not np.array_equal(a["table"].index.to_numpy(), b["table"].index.to_numpy()):
        return "table"
    for k in ("traces", "channels", "templates"):
        if a[k].shape != b[k].shape or not np.array_equal(a[k], b[k], equal_nan=True):
            return k
    return None


def _spike_array(a, kind, ro):
    """The spike vector as callers hold it: own array, every second element of a longer buffer, a reversed view."""
    if kind == "strided":
        buf = np.zeros(2 * a.size + 1, dtype=a.dtype)
        buf[1::2] = a
        v = buf[1::2]
    elif kind == "negstride":
        v = a[::-1].copy()[::-1]
    else:
        v = a.copy()
    return _readonly(v) if ro else v


def _scale_array_spikes(case):
    """Sorted sample positions and peak channels of a scale-array case: both array ends, every position within one window
    length of the multiples of 2^20 / 10^6, every boundary offset around the multiples of 2^16 / 10^5, random elsewhere."""
    a = case["scale"]
    ns = case["ns"]
    off, length = case["win"]
    nch = case["geom"]["n"]
    m = a["m"]
    rng = np.random.default_rng(a["sseed"])
    smin, smax = off, ns - (length - off) - 1  # the window may start on the first sample, it must end before the last
    near = np.arange(-length - 1, length + 2, dtype=np.int64)
    offs = np.array(_bnd_offsets(off, length), dtype=np.int64)
    parts = [np.array([smin, smin + 1, smax - 1, smax], dtype=np.int64)]
    parts += [b + near for b in _big_seams(ns)]
    for step in _ROUND_STEPS:
        parts.append((np.arange(step, ns, step, dtype=np.int64)[:, None] + offs[None, :]).reshape(-1))
    sp = np.concatenate(parts)
    sp = sp[rng.permutation(sp.size)][:m]
    s = np.sort(np.clip(np.r_[sp, rng.integers(smin, smax + 1, size=m - sp.size)], smin, smax))
    p = rng.integers(0, nch, size=m)
    p[0], p[-1] = 0, nch - 1
    return s.astype(np.int64), p.astype(np.int64)


def _run_scale_array(case, ctx):
    """extract_wfs_array on an array of the real-data scale; expected stack by fancy indexing, compared in blocks."""
    import hashlib
    import pandas as pd
    wx = sut.waveform_extraction()
    a = case["scale"]
    ns = case["ns"]
    off, length = case["win"]
    x, y = _flat_geometry(case["geom"])
    nch = x.size
    lists = _neighbour_lists(x, y, a["radius"] ** 2)
    nbt0 = _neighbour_table(lists, nch)
    nn = nbt0.shape[1]
    src, lay, ro = a["src"], a["layout"], bool(a["ro"])
    add = src != "given32"
    rows = nch + (0 if add else 1)
    rng = np.random.default_rng(case["data_seed"])
    shape = (rows, ns) if lay == "c" else (ns, rows)
    base = np.empty(shape, dtype=np.int16 if src == "add16" else np.float32)
    data = base[:nch] if lay == "c" else base[:, :nch]
    if src == "add16":
        data[...] = rng.integers(-32768, 32768, size=data.shape, dtype=np.int16)
    else:
        data[...] = rng.standard_normal(data.shape, dtype=np.float32) * np.float32(30)
    if not add:
        (base[nch:] if lay == "c" else base[:, nch:])[...] = np.nan
    given = base if lay == "c" else base.T
    arr = given[:nch]
    if ro:
        base.flags.writeable = False
        given.flags.writeable = False
    digest0 = hashlib.blake2b(base).digest()
    s, p = _scale_array_spikes(case)
    m = s.size
    sdt, pdt = a["df_dt"]
    if a["df_index"] == "offset":
        index = np.arange(m) + 1000
    elif a["df_index"] == "shuffled":
        index = np.random.default_rng(a["sseed"] ^ 0x5bd1).permutation(m)
    else:
        index = None
    df = pd.DataFrame({"sample": s.astype(sdt), "peak_channel": p.astype(pdt)}, index=index)
    df0 = df.copy(deep=True)
    nbk = a["nb_kind"]
    nbt = nbt0.astype(np.int32) if nbk == "int32" else np.asfortranarray(nbt0) if nbk == "f_order" else nbt0.copy()
    kwa = {}
    if (off, length) != (TROUGH, LENGTH) or a["sseed"] % 2:
        kwa = {"trough_offset": off, "spike_length_samples": length}
    big = np.array(_big_seams(ns), dtype=np.int64)
    w0 = s - off  # first sample of the window; the seam b lies inside when w0 < b <= w0 + length - 1
    straddle = int(np.sum((w0[:, None] < big[None, :]) & (big[None, :] <= w0[:, None] + length - 1)))
    ctx.label("scale_array", "scale_array_" + a["shape"], "scale_array_" + src, "scale_array_layout_" + lay,
              "scale_array_readonly" if ro else "scale_array_writeable",
              "scale_array_window_default" if (off, length) == (TROUGH, LENGTH) else "scale_array_window_custom",
              "scale_samples>2^24" if ns > 2 ** 24 else "scale_samples>2e6" if ns > 2 * 10 ** 6 else "scale_samples>2^20",
              "scale_spikes>2^17" if m > 2 ** 17 else "scale_spikes>1e5" if m > 10 ** 5 else "scale_spikes>2^16",
              "scale_array_nn=1" if nn == 1 else "scale_array_nn=all" if nn == nch else "scale_array_nn_mid",
              "scale_array_df_sample_" + sdt, "scale_array_df_index_" + a["df_index"])
    if m > 2 ** 16 and straddle:
        ctx.nontrivial = True
        ctx.label("scale_window_across_2^20_or_1e6")
    r = ctx.call("C13.extract_array", wx.extract_wfs_array, given, df, nbt, add_nan_trace=add, **kwa)
    if r is ctx.CRASH:
        return
    if not ctx.check(isinstance(r, tuple) and len(r) == 3, "C13.extract_array",
                     "extract_wfs_array did not return (wfs, cind, trough_offset)"):
        return
    wfs, cind, toff = r
    if ctx.check(isinstance(wfs, np.ndarray) and wfs.shape == (m, nn, length), "C13.extract_array",
                 lambda: f"extract_wfs_array on {m} spikes, array ({rows}, {ns}) {lay}/{given.dtype}: shape {np.shape(wfs)}, "
                         f"expected {(m, nn, length)}"):
        ar = np.arange(length, dtype=np.int64) - off
        edt = np.float64 if src == "add16" else np.float32
        nbad, first = 0, []
        for a0 in range(0, m, 4096):
            sl = slice(a0, min(m, a0 + 4096))
            ch = nbt0[p[sl]]
            pad = ch == nch
            e = arr[np.where(pad, 0, ch)[:, :, None], (s[sl][:, None] + ar[None, :])[:, None, :]].astype(edt)
            e[pad] = np.nan
            g = wfs[sl]
            if not np.array_equal(g, e, equal_nan=True):
                neq = ~np.all((g == e) | (np.isnan(g) & np.isnan(e)), axis=(1, 2))
                nbad += int(neq.sum())
                if len(first) < 4:
                    first += [(int(i) + a0, int(s[int(i) + a0]), int(p[int(i) + a0])) for i in np.flatnonzero(neq)[:4 - len(first)]]
        ctx.check(nbad == 0, "C13.extract_array",
                  lambda: f"extract_wfs_array(offset={off}, length={length}, traces {lay}/{given.dtype} ({rows}, {ns}), {m} "
                          f"spikes): {nbad} waveforms differ from arr[neighbours, s-off:s-off+len]; first (row, sample, "
                          f"channel): {first}")
    ctx.check(np.array_equal(cind, nbt0[p]) and toff == off, "C13.extract_array_info",
              "returned channel indices / trough offset differ from the request")
    try:
        same_df = bool(df.equals(df0)) and np.array_equal(df.index.to_numpy(), df0.index.to_numpy())
    except Exception:  # noqa
        same_df = False
    ctx.check(hashlib.blake2b(base).digest() == digest0 and _same_array(nbt, nbt0) and same_df, "C13.extract_array_args",
              "extract_wfs_array modified the traces, the spike table or the neighbour table it was given")


def run_case(case, ctx):
    import joblib
    if (case.get("scale") or {}).get("kind") == "array":
        return _run_scale_array(case, ctx)
    wx = sut.waveform_extraction()
    sg = sut.spikeglx()
    mode, ns = case["mode"], case["ns"]
    off, length = case["win"]
    default_win = _default_window(case)
    sfx = "" if default_win else ".window"
    dims = case.get("dims") or {}
    with rec.scratch_dir(ctx) as d:
        # ---- recording and geometry
        if mode.startswith("flat"):
            x, y = _flat_geometry(case["geom"])
            nch = x.size
            nc = nch + 1
            rng = np.random.default_rng(case["data_seed"])
            if mode == "flat32":
                D = rng.standard_normal((ns, nc), dtype=np.float32) * np.float32(50)
            else:
                D = rng.integers(-32768, 32768, size=(ns, nc), dtype=np.int16)
            path = d / "rec.bin"
            with open(path, "wb") as f:
                D.tofile(f)
            rk = {"ns": ns, "nc": nc, "nsync": 1, "fs": 30000, "dtype": "float32" if mode == "flat32" else "int16"}
            hk = dims.get("h", "f64")  # trace_header() hands out integers, Reader.geometry float32
            hdt = {"f32": np.float32, "int": np.int64}.get(hk, np.float64)
            h = {"x": x.astype(hdt), "y": y.astype(hdt)}
            ctx.label("geom_" + case["geom"]["kind"], "layout_" + case["geom"]["layout"], "h_" + hk)
        else:
            spec = case["spec"]
            nch = spec["n"]
            nc = gm.n_channels(spec)
            D = rec.make_data(ns, nc, case["data_seed"], "full", nsync=1)
            binf = rec.write_recording(d / "raw", spec, D)
            path = rec.compress(binf, nc, spec["fs"], case["cchunk"], keep_bin=False) if mode == "meta_cbin" else binf
            rk = {"sort": case["sort"]}
            h = None
            eth, _ = calib.geometry(spec, sort=case["sort"])
            x, y = eth["x"], eth["y"]
            hk = dims.get("h", "file")
            if hk == "same":  # the geometry of the file, handed over explicitly
                h = {"x": np.array(x, dtype=float), "y": np.array(y, dtype=float)}
            elif hk == "other":  # a documented argument: the geometry given by the caller is the one that counts
                x, y = _flat_geometry(dims["hgeom"])
                h = {"x": x.astype(float), "y": y.astype(float)}
            ctx.label("geom_" + spec["gen"], "pat_" + spec["pattern"], "sort" if case["sort"] else "nosort", "h_" + hk)
        ctx.label(mode, "window_default" if default_win else "window_custom")
        scale = case.get("scale")
        _array_level(case, ctx, x, y)
        if mode == "flat32":
            src = D[:, :nch]
        else:
            def _read():
                sr = sg.Reader(path, **rk)
                try:
                    return np.array(sr.read(nsel=slice(0, ns), csel=slice(0, nch), sync=False))
                finally:
                    sr.close()
            src = ctx.call("C13.source_reader", _read)
            if src is ctx.CRASH:
                return
            if src.shape != (ns, nch):
                ctx.fail("C13.source_reader", f"reader returned {src.shape}, expected {(ns, nch)}")
                return
        del D
        lists = _neighbour_lists(x, y, 200 * 200)
        nbt = _neighbour_table(lists, nch)
        nn = nbt.shape[1]
        ctx.label("nn=all" if all(len(v) == nn for v in lists) else "nn_padded")

        # ---- spike train
        s, u, c = _build_spikes(case)
        lo, hi = _valid_range(ns, off, length)
        valid = (s >= lo) & (s <= hi)
        max_wf = case["max_wf"]
        nvs = _valid_counts(u, valid)[1]
        for name, m in (("unit_zero", nvs == 0), ("unit_one", nvs == 1), ("unit_fewer", (nvs > 1) & (nvs < max_wf)),
                        ("unit_exact", (nvs == max_wf) & (nvs > 1)), ("unit_more", (nvs > max_wf) & (nvs > 1))):
            if np.any(m):
                ctx.label(name)
        any_more = bool(np.any(nvs > max_wf))
        ctx.label("first_spike_valid" if valid[0] else "first_spike_invalid")
        if scale:
            nchk = max(-(-ns // run["chunk"]) for run in case["runs"])
            ctx.label("scale_file", "scale_samples>2e6" if ns > 2 * 10 ** 6 else "scale_samples>2^20",
                      "scale_train>2^20" if s.size > 2 ** 20 else "scale_train>1e6",
                      "scale_chunks>1000" if nchk > 1000 else "scale_chunks>256" if nchk > 256 else "scale_chunks<=256",
                      "scale_units>100" if nvs.size > 100 else "scale_units<=100")
        if np.any(valid & np.isin(s, [lo, hi])):
            ctx.label("spike_on_validity_limit")
        if np.any(~valid):
            ctx.label("invalid_spikes_present")
        if np.any(valid & ((c == 0) | (c == nch - 1))):
            ctx.label("peak_at_probe_end")
        # a sample shared by two units: s is sorted, so some neighbours of such a group differ in their unit
        if np.any((s[1:] == s[:-1]) & (u[1:] != u[:-1])):
            ctx.label("time_shared_by_units")
        dts, dtu, dtc = case["dtypes"]
        lay, ro = dims.get("spk", "contig"), bool(dims.get("ro", False))
        ss, sc, sch = (_spike_array(v.astype(t), lay, ro) for v, t in ((s, dts), (u, dtu), (c, dtc)))
        ss0, sc0, sch0 = ss.copy(), sc.copy(), sch.copy()
        h0 = None
        if h is not None:
            if ro:
                h = {k: _readonly(v) for k, v in h.items()}
            h0 = {k: np.array(v, copy=True) for k, v in h.items()}
        ctx.label("seed_none" if case["seed"] is None else "seed_int", "spikes_" + lay,
                  "args_readonly" if ro else "args_writeable", "samples_" + dts)
        bin_arg = str(path) if dims.get("path") == "str" else path
        ctx.label("bin_file_" + ("str" if isinstance(bin_arg, str) else "path"))
        req_dtype = dims.get("wfs_dtype")
        ctx.label("wfs_dtype_" + (req_dtype or "default"))
        omit_max_wf = bool(dims.get("omit_max_wf")) and max_wf == 256
        ctx.label("max_wf_default" if omit_max_wf else "max_wf_given")
        chan_labels = np.zeros(nch) if dims.get("chan_labels") else None
        pre = dims.get("prerun")

        def _extract(out, run, tag, last, max_wf_run=None, seed=None):
            kw = {"preprocess_steps": [], "seed": case["seed"] if seed is None else seed, "h": h}
            if not default_win:
                kw.update(trough_offset=off, spike_length_samples=length)
            if mode == "meta_cbin" and not (last and dims.get("omit_scratch_last")):
                # default form only for the last extraction: it removes the .meta file next to the .cbin
                kw["scratch_dir"] = d / ("dec" + tag)
            if not (dims.get("omit_reader_kwargs") and rk == {"sort": True}):
                kw["reader_kwargs"] = dict(rk)
            if not run.get("omit_chunk") or run["chunk"] != 3000:
                kw["chunksize_samples"] = run["chunk"]
            if not run.get("omit_jobs"):
                kw["n_jobs"] = run["jobs"]
            if max_wf_run is not None or not omit_max_wf:
                kw["max_wf"] = max_wf if max_wf_run is None else max_wf_run
            if req_dtype is not None:
                kw["wfs_dtype"] = np.dtype(req_dtype).type
            if chan_labels is not None:
                kw["channel_labels"] = chan_labels
            with joblib.parallel_config(backend=run["backend"]):
                wx.extract_wfs_cbin(bin_arg, out, ss, sc, sch, **kw)

        def _args_untouched(tag):
            if not dims.get("check_args", True):
                return
            same = _same_array(ss, ss0) and _same_array(sc, sc0) and _same_array(sch, sch0)
            if h is not None:
                same = same and all(_same_array(h[k], h0[k]) for k in h0) and set(h) == set(h0)
            ctx.check(same, "C13.arguments_modified",
                      f"run {tag}: extract_wfs_cbin modified the spike samples / clusters / channels or the geometry it was given")

        # ---- two configurations (the first optionally into a directory that holds an earlier, larger extraction)
        outs = []
        for tag, run in zip("AB", case["runs"]):
            out = d / ("out" + tag)
            out.mkdir()
            last = tag == "B"
            for lab, flag in (("chunksize", run.get("omit_chunk") and run["chunk"] == 3000),
                              ("reader_kwargs", dims.get("omit_reader_kwargs") and rk == {"sort": True}),
                              ("scratch_dir", mode == "meta_cbin" and last and dims.get("omit_scratch_last"))):
                if flag:
                    ctx.label(lab + "_default")
            pre_rows = None
            if pre and tag == "A":
                r = ctx.call("C13.extract" + sfx, _extract, out, case["runs"][1], "P", False,
                             max_wf_run=max_wf + pre["add"], seed=pre["seed"])
                if r is ctx.CRASH:
                    # worker threads of the failed extraction may still be writing into the memory-mapped traces file:
                    # re-creating it (shorter) under them would kill the process, so the case ends here
                    return
                if r is not ctx.CRASH:
                    _args_untouched("P")
                    op = _load_outputs(ctx, out, "P")
                    if op is not None:
                        pre_rows = op["t"]["sample"].size
                        if pre.get("loader"):
                            # a loader used on the earlier files and dropped before they are replaced
                            wlp = ctx.call("C13.loader", wx.WaveformsLoader, out)
                            if wlp is not ctx.CRASH:
                                rp = ctx.call("C13.loader", wlp.load_waveforms, return_info=False)
                                if rp is not ctx.CRASH:
                                    ctx.check(_same_array(rp, op["traces"]), "C13.loader_rows",
                                              "load_waveforms(return_info=False) differs from the saved rows (earlier run)")
                                del rp
                            del wlp
                    del op
            nchunks = -(-ns // run["chunk"])
            ctx.label("chunks=1" if nchunks == 1 else "chunks=2-5" if nchunks <= 5 else "chunks>5",
                      "jobs_default" if run.get("omit_jobs") else "jobs=1" if run["jobs"] == 1 else "jobs>1",
                      "backend_" + run["backend"])
            r = ctx.call("C13.extract" + sfx, _extract, out, run, tag, last)
            if r is ctx.CRASH:
                outs.append(None)
                continue
            _args_untouched(tag)
            o = _load_outputs(ctx, out, tag)
            outs.append(o)
            if o is None:
                continue
            if pre_rows is not None:
                ctx.label("rerun_same_dir", "rerun_over_larger" if pre_rows > o["t"]["sample"].size else "rerun_over_equal")
            _check_outputs(ctx, case, tag, o, src, lists, nbt, (s, u, c), sfx)
            if tag == "A":
                _check_loader(ctx, case, out, o, sfx)
            # non-triviality: measured on what was actually selected
            if nchunks >= 2 and any_more and o["t"]["sample"].size:
                bnd = np.arange(1, nchunks) * run["chunk"]
                dist = np.min(np.abs(o["t"]["sample"][:, None] - bnd[None, :]), axis=1)
                if np.any(dist <= length):
                    ctx.nontrivial = True
                    ctx.label("selected_spike_near_chunk_boundary")
            if scale and o["t"]["sample"].size:
                # real-data scale: a selected spike whose window holds a multiple of 2^20 / 10^6, and every seam of this
                # configuration's chunk size that was given a spike has it selected
                big = np.array(_big_seams(ns), dtype=np.int64)
                w0 = o["t"]["sample"] - off
                if np.any((w0[:, None] < big[None, :]) & (big[None, :] <= w0[:, None] + length - 1)):
                    ctx.nontrivial = True
                    ctx.label("scale_window_across_2^20_or_1e6")
                seams = np.arange(1, nchunks) * run["chunk"]
                if seams.size and np.all(np.isin(seams, o["t"]["sample"])):
                    ctx.label("scale_spike_selected_on_every_seam")
        if outs[0] is not None and outs[1] is not None and case["seed"] is not None:
            diff = _same_files(outs[0], outs[1])
            ctx.check(diff is None, "C13.config_invariance" + sfx,
                      lambda: f"{diff} differs between {case['runs'][0]} and {case['runs'][1]} at seed {case['seed']}")
