"""C09 - Metadata parsing, derived acquisition parameters and writing round-trip."""
import numpy as np
from hypothesis import strategies as st

from vp import sut
from vp.gens import meta as gm, recording as rec
from vp.oracles import calib

ID = "C09"
LEVEL = "exploration"
RULE = ("Two generators. (generic) files of key=value lines over the SpikeGLX grammar: keys of printable ASCII without "
        "'=' (optional leading tilde), values that are strings (always containing a character outside [0-9,.] or of the "
        "version form a.b.c, possibly empty, possibly containing '=', ':', parentheses, a leading '-'), decimal scalars "
        "in positional notation (integer-valued, fractional, tiny < 1e-4, huge) or integer lists; oracle: parsed dict == "
        "typed values of the generator, and read(write(read(text))) == read(text). (probe) the full probe grammar of "
        "vp.gens.meta (3A/3B1/3B2/NP2.1/NP2.4/NPultra/nidq, AP/LF, per-channel NP1 gains, channel subsets); oracle: "
        "version, type, nc, nsync, fs, ns, per-channel volts-per-bit for AP and LF, range_volts == independent "
        "calibration oracle computed from the generator's parameters, plus the same round trip. Non-trivial = a value "
        "containing '=' or a non-integer float or a tiny float, or (probe) a non-uniform gain table with AP != LF. "
        "Distinct = distinct case hash.")
ASSUMPTIONS = ["numeric values made only of [0-9,.] that are neither a scalar nor an integer list (e.g. '1,,2', ',') are "
               "outside the property's grammar and are not generated",
               "exponent notation is never generated as input (SpikeGLX writes positional decimals)"]
BUDGET = {"quick": 16000, "thorough": 400000}

_KEYCHARS = "abcdefghijklmnopqrstuvwxyzABCDEFGHIJKLMNOPQRSTUVWXYZ0123456789_.-:;()[] /"
_STRCHARS = "abcdefghijklmnopqrstuvwxyzABCDEFGHIJKLMNOPQRSTUVWXYZ0123456789_.-:;()[]{} /=,~+*#@!?<>\\'\"%&|^$"
_NONNUM = [c for c in _STRCHARS if c not in "0123456789,."]


@st.composite
def _value(draw):
    kind = draw(st.sampled_from(["str", "str", "empty", "version", "neg", "int", "frac", "tiny", "huge", "list"]))
    if kind == "empty":
        return {"k": "str", "text": ""}
    if kind == "str":
        body = draw(st.text(alphabet=_STRCHARS, min_size=0, max_size=30))
        pos = draw(st.integers(0, len(body)))
        return {"k": "str", "text": body[:pos] + draw(st.sampled_from(_NONNUM)) + body[pos:]}
    if kind == "version":
        parts = draw(st.lists(st.integers(0, 999), min_size=3, max_size=4))
        return {"k": "str", "text": ".".join(str(p) for p in parts)}
    if kind == "neg":
        return {"k": "str", "text": "-" + draw(st.sampled_from(["0.6", "0.5", "5", "0.62", "1"]))}
    if kind == "int":
        v = draw(st.one_of(st.integers(0, 1000), st.integers(0, 2 ** 40)))
        txt = str(v)
        if draw(st.integers(0, 9)) == 0:
            txt = "0" * draw(st.integers(1, 3)) + txt
        return {"k": "scalar", "text": txt}
    if kind == "frac":
        ip = draw(st.integers(0, 10 ** 6))
        fr = draw(st.text(alphabet="0123456789", min_size=1, max_size=12))
        return {"k": "scalar", "text": f"{ip}.{fr}"}
    if kind == "tiny":
        z = draw(st.integers(4, 12))
        fr = draw(st.text(alphabet="123456789", min_size=1, max_size=8))
        return {"k": "scalar", "text": "0." + "0" * z + fr}
    if kind == "huge":
        return {"k": "scalar", "text": draw(st.text(alphabet="123456789", min_size=1, max_size=1))
                + draw(st.text(alphabet="0123456789", min_size=15, max_size=24))}
    lst = draw(st.lists(st.integers(0, 10 ** 6), min_size=2, max_size=8))
    return {"k": "list", "text": ",".join(str(v) for v in lst)}


@st.composite
def _generic(draw):
    n = draw(st.integers(1, 14))
    keys = draw(st.lists(st.text(alphabet=_KEYCHARS, min_size=1, max_size=16).map(lambda s: "k" + s),
                         min_size=n, max_size=n, unique=True))
    lines = []
    for k in keys:
        v = draw(_value())
        lines.append({"key": k, "tilde": draw(st.sampled_from([False, False, True])), **v})
    return {"mode": "generic", "lines": lines}


@st.composite
def _probe(draw):
    if draw(st.integers(0, 7)) == 0:
        spec = draw(gm.st_nidq(ns_range=(1, 10 ** 7)))
    else:
        spec = draw(gm.st_spec(allow_nosync=True, ns_range=(1, 10 ** 7), allow_offset=True))
    return {"mode": "probe", "spec": spec}


def strategy(tier):
    return st.one_of(_generic(), _probe())


def _expected_value(line):
    if line["k"] == "str":
        return line["text"]
    if line["k"] == "scalar":
        return float(line["text"])
    return [float(v) for v in line["text"].split(",")]


def _eq(a, b):
    """Dictionary equality that does not choke on arrays; floats compared exactly."""
    if set(a.keys()) != set(b.keys()):
        return False, f"key sets differ: {sorted(set(a) ^ set(b))[:5]}"
    for k in a:
        va, vb = a[k], b[k]
        if type(va) is not type(vb) or va != vb:
            return False, f"key {k!r}: {va!r} ({type(va).__name__}) != {vb!r} ({type(vb).__name__})"
    return True, ""


def known_small_float(case, f):
    return f.kind == "C09.roundtrip.small_float"


def known_non_prefix_gain(case, f):
    """NP1 gains read from the first n IMRO entries instead of the entries of the saved (original) channel numbers."""
    return (case.get("mode") == "probe" and case["spec"].get("first_chan", 0) > 0
            and f.kind in ("C09.sample2volts", "C09.range_volts", "C09.gain_ap", "C09.gain_lf"))


KNOWN = {"small_float_exponent": known_small_float, "non_prefix_subset_gain": known_non_prefix_gain}


def _roundtrip(ctx, sg, d, text_path, d1):
    p2 = d / "rt.meta"
    r = ctx.call("C09.write", sg.write_meta_data, d1, p2)
    if r is ctx.CRASH:
        return
    d2 = ctx.call("C09.reread", sg.read_meta_data, p2)
    if d2 is ctx.CRASH:
        return
    ok, why = _eq(dict(d1), dict(d2))
    if not ok:
        # classify the root cause: a float below 1e-4 written in exponent notation
        small = any(isinstance(v, float) and v != 0 and abs(v) < 1e-4 and isinstance(d2.get(k), str)
                    for k, v in d1.items())
        ctx.fail("C09.roundtrip.small_float" if small else "C09.roundtrip", why)


def run_case(case, ctx):
    sg = sut.spikeglx()
    with rec.scratch_dir(ctx) as d:
        p = d / "in.meta"
        if case["mode"] == "generic":
            lines = case["lines"]
            p.write_text("".join(("~" if l["tilde"] else "") + l["key"] + "=" + l["text"] + "\n" for l in lines))
            kinds = {l["k"] for l in lines}
            ctx.label("generic", *("val_" + k for k in kinds))
            exp = {l["key"]: _expected_value(l) for l in lines}
            exp["neuropixelVersion"] = None
            exp["serial"] = None
            for l in lines:
                if l["k"] == "str" and "=" in l["text"]:
                    ctx.label("str_with_eq")
                    ctx.nontrivial = True
                if l["k"] == "scalar" and not float(l["text"]).is_integer():
                    ctx.nontrivial = True
                    if float(l["text"]) < 1e-4:
                        ctx.label("tiny_float")
            d1 = ctx.call("C09.read", sg.read_meta_data, p)
            if d1 is ctx.CRASH:
                return
            ok, why = _eq(exp, dict(d1))
            ctx.check(ok, "C09.parse", lambda: "parsed dictionary differs from the generated values: " + why)
            _roundtrip(ctx, sg, d, p, d1)
            return
        # ---- probe grammar
        spec = case["spec"]
        gen = spec["gen"]
        p = d / ("run_g0_t0.nidq.meta" if gen == "nidq" else f"run_g0_t0.imec0.{spec['stream']}.meta")
        p.write_text(gm.build_text(spec))
        ctx.label("probe", gen)
        d1 = ctx.call("C09.read", sg.read_meta_data, p)
        if d1 is ctx.CRASH:
            return
        nc = gm.n_channels(spec)
        typ = "nidq" if gen == "nidq" else spec["stream"]
        nsync = spec["dw"] if gen == "nidq" else spec.get("nsync", 1)
        ver = None if gen == "nidq" else gen
        ctx.check(d1.get("neuropixelVersion") == ver, "C09.version", lambda: f"version {d1.get('neuropixelVersion')} != {ver}")
        sr = ctx.call("C09.reader", sg.Reader, p)
        if sr is ctx.CRASH:
            return
        got = ctx.call("C09.derived", lambda: (sr.version, sr.type, sr.nc, sr.nsync, sr.fs, sr.ns))
        if got is not ctx.CRASH:
            exp = (ver, typ, nc, nsync, spec["fs"], spec["ns"])
            ctx.check(got == exp, "C09.derived", lambda: f"(version,type,nc,nsync,fs,ns) = {got} != {exp}")
        es2v = calib.s2v(spec)
        s2v = ctx.call("C09.s2v", lambda: np.asarray(sr.sample2volts))
        if s2v is not ctx.CRASH:
            ctx.check(s2v.shape == es2v.shape and np.allclose(s2v, es2v, rtol=1e-6, atol=0), "C09.sample2volts",
                      lambda: f"sample2volts {s2v[:3]}.. != range/maxint/gain {es2v[:3]}..")
        rv = ctx.call("C09.range_volts", lambda: np.asarray(sr.range_volts))
        if rv is not ctx.CRASH:
            erv = calib.range_volts(spec)
            ctx.check(rv.shape == erv.shape and np.allclose(rv, erv, rtol=1e-6, atol=0), "C09.range_volts",
                      lambda: f"range_volts {rv[:3]}.. != {erv[:3]}..")
        if gen != "nidq":
            conv = ctx.call("C09.conv", sg._conversion_sample2v_from_meta, d1)
            if conv is not ctx.CRASH:
                for k in ("ap", "lf"):
                    e = calib.s2v(spec, k)
                    ctx.check(np.shape(conv[k]) == e.shape and np.allclose(conv[k], e, rtol=1e-6, atol=0),
                              "C09.gain_" + k, lambda: f"{k} volts-per-bit differ from the {k} gain column")
            if gm.is_np1(gen) or gen == "NPultra":
                g = np.array(gm.gains_of(spec)[:spec["n"]])
                if np.unique(g[:, 0]).size > 1 and np.any(g[:, 0] != g[:, 1]):
                    ctx.nontrivial = True
                    ctx.label("nonuniform_gains")
            if spec["n"] < spec["n_acq"]:
                ctx.label("subset")
            if spec.get("first_chan", 0) > 0:
                ctx.label("non_prefix_subset")
        if spec["ns"] / spec["fs"] < 1e-4:
            ctx.label("tiny_float")
        _roundtrip(ctx, sg, d, p, d1)
