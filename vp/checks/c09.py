"""C09 - Metadata parsing, derived acquisition parameters and writing round-trip."""
import copy

import numpy as np
from hypothesis import strategies as st

from vp import sut
from vp.gens import meta as gm, recording as rec
from vp.oracles import calib

ID = "C09"
LEVEL = "exploration"
RULE = ("Two generators. (generic) files of key=value lines over the SpikeGLX grammar: keys of printable ASCII without "
        "'=' (optional leading tilde), values that are strings (always containing a character outside [0-9,.] or of the "
        "version form a.b.c, possibly empty, possibly containing '=', ':', parentheses, a leading '-'), decimal scalars "
        "in positional notation (integer-valued, fractional, tiny < 1e-4, huge) or integer lists; oracle: parsed dict == "
        "typed values of the generator, and read(write(read(text))) == read(text). (probe) the full probe grammar of "
        "vp.gens.meta (3A/3B1/3B2/NP2.1/NP2.4/NPultra/nidq, AP/LF, per-channel NP1 gains, channel subsets); oracle: "
        "version, type, nc, nsync, fs, ns, per-channel volts-per-bit for AP and LF, range_volts == independent "
        "calibration oracle computed from the generator's parameters, plus the same round trip. The probe cases are "
        "multi-step on ONE dictionary object (case field `use`): parse, query every derived quantity through the "
        "module-level helpers (order drawn, cheap helpers twice, the table-parsing ones twice in a drawn fifth of the "
        "imec cases and in every nidq case) and through a Reader (on the metadata alone with up to 1e7 announced samples, "
        "or - drawn - on a binary of exactly the announced size with 1..24 samples, including a read); then the used "
        "dictionary and the Reader's own sr.meta must still equal a snapshot / a fresh parse of the same text, a helper "
        "called twice must answer the same, and the round trip is made on the USED dictionaries: re-read == fresh parse, "
        "derived quantities of the re-read dictionary == those of the original, a Reader on the rewritten file (drawn: "
        "written from the parsed dictionary or from sr.meta) has the same version/type/nc/nsync/fs/ns/sample2volts. "
        "Non-trivial = a value "
        "containing '=' or a non-integer float or a tiny float, or (probe) a non-uniform gain table with AP != LF. "
        "Distinct = distinct case hash.")
ASSUMPTIONS = ["numeric values made only of [0-9,.] that are neither a scalar nor an integer list (e.g. '1,,2', ',') are "
               "outside the property's grammar and are not generated",
               "exponent notation is never generated as input (SpikeGLX writes positional decimals)",
               "the getters of derived quantities are read-only: 'parse, write, parse gives an equal dictionary' is required "
               "of a dictionary that has been used in between (callers such as NP2Converter write sr.meta of a Reader they "
               "have read from); equality is type-strict (a float replaced by an equal int counts as a change)",
               "Reader.open legitimately rewrites meta['fileTimeSecs'] when the size of the binary disagrees with the "
               "metadata: the Reader is either built on the metadata alone (never opened) or on a binary of exactly the "
               "announced size",
               "Reader.read is asked for the sync traces only when the stream has a digital sync word (read_sync of a nidq "
               "stream with analog channels and no digital word raises; reading is not this property's matter)"]
# thorough tier: the same property driven by Atheris / libFuzzer (coverage-guided) as a second engine
ATHERIS = {"runs": 300000, "seconds": 240}
BUDGET = {"quick": 16000, "thorough": 400000}

_KEYCHARS = "abcdefghijklmnopqrstuvwxyzABCDEFGHIJKLMNOPQRSTUVWXYZ0123456789_.-:;()[] /"
_STRCHARS = "abcdefghijklmnopqrstuvwxyzABCDEFGHIJKLMNOPQRSTUVWXYZ0123456789_.-:;()[]{} /=,~+*#@!?<>\\'\"%&|^$"
_NONNUM = [c for c in _STRCHARS if c not in "0123456789,."]


@st.composite
def _value(draw):
    kind = draw(st.sampled_from(["str", "str", "empty", "version", "neg", "int", "frac", "tiny", "huge", "list"]))
    if kind == "empty":
        return {"k": "str", "text": ""}
    if kind == "str":
        body = draw(st.text(alphabet=_STRCHARS, min_size=0, max_size=30))
        pos = draw(st.integers(0, len(body)))
        return {"k": "str", "text": body[:pos] + draw(st.sampled_from(_NONNUM)) + body[pos:]}
    if kind == "version":
        parts = draw(st.lists(st.integers(0, 999), min_size=3, max_size=4))
        return {"k": "str", "text": ".".join(str(p) for p in parts)}
    if kind == "neg":
        return {"k": "str", "text": "-" + draw(st.sampled_from(["0.6", "0.5", "5", "0.62", "1"]))}
    if kind == "int":
        v = draw(st.one_of(st.integers(0, 1000), st.integers(0, 2 ** 40)))
        txt = str(v)
        if draw(st.integers(0, 9)) == 0:
            txt = "0" * draw(st.integers(1, 3)) + txt
        return {"k": "scalar", "text": txt}
    if kind == "frac":
        ip = draw(st.integers(0, 10 ** 6))
        fr = draw(st.text(alphabet="0123456789", min_size=1, max_size=12))
        return {"k": "scalar", "text": f"{ip}.{fr}"}
    if kind == "tiny":
        z = draw(st.integers(4, 12))
        fr = draw(st.text(alphabet="123456789", min_size=1, max_size=8))
        return {"k": "scalar", "text": "0." + "0" * z + fr}
    if kind == "huge":
        return {"k": "scalar", "text": draw(st.text(alphabet="123456789", min_size=1, max_size=1))
                + draw(st.text(alphabet="0123456789", min_size=15, max_size=24))}
    lst = draw(st.lists(st.integers(0, 10 ** 6), min_size=2, max_size=8))
    return {"k": "list", "text": ",".join(str(v) for v in lst)}


@st.composite
def _generic(draw):
    n = draw(st.integers(1, 14))
    keys = draw(st.lists(st.text(alphabet=_KEYCHARS, min_size=1, max_size=16).map(lambda s: "k" + s),
                         min_size=n, max_size=n, unique=True))
    lines = []
    for k in keys:
        v = draw(_value())
        lines.append({"key": k, "tilde": draw(st.sampled_from([False, False, True])), **v})
    return {"mode": "generic", "lines": lines}


@st.composite
def _probe(draw):
    if draw(st.integers(0, 7)) == 0:
        spec = draw(gm.st_nidq(ns_range=(1, 10 ** 7)))
    else:
        spec = draw(gm.st_spec(allow_nosync=True, ns_range=(1, 10 ** 7), allow_offset=True))
    nidq = spec["gen"] == "nidq"
    # how the parsed dictionary is USED before it is compared / written back (see _USE_DEFAULT)
    use = {"bin": draw(st.sampled_from([True, True, True, False] if nidq else [True, False])),
           "ns": draw(st.integers(1, 24)), "nread": draw(st.integers(1, 30)),
           "seed": draw(st.integers(0, 2 ** 32 - 1)), "order": draw(st.integers(0, 2 ** 32 - 1)),
           "heavy": True if nidq else draw(st.sampled_from([False, False, False, False, True])),
           "which": draw(st.sampled_from(["d1", "sr"]))}
    return {"mode": "probe", "spec": spec, "use": use}


# case field `use` (probe mode); cases recorded before the field existed run with this default
#   bin    True: the metadata announce `ns` (1..24) samples instead of spec['ns'] and a binary of exactly that size lies next
#          to it (Reader opened on it, `nread` samples read); False: metadata alone, Reader never opened
#   seed   content of the binary; order: seed of the order in which the helpers are called on the parsed dictionary
#   heavy  table-parsing helpers (_conversion_sample2v_from_meta, geometry_from_meta) are called a second time, geometry is
#          queried on the parsed dictionary at all, and a Reader is built on the rewritten file
#   which  dictionary the rewritten file of that Reader comes from: the parsed one ('d1') or the Reader's sr.meta ('sr')
_USE_DEFAULT = {"bin": False, "ns": 8, "nread": 4, "seed": 0, "order": 0, "heavy": True, "which": "d1"}


def strategy(tier):
    return st.one_of(_generic(), _probe())


def _expected_value(line):
    if line["k"] == "str":
        return line["text"]
    if line["k"] == "scalar":
        return float(line["text"])
    return [float(v) for v in line["text"].split(",")]


def _short(v):
    try:
        r = repr(v)
    except Exception:  # noqa
        r = "<unprintable>"
    return r if len(r) <= 120 else r[:117] + "..."


def _same(a, b, where=""):
    """Deep equality of what the code under test handed back (dict / list / tuple / array / scalar): same container kinds (numbers by value: 30000 == 30000.0), same
    shapes, values compared exactly (NaN == NaN). Returns (ok, why) and never raises, whatever the objects are."""
    try:
        if isinstance(a, dict) and isinstance(b, dict):
            if set(a.keys()) != set(b.keys()):
                return False, f"{where}key sets differ: {sorted(map(str, set(a) ^ set(b)))[:5]}"
            for k in a:
                ok, why = _same(a[k], b[k], f"{where}key {k!r}: ")
                if not ok:
                    return ok, why
            return True, ""
        if isinstance(a, np.ndarray) or isinstance(b, np.ndarray):
            if not (isinstance(a, np.ndarray) and isinstance(b, np.ndarray)) or a.shape != b.shape or a.dtype != b.dtype:
                return False, f"{where}{_short(a)} ({type(a).__name__}) != {_short(b)} ({type(b).__name__})"
            ok = bool(np.array_equal(a, b)) or (a.dtype.kind in "fc" and bool(np.array_equal(a, b, equal_nan=True)))
            return ok, "" if ok else f"{where}arrays differ: {_short(a)} != {_short(b)}"
        num = (int, float, np.integer, np.floating)
        if isinstance(a, num) and isinstance(b, num) and not isinstance(a, bool) and not isinstance(b, bool):
            # the property speaks of an *equal* dictionary: 30000 and 30000.0 are equal
            ok = bool(a == b) or (a != a and b != b)
            return ok, "" if ok else f"{where}{_short(a)} != {_short(b)}"
        if type(a) is not type(b) and not (isinstance(a, (list, tuple)) and isinstance(b, (list, tuple))):
            return False, f"{where}{_short(a)} ({type(a).__name__}) != {_short(b)} ({type(b).__name__})"
        if isinstance(a, (list, tuple)):
            if len(a) != len(b):
                return False, f"{where}{_short(a)} != {_short(b)}"
            for i, (x, y) in enumerate(zip(a, b)):
                ok, why = _same(x, y, f"{where}[{i}] ")
                if not ok:
                    return ok, why
            return True, ""
        ok = bool(a == b) or (isinstance(a, float) and a != a and b != b)
        return ok, "" if ok else f"{where}{_short(a)} ({type(a).__name__}) != {_short(b)} ({type(b).__name__})"
    except Exception as e:  # noqa - objects that cannot be compared are not equal
        return False, f"{where}comparison failed with {type(e).__name__}"


def _eq(a, b):
    """Dictionary equality that does not choke on arrays; floats compared exactly, nested lists included."""
    return _same(dict(a), dict(b))


def known_small_float(case, f):
    return f.kind == "C09.roundtrip.small_float"


def known_non_prefix_gain(case, f):
    """NP1 gains read from the first n IMRO entries instead of the entries of the saved (original) channel numbers."""
    return (case.get("mode") == "probe" and case["spec"].get("first_chan", 0) > 0
            and f.kind in ("C09.sample2volts", "C09.range_volts", "C09.gain_ap", "C09.gain_lf"))


KNOWN = {"small_float_exponent": known_small_float, "non_prefix_subset_gain": known_non_prefix_gain}


def _roundtrip(ctx, sg, d, text_path, d1, out="rt.meta", fresh=None):
    """write_meta_data(d1) -> read_meta_data must give a dictionary equal to d1 (and to `fresh`, a new parse of the
    original text, when given). Returns the re-read dictionary, or None when there is nothing to go on with."""
    p2 = d / out
    r = ctx.call("C09.write", sg.write_meta_data, d1, p2)
    if r is ctx.CRASH:
        return None
    d2 = ctx.call("C09.reread", sg.read_meta_data, p2)
    if d2 is ctx.CRASH:
        return None
    if not ctx.check(isinstance(d2, dict), "C09.parse", lambda: f"read_meta_data returned a {type(d2).__name__}"):
        return None
    ok, why = _eq(d1, d2)
    if not ok:
        # classify the root cause: a float below 1e-4 written in exponent notation
        small = any(isinstance(v, float) and v != 0 and abs(v) < 1e-4 and isinstance(d2.get(k), str)
                    for k, v in d1.items())
        ctx.fail("C09.roundtrip.small_float" if small else "C09.roundtrip", why)
        return None
    if fresh is not None:
        ok, why = _eq(fresh, d2)
        if not ctx.check(ok, "C09.roundtrip", lambda: "dictionary written after use and parsed again differs from a fresh "
                                                      "parse of the original text: " + why):
            return None
    return d2


# read-only helpers that derive a quantity from a metadata dictionary; the last two parse the per-channel tables
_CHEAP = ["_get_type_from_meta", "_get_sync_trace_indices_from_meta", "_get_analog_sync_trace_indices_from_meta",
          "_get_nchannels_from_meta", "_get_fs_from_meta", "_get_neuropixel_version_from_meta",
          "_get_neuropixel_major_version_from_meta", "_get_serial_number_from_meta", "_get_max_int_from_meta"]
_CONV, _GEOM = "_conversion_sample2v_from_meta", "geometry_from_meta"


def _query(ctx, sg, md, names, kind):
    """Calls the helpers `names` on the dictionary md; {name: result} (crashed ones are left out)."""
    out = {}
    for name in names:
        r = ctx.call(kind, lambda: getattr(sg, name)(md))
        if r is not ctx.CRASH:
            out[name] = r
    return out


def _compare(ctx, a, b, kind, what):
    """Results of the same helpers on two occasions must be the same (keys of a that are missing in b crashed: reported
    there)."""
    for name in a:
        if name in b:
            ok, why = _same(a[name], b[name])
            ctx.check(ok, kind, lambda: f"{name} {what}: {why}")


def _reader_summary(ctx, sr, kind):
    got = ctx.call(kind, lambda: {"version": sr.version, "type": sr.type, "nc": sr.nc, "nsync": sr.nsync, "fs": sr.fs,
                                  "ns": sr.ns, "sample2volts": np.asarray(sr.sample2volts), "geometry": sr.geometry})
    return None if got is ctx.CRASH else got


def _probe_steps(case, ctx, sg, d, p, spec, use, stem, data, d1, snap, sr):
    """Everything that happens once the file is parsed (d1, snapshot snap) and a Reader sr is built on it."""
    gen = spec["gen"]
    nc = gm.n_channels(spec)
    typ = "nidq" if gen == "nidq" else spec["stream"]
    nsync = spec["dw"] if gen == "nidq" else spec.get("nsync", 1)
    ver = None if gen == "nidq" else gen
    got = ctx.call("C09.derived", lambda: (sr.version, sr.type, sr.nc, sr.nsync, sr.fs, sr.ns))
    if got is not ctx.CRASH:
        exp = (ver, typ, nc, nsync, spec["fs"], spec["ns"])
        ctx.check(got == exp, "C09.derived", lambda: f"(version,type,nc,nsync,fs,ns) = {got} != {exp}")
    es2v = calib.s2v(spec)
    s2v = ctx.call("C09.s2v", lambda: np.asarray(sr.sample2volts))
    if s2v is not ctx.CRASH:
        ctx.check(s2v.shape == es2v.shape and np.allclose(s2v, es2v, rtol=1e-6, atol=0), "C09.sample2volts",
                  lambda: f"sample2volts {s2v[:3]}.. != range/maxint/gain {es2v[:3]}..")
    rv = ctx.call("C09.range_volts", lambda: np.asarray(sr.range_volts))
    if rv is not ctx.CRASH:
        erv = calib.range_volts(spec)
        ctx.check(rv.shape == erv.shape and np.allclose(rv, erv, rtol=1e-6, atol=0), "C09.range_volts",
                  lambda: f"range_volts {rv[:3]}.. != {erv[:3]}..")
    if use["bin"]:
        # the reader is used for what it is made for; only the shape of what comes back is asserted here (reading is C01's
        # matter). The sync traces are asked for when the stream has a digital sync word (read_sync is not defined by
        # this property for streams without one: it raises for a nidq stream with analog channels only).
        nread = min(int(use["nread"]), spec["ns"])
        r = ctx.call("C09.use_read", sr.read, slice(0, int(use["nread"])), sync=nsync > 0)
        if r is not ctx.CRASH:
            arr = r[0] if nsync > 0 and isinstance(r, tuple) and len(r) == 2 else r
            ctx.check(np.shape(arr) == (nread, nc), "C09.use_read",
                      lambda: f"read(slice(0, {use['nread']})) of a ({spec['ns']}, {nc}) file returned {_short(r)}")

    # ---- every derived quantity through the module-level helpers, on the SAME parsed dictionary, in a drawn order
    heavy = bool(use["heavy"])
    names = _CHEAP + [_CONV] + ([_GEOM] if heavy else [])
    names = [names[i] for i in np.random.default_rng(int(use["order"])).permutation(len(names))]
    r1 = _query(ctx, sg, d1, names, "C09.helper")
    emaxint = spec.get("maxint") or (32768 if gen == "nidq" else 512)
    mnma = spec["mn"] + spec["ma"] if gen == "nidq" else 0
    expd = {"_get_type_from_meta": typ, "_get_sync_trace_indices_from_meta": list(range(nc - nsync, nc)),
            "_get_analog_sync_trace_indices_from_meta": list(range(mnma, mnma + spec["xa"])) if gen == "nidq" else [],
            "_get_nchannels_from_meta": nc, "_get_fs_from_meta": spec["fs"], "_get_neuropixel_version_from_meta": ver,
            "_get_neuropixel_major_version_from_meta": None if gen == "nidq" else calib.major(gen),
            "_get_max_int_from_meta": emaxint}
    for name, e in expd.items():
        if name in r1:
            ok, why = _same(r1[name], e)
            ctx.check(ok, "C09.derived", lambda: f"{name}(parsed dictionary): {why}")
    conv = r1.get(_CONV)
    if conv is not None and ctx.check(isinstance(conv, dict), "C09.derived", lambda: f"{_CONV} returned {_short(conv)}"):
        if gen != "nidq":
            for k in ("ap", "lf"):
                e = calib.s2v(spec, k)
                ctx.check(k in conv and np.shape(conv[k]) == e.shape and np.allclose(conv[k], e, rtol=1e-6, atol=0),
                          "C09.gain_" + k, lambda: f"{k} volts-per-bit differ from the {k} gain column")
        else:
            ctx.check("nidq" in conv and np.shape(conv["nidq"]) == es2v.shape
                      and np.allclose(conv["nidq"], es2v, rtol=1e-6, atol=0), "C09.sample2volts",
                      lambda: f"{_CONV}(parsed dictionary)['nidq'] = {_short(conv.get('nidq'))} != {es2v}")
    if gen != "nidq":
        if gm.is_np1(gen) or gen == "NPultra":
            g = np.array(gm.gains_of(spec)[:spec["n"]])
            if np.unique(g[:, 0]).size > 1 and np.any(g[:, 0] != g[:, 1]):
                ctx.nontrivial = True
                ctx.label("nonuniform_gains")
        if spec["n"] < spec["n_acq"]:
            ctx.label("subset")
        if spec.get("first_chan", 0) > 0:
            ctx.label("non_prefix_subset")
    if spec["ns"] / spec["fs"] < 1e-4:
        ctx.label("tiny_float")
    # (c) asked twice, a helper answers the same (the table-parsing ones are repeated in the `heavy` cases only)
    again = [n for n in reversed(names) if heavy or n in _CHEAP]
    _compare(ctx, r1, _query(ctx, sg, d1, again, "C09.helper"), "C09.unstable", "called twice on the same dictionary")
    if heavy:
        ctx.label("used_heavy")
        geo = ctx.call("C09.helper", lambda: sr.geometry)
        if geo is not ctx.CRASH and _GEOM in r1:
            ok, why = _same(r1[_GEOM], geo)
            ctx.check(ok, "C09.unstable", lambda: "geometry_from_meta(parsed dictionary) differs from the geometry of the "
                                                  "Reader built on the same file: " + why)

    # (a) using a dictionary does not change it: the parsed dictionary and the Reader's own one still equal the snapshot
    # taken straight after parsing and a fresh parse of the same text
    fresh = ctx.call("C09.read", sg.read_meta_data, p)
    if fresh is ctx.CRASH or not ctx.check(isinstance(fresh, dict), "C09.parse", "second parse did not return a dict"):
        return
    ok, why = _same(snap, dict(fresh))
    if not ctx.check(ok, "C09.parse", lambda: "two parses of the same file differ: " + why):
        return
    ok, why = _eq(snap, d1)
    pristine = ctx.check(ok, "C09.meta_mutated", lambda: "the parsed dictionary changed while the derived quantities were "
                                                         "queried on it (helpers " + ", ".join(names) + "): " + why)
    srm = ctx.call("C09.reader", lambda: sr.meta)
    sr_pristine = False
    if srm is not ctx.CRASH and ctx.check(isinstance(srm, dict), "C09.reader", lambda: f"sr.meta is {_short(srm)}"):
        ok, why = _eq(snap, srm)
        sr_pristine = ctx.check(ok, "C09.meta_mutated", lambda: "Reader.meta differs from a fresh parse of its file after "
                                                                "the properties were queried"
                                                                + (" and samples read: " if use["bin"] else ": ") + why)

    # (b) the round trip of the property on the USED dictionaries (a changed dictionary is reported above, once)
    (d / "rt_d1").mkdir()
    (d / "rt_sr").mkdir()
    d2 = _roundtrip(ctx, sg, d, p, d1, out=f"rt_d1/{stem}.meta", fresh=fresh) if pristine else None
    if d2 is not None:
        r2 = _query(ctx, sg, d2, [n for n in names if n != _GEOM], "C09.rt_helper")
        _compare(ctx, r1, r2, "C09.roundtrip.derived", "of the dictionary parsed from the rewritten file differs from the "
                                                       "one of the original dictionary")
    s2 = _roundtrip(ctx, sg, d, p, srm, out=f"rt_sr/{stem}.meta", fresh=fresh) if sr_pristine else None
    which = "rt_sr" if use["which"] == "sr" else "rt_d1"
    if heavy and (s2 if which == "rt_sr" else d2) is not None:
        # a Reader on the rewritten file derives the same quantities as the Reader on the original one
        ctx.label("used_reader_" + which)
        before = _reader_summary(ctx, sr, "C09.derived")
        f2 = d / which / (stem + ".meta")
        if use["bin"]:
            f2 = f2.with_suffix(".bin")
            data.tofile(f2)
        sr2 = ctx.call("C09.rt_reader", sg.Reader, f2)
        if sr2 is not ctx.CRASH:
            after = _reader_summary(ctx, sr2, "C09.rt_reader")
            if before is not None and after is not None:
                _compare(ctx, before, after, "C09.roundtrip.derived", "of the Reader on the rewritten file differs from the "
                                                                      "one of the Reader on the original file")
            ctx.call("C09.rt_reader", sr2.close)


def _caller_edits(ctx, sg, p, snap):
    """A dictionary handed out by the parser belongs to the caller: editing it - list values in place, as the converter and
    the reconstructor do when they derive the header of an LF or shank file - must not show in the next parse of the file."""
    mine = ctx.call("C09.read", sg.read_meta_data, p)
    if mine is ctx.CRASH or not isinstance(mine, dict):
        return
    nlist = 0
    for k in list(mine):
        v = mine[k]
        if isinstance(v, list) and v:
            v[0] = 0 if v[0] != 0 else 7
            v.append(99)
            nlist += 1
    mine["typeThis"] = "edited"
    mine["fileTimeSecs"] = -1.0
    if nlist:
        ctx.label("caller_edits_list_values")
    again = ctx.call("C09.read", sg.read_meta_data, p)
    if again is ctx.CRASH or not ctx.check(isinstance(again, dict), "C09.parse", "parse after an edit did not return a dict"):
        return
    ok, why = _same(snap, dict(again))
    ctx.check(ok, "C09.parse_shared_state", lambda: "a parse of the untouched file shows the edits another caller made to the "
                                                     "dictionary of an earlier parse: " + why)


def run_case(case, ctx):
    sg = sut.spikeglx()
    with rec.scratch_dir(ctx) as d:
        p = d / "in.meta"
        if case["mode"] == "generic":
            lines = case["lines"]
            p.write_text("".join(("~" if l["tilde"] else "") + l["key"] + "=" + l["text"] + "\n" for l in lines))
            kinds = {l["k"] for l in lines}
            ctx.label("generic", *("val_" + k for k in kinds))
            exp = {l["key"]: _expected_value(l) for l in lines}
            exp["neuropixelVersion"] = None
            exp["serial"] = None
            for l in lines:
                if l["k"] == "str" and "=" in l["text"]:
                    ctx.label("str_with_eq")
                    ctx.nontrivial = True
                if l["k"] == "scalar" and not float(l["text"]).is_integer():
                    ctx.nontrivial = True
                    if float(l["text"]) < 1e-4:
                        ctx.label("tiny_float")
            d1 = ctx.call("C09.read", sg.read_meta_data, p)
            if d1 is ctx.CRASH:
                return
            if not ctx.check(isinstance(d1, dict), "C09.parse", lambda: f"read_meta_data returned a {type(d1).__name__}"):
                return
            ok, why = _eq(exp, d1)
            ctx.check(ok, "C09.parse", lambda: "parsed dictionary differs from the generated values: " + why)
            _roundtrip(ctx, sg, d, p, d1)
            _caller_edits(ctx, sg, p, copy.deepcopy(dict(d1)))
            return
        # ---- probe grammar
        spec = case["spec"]
        use = {**_USE_DEFAULT, **(case.get("use") or {})}
        if use["bin"]:
            spec = dict(spec, ns=int(use["ns"]))  # the announced size is the size of the binary written below
        gen = spec["gen"]
        stem = "run_g0_t0.nidq" if gen == "nidq" else f"run_g0_t0.imec0.{spec['stream']}"
        p = d / (stem + ".meta")
        p.write_text(gm.build_text(spec))
        nc = gm.n_channels(spec)
        typ = "nidq" if gen == "nidq" else spec["stream"]
        nsync = spec["dw"] if gen == "nidq" else spec.get("nsync", 1)
        ver = None if gen == "nidq" else gen
        ctx.label("probe", gen, "used_" + typ)
        data = None
        if use["bin"]:
            data = rec.make_data(spec["ns"], nc, int(use["seed"]), mode="full", nsync=nsync)
            data.tofile(d / (stem + ".bin"))
            ctx.label("used_bin")
        d1 = ctx.call("C09.read", sg.read_meta_data, p)
        if d1 is ctx.CRASH:
            return
        if not ctx.check(isinstance(d1, dict), "C09.parse", lambda: f"read_meta_data returned a {type(d1).__name__}"):
            return
        snap = copy.deepcopy(dict(d1))  # what the parser handed out, before anybody used it
        ctx.check(d1.get("neuropixelVersion") == ver, "C09.version", lambda: f"version {d1.get('neuropixelVersion')} != {ver}")
        sr = ctx.call("C09.reader", sg.Reader, d / (stem + ".bin") if use["bin"] else p)
        if sr is ctx.CRASH:
            return
        try:
            _probe_steps(case, ctx, sg, d, p, spec, use, stem, data, d1, snap, sr)
        finally:
            ctx.call("C09.reader", sr.close)
        _caller_edits(ctx, sg, p, snap)
