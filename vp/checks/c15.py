"""C15 - Bad-channel repair touches only bad channels; detection finds injected faults
(ibldsp.voltage.interpolate_bad_channels / detect_bad_channels / detect_bad_channels_cbin)."""
import numpy as np
from hypothesis import strategies as st

from vp import sut
from vp.gens import meta as gm, recording as rec
from vp.oracles import calib

ID = "C15"
LEVEL = "exploration"
RULE = ("Three case kinds. (interp, 84 %) geometry (dense 3B2 / NP2.1 / NP2.4 (shank pitch 0 or 250 um) / NPultra site "
        "tables, staggered grids with 3-40 um pitch, single lines, random and snapped point clouds with coincident sites; "
        "1..384 channels, disk or shuffled channel order) x label vector over {0,1,2,3} written as runs over a base "
        "label (clusters, both ends, all bad, islands of good channels in a bad probe, top block of 3s; float/int "
        "dtypes) x data from a seed (common DC offset + noise, constant, per-channel ramp, pure noise; f4/f8; 1..48 "
        "samples) x (p, kriging distance). Oracle: rows not labelled 1/2 bit-identical; each 1/2 row inside [min, max] "
        "of its admissible channels (not labelled 1/2, exp(-(d/kd)^p) >= 0.005) at every sample, all zero without any; "
        "same output after the bad rows of the input were replaced by junk; and the function applied to the identity "
        "matrix must return, in each bad row, weights >= 0 that vanish outside the admissible set and sum to 1 "
        "(+-1e-10) - the literal 'convex combination'. (detect, 15 %) coherent AP-band background (1-4 band-limited "
        "common sources x smooth per-channel gains + 2-6 uV white noise, 96..384 channels, 0.2-0.4 s at 30 kHz) with at "
        "most one silent channel (zeros or 1 uV own noise), one channel with 45-140 uV broadband noise (added to, or "
        "replacing, the signal) and a top block of 0..40 channels without the common signal, positions drawn over the "
        "whole probe incl. both ends, next to / inside the block; labels must equal the injected vector (a silent "
        "channel that is the last channel, touches the block from below or lies inside it may be 1 or 3). Every silent "
        "position 0..383, every noisy position and every block size 0..40 is enumerated once per background. (file, "
        "1 %) 384-channel 3B2 / NP2.1 recording (bin or cbin) of 3-5 batches of 0.15-0.3 s separated by guard gaps, each batch with "
        "its own fault set; detect_bad_channels_cbin must return, per channel, a most frequent value of the injected "
        "per-batch labels and of the labels detect_bad_channels gives on the harness' own copy of each batch. "
        "Call forms, re-use, argument memory (drawn case fields, same oracles). interp: labels / x / y positional or as "
        "keywords; p and kriging_distance_um omitted, both given (also at their default values) or only the non-default one; "
        "x int64 + y float64 (what neuropixel.trace_header returns), both int64, float64 or float32 (float32: cut-off band 2e-5, "
        "weight sums within (n+4)*eps32); labels as f8/f4/i8/i4/i1/u1; labels and coordinates contiguous, read-only, or every "
        "second element of a longer array; data C-ordered, Fortran-ordered (a transposed view) or a strided view; the same "
        "label / x / y objects for all calls of a case or fresh ones, compared with pristine copies after every call (callers "
        "go on using them); in half of the cases a call with the same geometry and ANOTHER label vector (all bad, the bad set "
        "dilated by 1-6 channels, good and bad swapped, rolled) precedes the checked calls. detect: input C-ordered, the "
        "transposed view of an (ns, nc) array (what Reader[a:b, :nc].T is) or every second sample of a longer array, writable "
        "or read-only; fs positional or keyword; similarity_threshold / psd_hf_threshold omitted, given at their default values "
        "(tuple, list, array; 0.02) singly or together, or moved mildly ((-0.4, 0.8) + 0.012, (-0.6, 1.5) + 0.035); in about a third of "
        "the drawn cases a second call: either the same array object again (same labels required), or - before the checked "
        "call - the same recording with the channels reversed, whose returned labels and features must still be intact "
        "afterwards. file: the recording given as Path, str or an open Reader (which must return the same samples after the "
        "call and, in a third of these cases, the same labels from a second call on it); every file case also scans a single "
        "batch (n_batches=1) with the file named in the other way (str / Path), expecting the labels injected into the first "
        "batch; the harness' per-batch copies are "
        "contiguous arrays or read-only column views of the whole recording. "
        "Non-trivial = interp: a bad channel with another bad channel inside its neighbourhood or at an end of the "
        "array; detect/file: at least one fault at a drawn position. Distinct = distinct case hash.")
EXHAUSTIVE_NOTE = ("detection: every silent-channel position, every noisy-channel position (a permutation of the positions) "
                   "and every top-block size 0..40 is enumerated on 1 (quick) / 6 (thorough) fixed backgrounds, plus a "
                   "hand-written list of end / block-edge placements; this is one sweep per axis, not the product, and "
                   "interpolation inputs are sampled. The call form (8 keyword forms), the memory layout (C / transposed / "
                   "strided) and read-only input rotate along the sweep, so each form meets positions spread over the probe, "
                   "not every position. Two fixed file cases run in every tier: the default call form on a 1.38 s recording "
                   "(shorter than n_batches x batch_duration) given as an open Reader, and three separate batches with "
                   "different fault sets (thorough: two more short recordings)")
ASSUMPTIONS = [
    "'nearby' = raw decay weight exp(-(d/kriging_distance)^p) >= 0.005 (the anchor's cut-off); a channel whose raw weight is "
    "within 1e-9 relative of 0.005 may or may not contribute",
    "range check tolerance: (4*eps(dtype) + 4*k*eps(f8)) * max|neighbour value| for k admissible channels; weight sums "
    "within 1e-10 of 1",
    "bad rows of the input hold finite junk in the independence check (NaN/inf in dead channels are not generated)",
    "detection faults are one silent channel, one noisy channel and one top block per snippet, as the statement lists them; "
    "two silent channels or mid-probe incoherent blocks are not generated",
    "the noisy channel carries the common signal plus noise; the variant whose signal is replaced by noise (tests 'noisy "
    "over dead' precedence) also lacks the common signal, so it is only placed >= 6 channels away from the silent channel, "
    "both ends and the block edge, or inside the block",
    "a silent channel that is the last channel of the probe, the channel just below the top block, or inside the block is "
    "accepted as 1 or 3 (the statement gives both answers)",
    "file cases keep the silent channel away from channel 0 and from the top 46 channels so that per-batch expectations "
    "are single-valued; ties between most frequent labels are accepted either way",
    "non-default detection thresholds are only generated within a third of the measured margins (clear channels: detrended "
    "similarity within 0.01 of 0, PSD <= 0.14 x 0.02; silent: similarity <= -0.88; noisy: PSD >= 6 x 0.02), where the statement's "
    "labels cannot depend on them; what a strongly different threshold should do is not part of the statement, so a keyword "
    "value that is silently ignored is not detectable here; the two known placements are always run at the default values",
    "interpolate_bad_channels modifies `data` in place by design (all callers use the return value): the data argument is not "
    "compared with a copy, read-only data is outside the domain; labels / x / y must come back unchanged",
    "coordinates given as unsigned integers wrap around in x - x[i] on the unchanged tree and lists of Python floats raise: "
    "neither is produced by neuropixel / spikeglx, both are outside the domain; label vectors given as lists raise as well",
    "the broadband-noise amplitude is at least 45 uV rms (PSD 7 x the AP threshold) and the white background noise at most "
    "6 uV rms (PSD 0.12 x the threshold): thresholds themselves are not part of the statement",
]
BUDGET = {"quick": 800, "thorough": 24000}
SHRINK = {"quick": False, "thorough": True}
WALL_CAP = {"quick": 900, "thorough": 5400}

CUT = 0.005
FS_AP = 30000.0


def known_renorm_threshold(case, f):
    return f.kind == "C15.interp.renorm_threshold"


def known_dead_at_channel_0(case, f):
    return f.kind == "C15.detect.dead_at_channel_0"


def known_clear_between_dead_and_outside(case, f):
    return f.kind == "C15.detect.clear_between_dead_and_outside"


KNOWN = {"renorm_threshold": known_renorm_threshold,
         "dead_at_channel_0": known_dead_at_channel_0,
         "clear_between_dead_and_outside": known_clear_between_dead_and_outside}


# ------------------------------------------------------------------------------------------------------------------
# interpolation: generators

def _geometry(g):
    n, t = g["n"], g["type"]
    if t == "probe":
        gen = g["gen"]
        sites = gm.dense_sites(gen, nshank=4 if gen == "NP2.4" else None)[:n]
        xy = np.array([calib.site_xy_rc(gen, *s)[:2] for s in sites], dtype=float).reshape(n, 2)
        x = xy[:, 0] + np.array([s[0] for s in sites], dtype=float) * g.get("shank_pitch", 0)
        y = xy[:, 1]
    elif t == "grid":
        i = np.arange(n)
        nco = g["ncols"]
        x = (i % nco) * float(g["px"]) + ((i // nco) % 2) * float(g.get("stagger", 0))
        y = (i // nco) * float(g["py"])
    elif t == "random":
        rng = np.random.default_rng(g["seed"])
        x = rng.uniform(0, g["w"], n)
        y = rng.uniform(0, g["h"], n)
        if g.get("snap"):
            x = np.round(x / g["snap"]) * g["snap"]
            y = np.round(y / g["snap"]) * g["snap"]
    else:
        raise ValueError(t)
    if g.get("perm_seed") is not None:
        perm = np.random.default_rng(g["perm_seed"]).permutation(n)
        x, y = x[perm], y[perm]
    return np.ascontiguousarray(x, dtype=float), np.ascontiguousarray(y, dtype=float)


def _labels(n, spec):
    lab = np.full(n, spec["base"], dtype=np.int64)
    top3 = min(spec.get("top3", 0), n)
    if top3:
        lab[n - top3:] = 3
    for s, ln, v in spec["runs"]:
        s = min(s, n - 1)
        lab[s:s + ln] = v
    return lab


@st.composite
def _st_geom(draw):
    n = draw(st.one_of(st.just(384), st.integers(1, 384), st.integers(1, 24)))
    t = draw(st.sampled_from(["probe", "probe", "probe", "grid", "grid", "random"]))
    g = {"type": t, "n": n}
    if t == "probe":
        g["gen"] = draw(st.sampled_from(["3B2", "NP2.1", "NP2.4", "NPultra"]))
        if g["gen"] == "NP2.4":
            g["shank_pitch"] = draw(st.sampled_from([0, 250]))
    elif t == "grid":
        g["ncols"] = draw(st.sampled_from([1, 1, 2, 4, 8]))
        g["px"] = draw(st.sampled_from([3, 6, 16, 32, 40]))
        g["py"] = draw(st.sampled_from([3, 6, 10, 15, 20, 40, 80]))
        g["stagger"] = draw(st.sampled_from([0, 0, 3, 16]))
    else:
        g["seed"] = draw(st.integers(0, 2 ** 32 - 1))
        g["w"] = draw(st.sampled_from([0, 30, 70, 300]))
        g["h"] = draw(st.sampled_from([40, 200, 1000, 4000]))
        g["snap"] = draw(st.sampled_from([0, 0, 5, 20]))
    if draw(st.integers(0, 3)) == 0:
        g["perm_seed"] = draw(st.integers(0, 2 ** 32 - 1))
    return g


@st.composite
def _st_labels(draw, n):
    mode = draw(st.sampled_from(["runs", "runs", "runs", "ends", "islands", "all_bad", "alternate"]))
    spec = {"base": 0, "runs": [], "top3": 0}
    maxlen = max(1, min(12, n))
    if mode in ("runs", "ends"):
        spec["top3"] = draw(st.sampled_from([0, 0, 0, 1, 5, 17, 40]))
        for _ in range(draw(st.integers(1, 6))):
            spec["runs"].append([draw(st.integers(0, n - 1)), draw(st.integers(1, maxlen)),
                                 draw(st.sampled_from([1, 1, 2, 2, 3]))])
        if mode == "ends":
            which = draw(st.sampled_from(["first", "last", "both"]))
            if which in ("first", "both"):
                spec["runs"].append([0, draw(st.integers(1, maxlen)), draw(st.sampled_from([1, 2]))])
            if which in ("last", "both"):
                ln = draw(st.integers(1, maxlen))
                spec["runs"].append([max(0, n - ln), ln, draw(st.sampled_from([1, 2]))])
    elif mode == "islands":
        spec["base"] = draw(st.sampled_from([1, 2]))
        for _ in range(draw(st.integers(0, 4))):
            spec["runs"].append([draw(st.integers(0, n - 1)), draw(st.integers(1, maxlen)),
                                 draw(st.sampled_from([0, 0, 3, 1, 2]))])
    elif mode == "all_bad":
        spec["base"] = draw(st.sampled_from([1, 2]))
        for _ in range(draw(st.integers(0, 3))):
            spec["runs"].append([draw(st.integers(0, n - 1)), draw(st.integers(1, maxlen)), draw(st.sampled_from([1, 2]))])
    else:  # alternate: every k-th channel bad
        k = draw(st.integers(2, 5))
        off = draw(st.integers(0, k - 1))
        spec["runs"] = [[i, 1, 1 + (i // k) % 2] for i in range(off, n, k)]
    return spec


_MEMS = ["c", "c", "ro", "strided", "ro_strided"]


@st.composite
def _interp_case(draw):
    g = draw(_st_geom())
    n = g["n"]
    lab = draw(_st_labels(n))
    mode = draw(st.sampled_from(["common_dc", "common_dc", "const", "ramp", "noise"]))
    data = {"seed": draw(st.integers(0, 2 ** 32 - 1)), "ns": draw(st.integers(1, 48)), "mode": mode,
            "dc": draw(st.sampled_from([1.0, -5.0, 100.0, 3e-4, -2e-5])),
            "amp": draw(st.sampled_from([1e-3, 1e-2, 0.1])), "dtype": draw(st.sampled_from(["f8", "f8", "f4"]))}
    p, kd = draw(st.sampled_from([(1.3, 20), (1.3, 20), (1.3, 20), (1.0, 20), (2.0, 20), (1.3, 10), (1.3, 40), (1.3, 6)]))
    case = {"kind": "interp", "geom": g, "labels": lab,
            "label_dtype": draw(st.sampled_from(["f8", "f8", "i8", "i1", "u1", "i4", "f4"])),
            "data": data, "p": p, "kd": kd}
    # call form, re-use, argument memory / dtype (all read with case.get: old corpus cases lack them)
    case["args_form"] = draw(st.sampled_from(["pos", "pos", "kw"]))
    case["pk_form"] = draw(st.sampled_from(["auto", "auto", "explicit", "single"]))
    case["geom_dtype"] = draw(st.sampled_from(["f8", "f8", "xi8", "xi8", "i8", "f4"]))
    case["geom_mem"] = draw(st.sampled_from(_MEMS))
    case["label_mem"] = draw(st.sampled_from(_MEMS))
    case["data_layout"] = draw(st.sampled_from(["C", "C", "F", "strided"]))
    case["share_args"] = draw(st.sampled_from([True, True, False]))
    if draw(st.integers(0, 1)):
        case["prime"] = {"mode": draw(st.sampled_from(["all_bad", "dilate", "dilate", "complement", "roll"])),
                         "k": draw(st.integers(1, 6))}
    return case


# ------------------------------------------------------------------------------------------------------------------
# interpolation: oracle

_DT = {"f8": np.float64, "f4": np.float32, "i8": np.int64, "i1": np.int8, "u1": np.uint8, "i4": np.int32}
EPS32 = float(np.finfo(np.float32).eps)


def _vec(a, mem):
    """A fresh 1-D argument object holding the values of `a`: 'c' contiguous, 'strided' every second element of a longer
    array (the elements in between hold junk), 'ro' read-only (what np.memmap(mode='r') or a cached table hands out)."""
    a = np.asarray(a)
    if "strided" in mem:
        big = np.full(2 * a.size + 1, 97, dtype=a.dtype)
        big[1::2] = a
        a = big[1::2]
    else:
        a = np.array(a, copy=True)
    if "ro" in mem:
        a.flags.writeable = False
    return a


def _mat(D, layout, junk=0.0):
    """A fresh writable 2-D array equal to D: C-ordered, Fortran-ordered (= the transposed view of a (ns, nc) C array, what
    Reader[...].T is) or a view on every second row and column of a larger array."""
    if layout == "F":
        return np.array(D, order="F", copy=True)
    if layout == "strided":
        big = np.full((2 * D.shape[0] + 1, 2 * D.shape[1] + 1), junk, dtype=D.dtype)
        big[1::2, 1::2] = D
        return big[1::2, 1::2]
    return np.array(D, order="C", copy=True)


def _prime_labels(lab, prime):
    """Another label vector for the same geometry (the call made before the calls that are checked)."""
    n, mode, k = lab.size, prime["mode"], int(prime.get("k", 1))
    bad = (lab == 1) | (lab == 2)
    if mode == "all_bad":
        return np.ones(n, dtype=np.int64)
    if mode == "dilate":
        out = lab.copy()
        for i in np.flatnonzero(bad):
            sl = slice(max(0, i - k), i + k + 1)
            out[sl] = np.where(bad[sl], out[sl], 1 + (i % 2))
        return out
    if mode == "complement":
        return np.where(lab == 0, 1, np.where(bad, 0, lab)).astype(np.int64)
    return np.roll(lab, k)


def _make_data(n, d):
    rng = np.random.default_rng(d["seed"])
    ns, dc, amp = d["ns"], d["dc"], d["amp"]
    z = rng.standard_normal((n, ns))
    if d["mode"] == "const":
        D = np.full((n, ns), dc)
    elif d["mode"] == "common_dc":
        D = dc * (1 + amp * z)
    elif d["mode"] == "ramp":
        D = dc * (1 + np.arange(n)[:, None] / 7.0 + amp * z)
    else:
        D = abs(dc) * z
    return np.ascontiguousarray(D.astype(_DT[d["dtype"]])), rng


def _run_interp(case, ctx):
    v = sut.voltage()
    x, y = _geometry(case["geom"])
    n = x.size
    # dtype of the coordinates as handed over: neuropixel.trace_header gives x as int64 and y as float64 ('xi8'); the oracle
    # works on the values that are handed over (rounded to integers / to float32), in float64
    gdt = case.get("geom_dtype", "f8")
    if gdt in ("xi8", "i8"):
        xg = np.round(x).astype(np.int64)
        yg = np.round(y).astype(np.int64) if gdt == "i8" else y
    elif gdt == "f4":
        xg, yg = x.astype(np.float32), y.astype(np.float32)
    else:
        xg, yg = x, y
    x, y = xg.astype(np.float64), yg.astype(np.float64)
    f4geom = gdt == "f4"
    near_rel = 2e-5 if f4geom else 1e-9  # float32 coordinates: the raw weights carry ~2e-6 relative rounding error
    lab = _labels(n, case["labels"])
    bad = (lab == 1) | (lab == 2)
    ibad = np.flatnonzero(bad)
    ldt = _DT[case["label_dtype"]]
    p, kd = case["p"], case["kd"]
    pkf = case.get("pk_form", "auto")
    if pkf == "explicit":
        kw = {"p": p, "kriging_distance_um": kd}  # both keywords given, also at their default values
    elif pkf == "single":
        kw = dict(([("p", p)] if p != 1.3 else []) + ([("kriging_distance_um", kd)] if kd != 20 else []))
    else:
        kw = {} if (p, kd) == (1.3, 20) else {"p": p, "kriging_distance_um": kd}
    D, rng = _make_data(n, case["data"])
    eps = float(np.finfo(D.dtype).eps)
    layout = case.get("data_layout", "C")
    gmem, lmem = case.get("geom_mem", "c"), case.get("label_mem", "c")
    share = case.get("share_args", False)
    kwform = case.get("args_form", "pos") == "kw"
    prime = case.get("prime")

    # neighbourhoods from the definition
    adm, amb = {}, {}
    clustered = False
    for i in ibad:
        d = np.hypot(x - x[i], y - y[i])
        raw = np.exp(-((d / kd) ** p))
        near = np.abs(raw - CUT) <= CUT * near_rel
        a = (~bad) & (raw >= CUT) & ~near
        adm[i], amb[i] = a, (~bad) & near
        if np.any(bad & (raw >= CUT) & (np.arange(n) != i)):
            clustered = True
    g = case["geom"]
    ctx.label("interp", "geom_" + (g.get("gen") or g["type"]), "dtype_" + case["data"]["dtype"], "data_" + case["data"]["mode"],
              "labels_" + case["label_dtype"], "default_pk" if (p, kd) == (1.3, 20) else "custom_pk",
              "perm" if g.get("perm_seed") is not None else "disk_order",
              "pk_omitted" if not kw else ("pk_explicit_default" if (p, kd) == (1.3, 20) else f"pk_{len(kw)}_keywords"),
              "args_keywords" if kwform else "args_positional", "xy_" + gdt, "xy_mem_" + gmem, "labels_mem_" + lmem,
              "data_" + layout, "same_argument_objects" if share else "fresh_argument_objects",
              "after_call_with_other_labels_" + prime["mode"] if prime else "first_call_for_geometry_in_case")
    if ibad.size == 0:
        ctx.label("no_bad")
    if ibad.size == n:
        ctx.label("all_bad")
    if np.any(lab == 3):
        ctx.label("has_outside")
    if clustered:
        ctx.label("bad_cluster")
    if ibad.size and (bad[0] or bad[-1]):
        ctx.label("bad_at_end")
    if any(not adm[i].any() for i in ibad):
        ctx.label("bad_without_neighbour")
    if any(adm[i].any() and np.all(lab[adm[i]] == 3) for i in ibad):
        ctx.label("only_outside_neighbours")
    if ibad.size and (clustered or bad[0] or bad[-1]):
        ctx.nontrivial = True

    shared = {}

    def geom_args():
        # the same x / y objects for every call of the case (as decompress_destripe_cbin does with its header) or fresh ones
        if not share or "xy" not in shared:
            shared["xy"] = (_vec(xg, gmem), _vec(yg, gmem))
        return shared["xy"]

    def call(arr, labels=None):
        if labels is None:
            if not share or "lab" not in shared:
                shared["lab"] = _vec(lab.astype(ldt), lmem)
            la, lref = shared["lab"], lab
        else:
            la, lref = _vec(labels.astype(ldt), lmem), labels
        xa, ya = geom_args()
        arr = _mat(arr, layout, junk=1e6)
        if kwform:
            out = ctx.call("C15.interp", v.interpolate_bad_channels, arr, channel_labels=la, x=xa, y=ya, **kw)
        else:
            out = ctx.call("C15.interp", v.interpolate_bad_channels, arr, la, xa, ya, **kw)
        # destripe / decompress_destripe_cbin go on using the label vector and the header after the call
        ctx.check(np.array_equal(la, lref) and np.array_equal(xa, xg) and np.array_equal(ya, yg), "C15.interp.args_modified",
                  lambda: "the call changed its " + ", ".join(
                      nm for nm, a, b in (("channel_labels", la, lref), ("x", xa, xg), ("y", ya, yg)) if not np.array_equal(a, b))
                  + " argument in place")
        if out is ctx.CRASH:
            return None
        if not (isinstance(out, np.ndarray) and out.shape == arr.shape):
            ctx.fail("C15.interp.shape", f"returned {type(out).__name__} of shape {getattr(out, 'shape', None)}, input {arr.shape}")
            return None
        return out

    # (0) a call with the same geometry and another label vector comes first (state kept per geometry must not leak)
    if prime:
        labp = _prime_labels(lab, prime)
        Dp = np.ones((n, 2), dtype=D.dtype)
        outp = call(Dp, labels=labp)
        if outp is None:
            return
        keep = (labp != 1) & (labp != 2)
        ctx.check(np.array_equal(outp[keep], Dp[keep]), "C15.interp.untouched",
                  lambda: "first call of the case: a row not labelled 1/2 is not bit-identical to the input")

    # (1) identity matrix -> weights
    W = call(np.eye(n))
    if W is None:
        return
    wtol = (int(n) + 4) * EPS32 if f4geom else 1e-10  # float32 coordinates give float32 weights
    renorm_rows = set()
    good = ~bad
    if not np.array_equal(W[good], np.eye(n)[good]):
        j = int(np.flatnonzero(np.any(W != np.eye(n), axis=1) & good)[0])
        ctx.fail("C15.interp.untouched", f"identity input: row {j} (label {lab[j]}) was modified")
    for i in ibad:
        w = W[i]
        a, am = adm[i], amb[i]
        allowed = a | am
        if np.any(w[~allowed] != 0):
            j = int(np.flatnonzero((w != 0) & ~allowed)[0])
            dj = float(np.hypot(x[j] - x[i], y[j] - y[i]))
            ctx.fail("C15.interp.support", f"bad channel {i}: weight {w[j]:.4g} on channel {j} (label {lab[j]}, distance {dj:.1f} um, "
                                           f"raw weight {np.exp(-((dj / kd) ** p)):.3g}) which is not an admissible neighbour")
            continue
        if np.any(w < 0) or not np.all(np.isfinite(w)):
            ctx.fail("C15.interp.convex", f"bad channel {i}: negative or non-finite weight")
            continue
        s = float(w.sum())
        if a.any():
            err = abs(s - 1)
            if err > wtol:
                # classification only: is this the 'cut-off applied again after normalisation' signature?
                raw = np.exp(-((np.hypot(x - x[i], y - y[i]) / kd) ** p)) * allowed
                wn = raw / raw.sum()
                kept = wn > CUT
                if s < 1 and not kept.all() and np.allclose(w, wn * kept, rtol=1e-9, atol=1e-15):
                    renorm_rows.add(int(i))
                    ctx.stat("renorm_weight_sum_deficit", 1 - s)
                    ctx.fail("C15.interp.renorm_threshold",
                             f"bad channel {i}: weights on its {int(allowed.sum())} admissible neighbours sum to {s:.6f}, not 1 "
                             f"({int((~kept & allowed).sum())} of them dropped after normalisation)")
                else:
                    ctx.fail("C15.interp.convex", f"bad channel {i}: weights sum to {s:.12g}, not 1")
            else:
                ctx.stat("weight_sum_err", err)
        elif not am.any():
            ctx.check(s == 0 and not np.any(w), "C15.interp.zero_rule",
                      lambda: f"bad channel {i} has no admissible neighbour but identity input gives a non-zero row")

    # (2) data: untouched rows, range, zero rule
    out = call(D)
    if out is None:
        return
    if not np.array_equal(out[good], D[good]):
        j = int(np.flatnonzero(np.any(out != D, axis=1) & good)[0])
        ctx.fail("C15.interp.untouched", f"row {j} (label {lab[j]}) is not bit-identical to the input")
    for i in ibad:
        allowed = adm[i] | amb[i]
        if not allowed.any():
            ctx.check(not np.any(out[i]), "C15.interp.zero_rule",
                      lambda: f"bad channel {i} has no admissible neighbour but is not zero: {out[i][:3]}")
            continue
        if not adm[i].any():
            continue  # only borderline neighbours: zero or their combination, both acceptable
        nb = D[allowed].astype(np.float64)
        lo, hi = nb.min(axis=0), nb.max(axis=0)
        scale = float(np.max(np.abs(nb)))
        tol = (4 * eps + 4 * int(allowed.sum()) * 2.3e-16 + (wtol if f4geom else 0.0)) * scale
        o = out[i].astype(np.float64)
        if not np.all(np.isfinite(o)):
            ctx.fail("C15.interp.range", f"bad channel {i}: non-finite values although its {int(allowed.sum())} admissible "
                                         f"neighbours are finite")
            continue
        exc = float(np.max(np.maximum(lo - o, o - hi)))
        if scale > 0 and exc > 0 and int(i) not in renorm_rows:
            ctx.stat("range_excess_over_tol", exc / tol)
        if exc > tol:
            k = int(np.argmax(np.maximum(lo - o, o - hi)))
            kind = "C15.interp.renorm_threshold" if int(i) in renorm_rows else "C15.interp.range"
            ctx.fail(kind, f"bad channel {i} sample {k}: value {o[k]:.9g} outside the range [{lo[k]:.9g}, {hi[k]:.9g}] of its "
                           f"{int(allowed.sum())} admissible neighbours")

    # (3) independence of the content of bad rows
    if ibad.size:
        D2 = D.copy()
        junk = (1e3 * (abs(case["data"]["dc"]) + 1) * (1 + rng.standard_normal((ibad.size, D.shape[1])))).astype(D.dtype)
        D2[ibad] = junk
        out2 = call(D2)
        if out2 is None:
            return
        ctx.check(np.array_equal(out2[ibad], out[ibad]), "C15.interp.depends_on_bad_rows",
                  lambda: f"output of bad rows changes with the content of bad rows (first: channel "
                          f"{int(ibad[np.flatnonzero(np.any(out2[ibad] != out[ibad], axis=1))[0]])})")


# ------------------------------------------------------------------------------------------------------------------
# detection: generators

def _band_noise(rng, k, ns, fs, flo, fhi):
    f = np.fft.rfftfreq(ns, 1 / fs)
    prof = ((f >= flo) & (f <= fhi)).astype(float)
    sp = (rng.standard_normal((k, f.size)) + 1j * rng.standard_normal((k, f.size))) * prof
    s = np.fft.irfft(sp, n=ns, axis=-1)
    return s / s.std(axis=-1, keepdims=True)


def _background(bg, nc, ns, fs):
    """(nc, ns) volts: nsrc band-limited common sources x smooth gains + white noise. Returns array and the rng."""
    rng = np.random.default_rng(bg["seed"])
    nsrc = bg["nsrc"]
    src = _band_noise(rng, nsrc, ns, fs, bg["flo"], bg["fhi"])
    c = np.arange(nc)
    gains = np.zeros((nc, nsrc))
    for k in range(nsrc):
        lam = rng.uniform(150, 600)
        gains[:, k] = (1 + bg["gvar"] * np.sin(2 * np.pi * c / lam + rng.uniform(0, 2 * np.pi))) / np.sqrt(nsrc)
    X = (bg["amp_uv"] * 1e-6) * (gains @ src)
    if bg.get("lf_uv"):
        t = np.arange(ns) / fs
        X += (bg["lf_uv"] * 1e-6) * np.sin(2 * np.pi * bg.get("lf_hz", 12.0) * t + 1.0)[None, :]
    X += (bg["noise_uv"] * 1e-6) * rng.standard_normal((nc, ns))
    return X, rng


def _inject(X, sl, fault, bg, fs, rng):
    """Applies a fault set to the samples `sl` of X in place."""
    nc = X.shape[0]
    ns = len(range(*sl.indices(X.shape[1])))
    b = fault.get("blk", 0)
    if b:
        if fault.get("blk_mode", "incoh") == "incoh":
            X[nc - b:, sl] = (bg["amp_uv"] * 1e-6) * _band_noise(rng, b, ns, fs, bg["flo"], bg["fhi"])
        else:
            X[nc - b:, sl] = 0
        X[nc - b:, sl] += (bg["noise_uv"] * 1e-6) * rng.standard_normal((b, ns))
    if fault.get("noisy") is not None:
        nz = (fault["noisy_uv"] * 1e-6) * rng.standard_normal(ns)
        if fault.get("noisy_mode", "add") == "add":
            X[fault["noisy"], sl] += nz
        else:
            X[fault["noisy"], sl] = nz
    if fault.get("dead") is not None:
        if fault.get("dead_mode", "zero") == "zero":
            X[fault["dead"], sl] = 0
        else:
            X[fault["dead"], sl] = 1e-6 * rng.standard_normal(ns)


def _sanitize(f, nc):
    """A channel whose signal is *replaced* by noise lacks the common signal like a silent one. The statement speaks of one
    silent channel only, so that variant is kept at least 6 channels (half the detector's trend window) away from the
    silent channel, from both ends and from the block edge; closer placements use additive noise."""
    nz, d, b = f.get("noisy"), f.get("dead"), f.get("blk", 0)
    if nz is not None and f.get("noisy_mode") == "replace" and nz < nc - b:
        if nz < 6 or nz > nc - b - 7 or (d is not None and abs(nz - d) < 6):
            f["noisy_mode"] = "add"
    return f


def _expected(nc, fault):
    """allowed[i] = set of acceptable labels; special = {channel: kind} for diagnosed known root causes."""
    allowed = [{0} for _ in range(nc)]
    b = fault.get("blk", 0)
    for i in range(nc - b, nc):
        allowed[i] = {3}
    dead, noisy = fault.get("dead"), fault.get("noisy")
    special = {}
    if dead is not None:
        if dead >= nc - b - 1:
            allowed[dead] = {1, 3}
        else:
            allowed[dead] = {1}
        if dead == 0 and nc - b - 1 > 0:
            special[0] = ("C15.detect.dead_at_channel_0", {0})
        top_brain = nc - b - 1
        if b >= 1 and 1 <= top_brain - dead <= 5 and noisy != top_brain:
            special[top_brain] = ("C15.detect.clear_between_dead_and_outside", {2, 3})
    if noisy is not None:
        allowed[noisy] = {2}
    # the same root cause in general form: the "outside" feature of channel c is the MEDIAN of the high-pass similarity over the
    # 11 channels around c, so a clear channel next to the block is labelled 3 as soon as 6 of those 11 lack the common signal
    # (block channels, a silent channel, a channel replaced by noise) - e.g. block 248..275, 247 silent, 241 replaced by noise:
    # the window 241..251 of channel 246 holds 6 of them
    if b >= 1:
        lacking = set(range(nc - b, nc))
        if dead is not None:
            lacking.add(dead)
        if noisy is not None and fault.get("noisy_mode") == "replace":
            lacking.add(noisy)
        for c in range(max(0, nc - b - 12), nc - b):
            if c not in lacking and c not in special and sum(1 for k in range(c - 5, c + 6) if k in lacking) >= 6:
                special[c] = ("C15.detect.clear_between_dead_and_outside", {2, 3})
    return allowed, special


def _st_bg():
    return st.fixed_dictionaries({
        "seed": st.integers(0, 2 ** 32 - 1), "nsrc": st.integers(1, 4),
        "amp_uv": st.sampled_from([20.0, 30.0, 45.0, 60.0]), "noise_uv": st.sampled_from([2.0, 4.0, 6.0]),
        "gvar": st.sampled_from([0.0, 0.1, 0.2]), "flo": st.sampled_from([300.0, 500.0]),
        "fhi": st.sampled_from([3000.0, 5000.0, 7000.0]), "lf_uv": st.sampled_from([0.0, 0.0, 50.0]),
    })


@st.composite
def _st_fault(draw, nc, file_safe=False):
    f = {"blk": draw(st.one_of(st.integers(0, 40), st.sampled_from([0, 0, 1, 2, 5, 6, 40]))),
         "blk_mode": draw(st.sampled_from(["incoh", "incoh", "quiet"]))}
    b = f["blk"]
    if draw(st.integers(0, 7)) > 0:
        if file_safe:
            f["dead"] = draw(st.integers(1, nc - 47))
        else:
            cls = draw(st.sampled_from(["any", "any", "any", "low_end", "high_end", "block_edge", "in_block"]))
            if cls == "low_end":
                f["dead"] = draw(st.integers(0, min(6, nc - 1)))
            elif cls == "high_end":
                f["dead"] = draw(st.integers(max(0, nc - 7), nc - 1))
            elif cls == "block_edge":
                f["dead"] = max(0, nc - b - 1 - draw(st.integers(0, 8)))
            elif cls == "in_block" and b:
                f["dead"] = draw(st.integers(nc - b, nc - 1))
            else:
                f["dead"] = draw(st.integers(0, nc - 1))
        f["dead_mode"] = draw(st.sampled_from(["zero", "zero", "tiny"]))
    if draw(st.integers(0, 7)) > 0:
        cls = draw(st.sampled_from(["any", "any", "any", "ends", "near_dead", "block"]))
        if cls == "ends":
            pos = draw(st.sampled_from([0, 1, 2, nc - 3, nc - 2, nc - 1]))
        elif cls == "near_dead" and f.get("dead") is not None:
            pos = f["dead"] + draw(st.sampled_from([-3, -2, -1, 1, 2, 3]))
        elif cls == "block":
            pos = nc - b - 1 + draw(st.integers(-3, 3))
        else:
            pos = draw(st.integers(0, nc - 1))
        pos = max(0, min(nc - 1, pos))
        if pos == f.get("dead"):
            pos = pos + 1 if pos + 1 < nc else pos - 1
        if pos >= 0:
            f["noisy"] = pos
            f["noisy_uv"] = draw(st.sampled_from([45.0, 80.0, 80.0, 140.0]))
            f["noisy_mode"] = draw(st.sampled_from(["add", "add", "replace"]))
    return _sanitize(f, nc)


_DETECT_FORMS = ["pos", "fs_kw", "explicit", "explicit_list", "psd_only", "sim_only", "mild_lo", "mild_hi"]


def _detect_call_args(form, fs):
    """(positional tail, keywords) of a detect_bad_channels call. 'explicit*' give the documented defaults by hand (0.02 is the
    AP-band default of psd_hf_threshold=None); 'mild_*' move the thresholds by less than a third of the measured margins."""
    if form == "fs_kw":
        return (), {"fs": fs}
    kw = {"explicit": {"similarity_threshold": (-0.5, 1), "psd_hf_threshold": 0.02, "display": False},
          "explicit_list": {"similarity_threshold": [-0.5, 1.0], "psd_hf_threshold": np.float64(0.02)},
          "psd_only": {"psd_hf_threshold": 0.02},
          "sim_only": {"similarity_threshold": np.array([-0.5, 1.0])},
          "mild_lo": {"similarity_threshold": (-0.4, 0.8), "psd_hf_threshold": 0.012},
          "mild_hi": {"similarity_threshold": (-0.6, 1.5), "psd_hf_threshold": 0.035}}.get(form, {})
    return (fs,), kw


def _detect_input(X, layout, ro):
    """The array handed to detect_bad_channels: C-ordered, the transposed view of a C-ordered (ns, nc) array (what
    Reader[first:last, :nc].T is), or every second sample of a longer array; optionally read-only."""
    if layout == "T":
        A = np.array(X.T, order="C", copy=True).T
    elif layout == "strided":
        A = np.full((X.shape[0], 2 * X.shape[1]), 1e-3, dtype=X.dtype)
        A[:, ::2] = X
        A = A[:, ::2]
    else:
        A = np.array(X, order="C", copy=True)
    if ro:
        A.flags.writeable = False
    return A


@st.composite
def _detect_case(draw):
    nc = draw(st.sampled_from([384, 384, 384, 384, 276, 192, 96]))
    if draw(st.integers(0, 5)) == 0:
        # raw recordings carry static per-channel DC offsets of the order of millivolts; with a WEAK coherent background
        # (at or below the sensor noise) a silent channel must still be the only label (calibrated: 120 of 120 on the
        # unchanged tree). One silent interior channel, no other fault.
        bg = {"seed": draw(st.integers(0, 2 ** 32 - 1)), "nsrc": draw(st.integers(1, 4)), "amp_uv": draw(st.sampled_from([4.0, 6.0, 8.0])),
              "noise_uv": draw(st.sampled_from([8.0, 10.0, 12.0])), "gvar": draw(st.sampled_from([0.0, 0.1, 0.2])),
              "flo": draw(st.sampled_from([300.0, 500.0])), "fhi": draw(st.sampled_from([3000.0, 5000.0, 7000.0])), "lf_uv": 0.0}
        return {"kind": "detect", "nc": 384, "ns": 9000, "fs": draw(st.sampled_from([FS_AP, 29999.757983])),
                "dtype": draw(st.sampled_from(["f8", "f4"])), "bg": bg,
                "fault": {"dead": draw(st.integers(7, 376)), "dead_mode": "zero", "blk": 0},
                "layout": draw(st.sampled_from(["C", "T"])), "ro": draw(st.booleans()), "kw": draw(st.sampled_from(["pos", "fs_kw", "explicit"])),
                "reuse": "none", "dc_mv": 2.0, "dc_seed": draw(st.integers(0, 2 ** 16)), "weak_bg": True}
    dc = {"dc_mv": draw(st.sampled_from([0.0, 0.0, 1.0, 2.0])), "dc_seed": draw(st.integers(0, 2 ** 16))}
    return {**dc, "kind": "detect", "nc": nc, "ns": draw(st.sampled_from([9000, 9000, 6000, 12000])), "fs": draw(st.sampled_from([FS_AP, FS_AP, 29999.757983])),
            "dtype": draw(st.sampled_from(["f8", "f4"])), "bg": draw(_st_bg()), "fault": draw(_st_fault(nc)),
            "layout": draw(st.sampled_from(["C", "T", "T", "strided"])), "ro": draw(st.booleans()),
            "kw": draw(st.sampled_from(_DETECT_FORMS)),
            # "options_before": an earlier call in the process that used the documented threshold options at other values (on
            # a short stretch of the same data); its options are its own
            "reuse": draw(st.sampled_from(["none", "pollute", "none", "twice", "none", "pollute", "none", "options_before",
                                           "options_before"])),
            "before": draw(st.sampled_from(["lax", "strict"]))}


@st.composite
def _file_case(draw):
    nb = draw(st.sampled_from([3, 3, 3, 5, 4]))
    nc = 384
    base = draw(_st_fault(nc, file_safe=True))
    faults = []
    for _ in range(nb):
        f = dict(base)
        if draw(st.booleans()):
            f.pop("dead", None)
        if draw(st.booleans()):
            f.pop("noisy", None)
        f["blk"] = draw(st.sampled_from([base["blk"], base["blk"], 0, draw(st.integers(0, 40))]))
        faults.append(_sanitize(f, nc))  # the block edge moved: re-apply the placement rule of the replaced-by-noise variant
    gen = draw(st.sampled_from(["3B2", "NP2.1"]))
    bd = draw(st.sampled_from([0.3, 0.2, 0.15, 0.15]))
    gap = 0.06
    if draw(st.sampled_from([True, False])):
        # a recording shorter than n_batches x batch_duration: the evenly spaced batches overlap (down to a file barely longer
        # than one batch); the same faults are then present in the whole file. n_batches 10 with 0.3 s is the default call form.
        nb = draw(st.sampled_from([3, 5, 10]))
        if nb == 10:
            bd = 0.3
        gap = -bd * draw(st.sampled_from([0.6, 0.9, 0.3, 0.97, 0.75]))
        faults = [faults[0]] * nb
    return {"kind": "file", "gen": gen, "cbin": draw(st.sampled_from([False, False, True])), "nb": nb,
            "bd": bd, "gap": gap, "fs": draw(st.sampled_from([FS_AP, 29999.757983])),
            "bg": draw(_st_bg()), "faults": faults, "sync_seed": draw(st.integers(0, 2 ** 16)),
            "input": draw(st.sampled_from(["reader", "str", "path", "reader_twice", "reader"])),
            "batch_view": draw(st.booleans())}


def strategy(tier):
    return st.integers(0, 199).flatmap(lambda k: _interp_case() if k < 168 else (_detect_case() if k < 197 else _file_case()))


# ------------------------------------------------------------------------------------------------------------------
# detection: oracle

def _fault_labels(ctx, fault, nc, prefix=""):
    ctx.label(prefix + ("blk0" if not fault.get("blk") else ("blk1-5" if fault["blk"] <= 5 else "blk6-40")))
    d, nz, b = fault.get("dead"), fault.get("noisy"), fault.get("blk", 0)
    if d is not None:
        ctx.label(prefix + "dead_" + fault.get("dead_mode", "zero"))
        if d == 0:
            ctx.label(prefix + "dead_at_0")
        elif d == nc - 1:
            ctx.label(prefix + "dead_at_last")
        if b and d >= nc - b:
            ctx.label(prefix + "dead_in_block")
        elif b and d == nc - b - 1:
            ctx.label(prefix + "dead_touching_block")
        elif b and d >= nc - b - 6:
            ctx.label(prefix + "dead_1to5_below_block")
    if nz is not None:
        ctx.label(prefix + "noisy_" + fault.get("noisy_mode", "add"))
        if nz in (0, nc - 1):
            ctx.label(prefix + "noisy_at_end")
        if b and nz >= nc - b:
            ctx.label(prefix + "noisy_in_block")
        if d is not None and abs(nz - d) <= 3:
            ctx.label(prefix + "noisy_near_dead")
    if d is None and nz is None and not b:
        ctx.label(prefix + "baseline")


def _margins(ctx, xf, allowed, fault, nc):
    """Distances of the implementation's own features to its default thresholds (evidence only, never asserted)."""
    try:
        hf, lf, psd = (np.asarray(xf[k], dtype=float) for k in ("xcor_hf", "xcor_lf", "psd_hf"))
        clear = np.array([a == {0} for a in allowed])
        b = fault.get("blk", 0)
        skip = np.zeros(nc, bool)
        d = fault.get("dead")
        if d is not None:
            skip[max(0, d - 5):d + 6] = b > 0 and d >= nc - b - 7  # trend windows mixing dead channel and block
            if d == 0:
                skip[0] = True
        c = clear & ~skip
        if c.any():
            ctx.stat("min_margin_clear_xcor_hf", float(np.min(np.minimum(hf[c] + 0.5, 1 - hf[c]))))
            ctx.stat("min_margin_clear_psd_rel", float(np.min(1 - psd[c] / 0.02)))
            ctx.stat("min_margin_clear_xcor_lf", float(np.min(lf[c] + 0.75)))
        if d is not None and allowed[d] == {1} and d != 0:
            ctx.stat("min_margin_dead_xcor_hf", float(-0.5 - hf[d]))
        nz = fault.get("noisy")
        if nz is not None:
            ctx.stat("min_margin_noisy_psd_ratio", float(psd[nz] / 0.02))
        if b:
            blk = np.arange(nc - b, nc)
            blk = blk[[allowed[i] == {3} for i in blk]]
            if blk.size:
                ctx.stat("min_margin_outside_xcor_lf", float(np.min(-0.75 - lf[blk])))
    except Exception:  # noqa - statistics only
        pass


def _compare(ctx, lab, allowed, special, what, base_kind="C15.detect"):
    lab = np.asarray(lab)
    if lab.shape != (len(allowed),):
        ctx.fail(base_kind + ".shape", f"{what}: labels of shape {lab.shape}, expected ({len(allowed)},)")
        return
    mism = [i for i in range(len(allowed)) if lab[i] not in allowed[i]]
    rest = []
    for i in mism:
        sp = special.get(i)
        if sp is not None and lab[i] in sp[1]:
            exp = sorted(allowed[i])
            ctx.fail(sp[0], f"{what}: channel {i} labelled {int(lab[i])}, expected {exp}")
        else:
            rest.append(i)
    if rest:
        txt = ", ".join(f"ch{i}: got {lab[i]:g} expected {sorted(allowed[i])}" for i in rest[:8])
        ctx.fail(base_kind + ".labels", f"{what}: {len(rest)} channel(s) mislabelled: {txt}")


def _run_detect(case, ctx):
    v = sut.voltage()
    nc, ns, fs, bg = case["nc"], case["ns"], case["fs"], case["bg"]
    fault = _sanitize(dict(case["fault"]), nc)
    X, rng = _background(bg, nc, ns, fs)
    _inject(X, slice(0, ns), fault, bg, fs, rng)
    if case.get("dc_mv"):
        # static per-channel DC offsets (a silent channel stays silent)
        dc = np.random.default_rng(case.get("dc_seed", 0)).uniform(-case["dc_mv"] * 1e-3, case["dc_mv"] * 1e-3, size=(nc, 1))
        if fault.get("dead") is not None:
            dc[fault["dead"]] = 0
        X += dc
        ctx.label("dc_offsets", "weak_background_dc" if case.get("weak_bg") else "dc_on_strong_background")
    X = np.ascontiguousarray(X.astype(_DT[case["dtype"]]))
    allowed, special = _expected(nc, fault)
    layout, ro, form, reuse = case.get("layout", "C"), case.get("ro", False), case.get("kw", "pos"), case.get("reuse", "none")
    if special and form.startswith("mild"):
        form = "explicit"  # the two known placements are diagnosed at the default thresholds only
    ctx.label("detect", f"nc{nc}", "dtype_" + case["dtype"], f"nsrc{bg['nsrc']}", "lf_common" if bg.get("lf_uv") else "no_lf",
              "input_" + layout, "input_read_only" if ro else "input_writable", "call_" + form, "reuse_" + reuse)
    _fault_labels(ctx, fault, nc)
    if fault.get("dead") is not None or fault.get("noisy") is not None or fault.get("blk"):
        ctx.nontrivial = True
    Xin = _detect_input(X, layout, ro)
    tail, kw = _detect_call_args(form, fs)

    def unpack(r):
        if r is ctx.CRASH:
            return None
        if not (isinstance(r, (tuple, list)) and len(r) == 2 and isinstance(r[1], dict)):
            ctx.fail("C15.detect.shape", "detect_bad_channels did not return (labels, features)")
            return None
        return r

    first = None
    if reuse == "options_before":
        okw = ({"psd_hf_threshold": 2.0, "similarity_threshold": (-0.95, 6.0)} if case.get("before") == "lax" else
               {"psd_hf_threshold": 0.0002, "similarity_threshold": (-0.05, 0.05)})
        ctx.label("reuse_options_before_" + str(case.get("before")))
        if unpack(ctx.call("C15.detect", v.detect_bad_channels, Xin[:, :min(ns, 3000)], fs, **okw)) is None:
            return
    if reuse == "pollute":
        # another recording of the same shape goes through the function first (the same channels in reverse order, a view of
        # the same buffer); what that call returned must still be intact after the call that is checked, as raw_metrics
        # uses the features of its first call after its second one
        first = unpack(ctx.call("C15.detect", v.detect_bad_channels, Xin[::-1], *tail, **kw))
        if first is None:
            return
        try:
            first_copy = (np.array(first[0], copy=True), {k: np.array(a, copy=True) for k, a in first[1].items()})
        except Exception:  # noqa
            ctx.fail("C15.detect.shape", "labels / features of a call are not arrays")
            return
    r = unpack(ctx.call("C15.detect", v.detect_bad_channels, Xin, *tail, **kw))
    if r is None:
        return
    lab, xf = r
    ctx.check(np.array_equal(Xin, X), "C15.detect.input_modified", "detect_bad_channels modified its input array")
    _compare(ctx, lab, allowed, special, f"fault {fault}")
    _margins(ctx, xf, allowed, fault, nc)
    if first is not None:
        same = np.array_equal(first[0], first_copy[0]) and set(first[1]) == set(first_copy[1]) and all(
            np.array_equal(first[1][k], first_copy[1][k]) for k in first_copy[1])
        ctx.check(same, "C15.detect.result_overwritten",
                  "labels / features returned by one call changed during the next call with another array of the same shape")
    if reuse == "twice":
        # the same argument objects a second time
        r2 = unpack(ctx.call("C15.detect", v.detect_bad_channels, Xin, *tail, **kw))
        if r2 is None:
            return
        ctx.check(np.array_equal(Xin, X), "C15.detect.input_modified", "detect_bad_channels modified its input array (second call)")
        _compare(ctx, r2[0], allowed, special, f"second call with the same array, fault {fault}")


# ------------------------------------------------------------------------------------------------------------------
# file: oracle

def _file_spec(gen, ns, fs):
    spec = {"gen": gen, "stream": "ap", "n": 384, "n_acq": 384, "pattern": "dense", "site_seed": 0, "enc": "shank",
            "tilde": True, "fs": fs, "nsync": 1, "ns": ns}
    if gen == "3B2":
        spec.update({"prb_type": 0, "range": 0.6, "maxint": 512, "gain_mode": "uniform", "gains_seed": 0, "imro_fields": 6})
    else:
        spec.update({"prb_type": 21, "range": 0.5, "maxint": 8192})
    return spec


def _modal(cols):
    """cols: (nc, nb) integer labels -> list of sets of most frequent values."""
    out = []
    for row in cols:
        cnt = np.bincount(np.asarray(row, dtype=int), minlength=4)
        out.append(set(int(k) for k in np.flatnonzero(cnt == cnt.max())))
    return out


def _run_file(case, ctx):
    v = sut.voltage()
    nc, nb, bd, gap, fs = 384, case["nb"], case["bd"], case["gap"], case["fs"]
    ns = int(np.ceil((nb * bd + (nb - 1) * gap) * fs))
    rl = ns / fs
    t0s = [j * (rl - bd) / (nb - 1) for j in range(nb)]  # evenly spaced batch starts, first at 0, last ending at the end
    win = [(int(round(t * fs)), int(round((t + bd) * fs))) for t in t0s]
    cuts = [0] + [(win[j][1] + win[j + 1][0]) // 2 for j in range(nb - 1)] + [ns]
    bg = case["bg"]
    faults = [_sanitize(dict(f), nc) for f in case["faults"]]
    X, rng = _background(bg, nc, ns, fs)
    if gap < 0:
        _inject(X, slice(0, ns), faults[0], bg, fs, rng)  # overlapping batches: one fault set for the whole file
        ctx.label("file_overlapping_batches")
    else:
        for j, f in enumerate(faults):
            _inject(X, slice(cuts[j], cuts[j + 1]), f, bg, fs, rng)
    spec = _file_spec(case["gen"], ns, fs)
    s2v = calib.s2v(spec)[:nc]
    _, order = calib.geometry(spec, sort=True)  # returned column i = on-disk channel order[i]
    D = np.zeros((ns, nc + 1), dtype=np.int16)
    q = np.clip(np.round(X / s2v[order][:, None]), -32000, 32000).astype(np.int16)
    D[:, order] = q.T
    D[:, nc] = np.random.default_rng(case["sync_seed"]).integers(0, 2, size=ns).astype(np.int16) * 64
    Xq = (q.astype(np.float32) * s2v[order][:, None].astype(np.float32))  # what a calibrated read returns (C01)
    Xq.flags.writeable = not case.get("batch_view", False)
    del X
    inp = case.get("input", "path")
    ctx.label("file", "file_" + case["gen"], "cbin" if case["cbin"] else "bin", f"nb{nb}", f"bd{bd}", "file_given_as_" + inp)
    for f in faults:
        _fault_labels(ctx, f, nc, prefix="batch_")
    if any(f.get("dead") is not None or f.get("noisy") is not None or f.get("blk") for f in faults):
        ctx.nontrivial = True
    exp_cols = np.zeros((nc, nb), dtype=int)
    for j, f in enumerate(faults):
        allowed, _ = _expected(nc, f)
        exp_cols[:, j] = [min(a) for a in allowed]  # single-valued by construction (file_safe faults)
    with rec.scratch_dir(ctx) as d:
        binf = rec.write_recording(d, spec, D)
        path = rec.compress(binf, nc + 1, fs, 30000, keep_bin=False) if case["cbin"] else binf
        del D
        kw = {"n_batches": nb} if bd == 0.3 else {"n_batches": nb, "batch_duration": bd}  # 0.3 s is the default
        if nb == 10 and bd == 0.3:
            kw = {}  # both defaults: the plain call form
            ctx.label("file_default_call_form")
        got2 = None
        if inp.startswith("reader"):
            # an open Reader, as decompress_destripe_cbin hands over - and goes on reading from afterwards
            sr = ctx.call("C15.file.reader", sut.spikeglx().Reader, path)
            if sr is ctx.CRASH:
                return
            try:
                probe = slice(win[-1][0], win[-1][0] + 7)
                before = ctx.call("C15.file.reader", lambda: np.array(sr[probe, :]))
                got = ctx.call("C15.file", v.detect_bad_channels_cbin, sr, **kw)
                # (a numpy memmap whose map was closed must not be touched: that is a segmentation fault, not an exception)
                closed = bool(getattr(getattr(getattr(sr, "_raw", None), "_mmap", None), "closed", False))
                if closed:
                    ctx.fail("C15.file.reader_after_call", "the Reader given to detect_bad_channels_cbin was closed by the call")
                elif got is not ctx.CRASH:
                    after = ctx.call("C15.file.reader_after_call", lambda: np.array(sr[probe, :]))
                    ctx.check(after is ctx.CRASH or before is ctx.CRASH or (after.shape == before.shape and np.array_equal(after, before)),
                              "C15.file.reader_after_call", "the Reader given to detect_bad_channels_cbin returns other samples after the call")
                    if inp == "reader_twice" and nb <= 5 and after is not ctx.CRASH:  # (10 batches: the dearest case as it is)
                        got2 = ctx.call("C15.file", v.detect_bad_channels_cbin, sr, **kw)
            finally:
                ctx.call("C15.file.reader", sr.close)
        else:
            got = ctx.call("C15.file", v.detect_bad_channels_cbin, str(path) if inp == "str" else path, **kw)
        # one more scan of a single batch (n_batches=1: the first batch_duration seconds), the file named in the other way
        # (str unless the main call had a str) - the price of one detect_bad_channels call
        kw1 = {"n_batches": 1} if bd == 0.3 else {"n_batches": 1, "batch_duration": bd}
        got1 = ctx.call("C15.file", v.detect_bad_channels_cbin, path if inp == "str" else str(path), **kw1)
    if got1 is not ctx.CRASH:
        _compare(ctx, np.asarray(got1).reshape(-1) if np.size(got1) == nc else np.asarray(got1), [{int(e)} for e in exp_cols[:, 0]], {},
                 f"single-batch scan (n_batches=1) vs the faults injected into the first batch {faults[0]}", base_kind="C15.file")
    if got is ctx.CRASH or got2 is ctx.CRASH:
        return
    got = np.asarray(got)
    if got.shape != (nc,):
        got = got.reshape(-1) if got.size == nc else got
    _compare(ctx, got, _modal(exp_cols), {}, f"file labels vs injected per-batch faults {faults}", base_kind="C15.file")
    if got2 is not None:
        got2 = np.asarray(got2)
        ctx.check(got2.shape == got.shape and np.array_equal(got2, got), "C15.file.second_call_differs",
                  lambda: f"second call on the same Reader: labels differ at channels "
                          f"{np.flatnonzero(got2.reshape(-1) != got.reshape(-1))[:8].tolist() if got2.size == got.size else got2.shape}")
    # same relation against the labels detect_bad_channels gives on the harness' copy of every batch
    cols = np.zeros((nc, nb), dtype=int)
    for j, (a, b) in enumerate(win):
        # the harness' copy of the batch: contiguous, or the read-only view on the columns of the whole recording
        xb = Xq[:, a:b] if case.get("batch_view", False) else np.ascontiguousarray(Xq[:, a:b])
        r = ctx.call("C15.detect", v.detect_bad_channels, xb, fs=fs)
        if r is ctx.CRASH:
            return
        if not (isinstance(r, (tuple, list)) and len(r) == 2):
            ctx.fail("C15.detect.shape", "detect_bad_channels did not return (labels, features)")
            return
        labj = np.asarray(r[0])
        if labj.shape != (nc,) or not np.all(np.isin(labj, [0, 1, 2, 3])):
            ctx.fail("C15.detect.shape", "labels of a batch are not a vector over {0,1,2,3}")
            return
        cols[:, j] = labj.astype(int)
        ctx.check(np.array_equal(cols[:, j], exp_cols[:, j]), "C15.detect.labels",
                  lambda: f"batch {j} of a file case: labels differ from the injected faults {faults[j]} at channels "
                          f"{np.flatnonzero(cols[:, j] != exp_cols[:, j])[:8].tolist()}")
    modal = _modal(cols)
    bad = [i for i in range(nc) if got.shape == (nc,) and got[i] not in modal[i]]
    ctx.check(not bad, "C15.file.mode_of_batches",
              lambda: f"file label is not a most frequent per-batch label at channels {bad[:8]}: file {got[bad[:8]].tolist()}, "
                      f"batches {cols[bad[:8]].tolist()}")


# ------------------------------------------------------------------------------------------------------------------
# exhaustive sweeps (detection)

SWEEP_BG = {"quick": [11], "thorough": [11, 12, 13, 14, 15, 16]}
SWEEP_SHARDS = 13
CORNER_SHARDS = 3
SWEEP_NS = {"quick": 6000, "thorough": 9000}


def _sweep_bg(seed):
    k = seed % 4
    return {"seed": seed, "nsrc": 1 + k, "amp_uv": [30.0, 20.0, 45.0, 60.0][k], "noise_uv": [4.0, 6.0, 2.0, 4.0][k],
            "gvar": [0.2, 0.1, 0.2, 0.0][k], "flo": 300.0, "fhi": [5000.0, 3000.0, 7000.0, 5000.0][k],
            "lf_uv": [0.0, 50.0, 0.0, 0.0][k]}


def enum_shards(tier):
    out = [{"bg": s, "shard": i, "ns": SWEEP_NS[tier]} for s in SWEEP_BG[tier] for i in range(SWEEP_SHARDS)]
    out.extend({"corners": True, "part": i, "ns": SWEEP_NS[tier]} for i in range(CORNER_SHARDS))
    out.extend({"short_file": i} for i in ((0, 3) if tier == "quick" else range(len(_SHORT_FILES))))
    return out


# recordings shorter than n_batches x batch_duration, run in every tier (drawn file cases are few and Hypothesis does not
# draw them independently): the default call form on 1.38 s handed over as an open Reader; 3 x 0.15 s on 0.18 s; 5 x 0.3 s on 0.6 s
_SHORT_FILES = [
    {"gen": "3B2", "cbin": False, "nb": 10, "bd": 0.3, "gap": -0.18, "fs": FS_AP, "input": "reader", "batch_view": True,
     "fault": {"dead": 101, "dead_mode": "zero", "noisy": 263, "noisy_uv": 80.0, "noisy_mode": "add", "blk": 17, "blk_mode": "incoh"}},
    {"gen": "NP2.1", "cbin": True, "nb": 3, "bd": 0.15, "gap": -0.135, "fs": 29999.757983, "input": "str", "batch_view": False,
     "fault": {"dead": 5, "dead_mode": "tiny", "noisy": 300, "noisy_uv": 45.0, "noisy_mode": "replace", "blk": 0}},
    {"gen": "NP2.1", "cbin": False, "nb": 5, "bd": 0.3, "gap": -0.225, "fs": FS_AP, "input": "reader_twice", "batch_view": False,
     "fault": {"dead": 200, "dead_mode": "zero", "blk": 40, "blk_mode": "quiet"}},
    # and one recording with three separate batches whose fault sets differ, so that the most frequent label differs from the
    # label of the last batch, of the first batch and from the largest label (channel 100: 1,1,0; 250: 2,0,0; top block: 3,3,0)
    {"gen": "3B2", "cbin": False, "nb": 3, "bd": 0.15, "gap": 0.06, "fs": FS_AP, "input": "path", "batch_view": False,
     "faults": [{"dead": 100, "dead_mode": "zero", "noisy": 250, "noisy_uv": 80.0, "noisy_mode": "add", "blk": 12, "blk_mode": "incoh"},
                {"dead": 100, "dead_mode": "zero", "blk": 12, "blk_mode": "incoh"}, {"blk": 0}]},
]


def _corner_faults(nc=384):
    out = [{}]
    for d in (0, 1, nc - 2, nc - 1):
        for b in (0, 1, 7):
            out.append({"dead": d, "dead_mode": "zero", "blk": b})
    for b in (1, 6, 40):
        for k in range(0, 8):
            out.append({"dead": nc - b - 1 - k, "dead_mode": "tiny" if k % 2 else "zero", "blk": b, "blk_mode": "quiet" if b % 2 else "incoh"})
        out.append({"noisy": nc - b - 1, "noisy_uv": 80.0, "noisy_mode": "replace", "blk": b})
        out.append({"noisy": nc - b, "noisy_uv": 80.0, "noisy_mode": "add", "blk": b})
    for nz in (0, nc - 1):
        out.append({"noisy": nz, "noisy_uv": 45.0, "noisy_mode": "replace", "blk": 0})
    return out


def enum_cases(desc):
    nc = 384
    if "short_file" in desc:
        sf = dict(_SHORT_FILES[desc["short_file"]])
        faults = sf.pop("faults", None) or [sf["fault"]] * sf["nb"]
        sf.pop("fault", None)
        yield dict(sf, kind="file", bg=_sweep_bg(12), faults=[dict(f) for f in faults], sync_seed=desc["short_file"])
        return
    if desc.get("corners"):
        for k, f in enumerate(_corner_faults(nc)[desc.get("part", 0)::CORNER_SHARDS if "part" in desc else 1]):
            f.setdefault("blk", 0)
            yield {"kind": "detect", "nc": nc, "ns": desc["ns"], "fs": FS_AP, "dtype": "f8", "bg": _sweep_bg(10), "fault": f,
                   "layout": ["C", "T"][k % 2], "ro": k % 3 == 1, "kw": ["pos", "fs_kw", "explicit"][k % 3]}
        return
    bg = _sweep_bg(desc["bg"])
    for s in range(desc["shard"], nc, SWEEP_SHARDS):
        f = {"dead": s, "dead_mode": "tiny" if s % 3 == 2 else "zero",
             "noisy": (5 * s + 191) % nc, "noisy_uv": [80.0, 45.0, 140.0][s % 3], "noisy_mode": "replace" if s % 4 == 1 else "add",
             "blk": (s + 7 * desc["bg"]) % 41, "blk_mode": "quiet" if s % 5 == 3 else "incoh"}
        # the call form rotates along the sweep (no extra calls): every form of _DETECT_FORMS, the three memory layouts and
        # read-only input each meet positions spread over the whole probe; consecutive cases of a shard share a process
        j = s // SWEEP_SHARDS
        yield {"kind": "detect", "nc": nc, "ns": desc["ns"], "fs": FS_AP, "dtype": "f4" if s % 2 else "f8", "bg": bg,
               "fault": _sanitize(f, nc), "layout": ["C", "T", "strided", "T"][(j + desc["shard"]) % 4], "ro": (j + s) % 3 == 0,
               "kw": _DETECT_FORMS[(j + 3 * desc["shard"]) % len(_DETECT_FORMS)]}


def run_case(case, ctx):
    k = case["kind"]
    if k == "interp":
        _run_interp(case, ctx)
    elif k == "detect":
        _run_detect(case, ctx)
    else:
        _run_file(case, ctx)
