"""C11 - Truncated or inconsistent files open and expose exactly the complete samples."""
import os

import numpy as np
from hypothesis import strategies as st

from vp import sut
from vp.gens import weighted
from vp.gens import meta as gm, recording as rec

ID = "C11"
LEVEL = "fault_enumeration"
RULE = ("Hypothesis draws a recording (AP/LF/nidq, 1..384 channels, integer or fractional sampling rate, ns_file 1..60 "
        "samples written, metadata announcing fewer / equal / more samples, or lacking the end-of-run size keys for the "
        "online reader; offline Reader or OnlineReader; ignore_warnings on or off; opened at construction or constructed with open=False on a shorter file that then grows to the length under test before open()). For that recording EVERY truncation point of the writer is "
        "enumerated: all byte lengths from one complete frame to the full size (all 0..frame-1 trailing bytes) when there "
        "are <= 1600 of them, otherwise every trailing-byte count for the first, last and two drawn frame counts plus "
        "+-1 byte around every frame boundary. cbin sub-case: a compressed stream holding k < announced frames for every k. "
        "Oracle per length: construction succeeds, ns == floor(bytes / (nc*2)), sr[:, :] == calibrated prefix of the written "
        "data (bit exact), the last frame reads, index ns raises IndexError like NumPy, slices past the end are clipped, "
        "rl == ns/fs and round(meta.fileTimeSecs*fs) == ns. Non-trivial truncation = trailing partial frame of at least half "
        "a frame, or fractional fs with a size mismatch. evaluations = recordings; truncation points are counted in "
        "coverage.margins.truncation_points_max and the class histogram. Distinct = distinct case hash.")
ASSUMPTIONS = ["a crash of the writer is modelled as a file cut at an arbitrary byte; content before the cut is intact",
               "sort=False is used so that the calibrated prefix is in on-disk order (ordering is covered by C01)"]
BUDGET = {"quick": 160, "thorough": 10000}
SHRINK = {"quick": False, "thorough": True}
MAX_ENUM = 1600


@st.composite
def _case(draw):
    if draw(st.integers(0, 5)) == 0:
        spec = draw(gm.st_nidq(ns_range=(1, 60)))
    else:
        spec = draw(gm.st_spec(n_choices=(1, 2, 3, 5, 8, 11, 16, 37, 384), ns_range=(1, 60), allow_nosync=True,
                               patterns=("dense", "random")))
    ns_file = draw(st.integers(1, 60))
    claim = draw(st.sampled_from(["equal", "fewer", "more", "equal"]))
    if claim == "equal":
        spec["ns"] = ns_file
    elif claim == "fewer":
        spec["ns"] = max(1, ns_file - draw(st.integers(1, 10)))
    else:
        spec["ns"] = ns_file + draw(st.integers(1, 40))
    reader = draw(st.sampled_from(["offline", "offline", "online"]))
    if reader == "online" and spec["gen"] != "nidq":
        spec["acquiring"] = draw(st.booleans())
    return {"spec": spec, "ns_file": ns_file, "reader": reader, "content_seed": draw(st.integers(0, 2 ** 31)),
            "pick": [draw(st.integers(0, 10 ** 6)), draw(st.integers(0, 10 ** 6))],
            "cbin": draw(st.integers(0, 3)) == 0 and reader == "offline", "chunk": draw(st.integers(3, 25)),
            # ignore_warnings is documented as silencing the size-mismatch log for streamed data: same exposed samples
            "quiet": draw(st.sampled_from([False, False, True])),
            # "grow": the reader is constructed with open=False while the file is still shorter (copy / acquisition in
            # progress), the file then grows to the length under test, and only then is the reader opened
            "deferred": draw(st.sampled_from([None, None, "grow"])),
            # process state: user and runtime warnings turned into errors (python -W error, pytest filterwarnings=error);
            # a size mismatch is announced through the logger, the file still opens
            "strict_warnings": draw(st.sampled_from([False, False, True]))}


@st.composite
def _cbin_rate_case(draw):
    """A compressed stream whose header (.ch) carries the NOMINAL sampling rate (what `mtscomp x.bin -s 30000` stores)
    while the metadata carries the measured one, long enough for the two clocks to differ by more than half a sample,
    and holding fewer / more samples than announced."""
    if draw(st.booleans()):
        spec = draw(gm.st_nidq(ns_range=(1, 1)))
    else:
        spec = draw(gm.st_spec(n_choices=(1, 2), ns_range=(1, 1), allow_nosync=True, patterns=("dense",), allow_lf=False))
    spec["fs"] = 30003.0003
    ns_file = draw(st.integers(5100, 7000))
    spec["ns"] = ns_file + draw(st.sampled_from([-50, 0, 100, 1]))
    return {"spec": spec, "ns_file": ns_file, "reader": "offline", "content_seed": draw(st.integers(0, 2 ** 31)),
            "pick": [draw(st.integers(0, 10 ** 6)), 0], "cbin": True, "chunk": 1000, "quiet": draw(st.booleans()),
            "deferred": None, "ch_rate": 30000.0}


@st.composite
def _huge_case(draw):
    """A file of the size real recordings have (2 .. 200 GB: tens of minutes to hours of 385 channels), as a sparse file -
    only the first and the last complete frame are written, the rest is holes that read as zeros. Sizes sit on and next to
    2^31 and 2^32 bytes and samples, 10^8 samples, and anywhere; the metadata announces the right, a smaller or a larger
    count. Nothing but the first / last frames is read back."""
    if draw(st.integers(0, 5)) == 0:
        spec = draw(gm.st_nidq(ns_range=(1, 1)))
    else:
        spec = draw(gm.st_spec(n_choices=(1, 2, 16, 384), ns_range=(1, 1), allow_nosync=True, patterns=("dense",)))
    frame = gm.n_channels(spec) * 2
    cap = 200 * 2 ** 30 // frame
    target = draw(st.sampled_from(["2^31B", "2^32B", "2^31S", "1e8S", "any", "any"]))
    if target == "2^31B":
        n = 2 ** 31 // frame + draw(st.integers(-2, 2))
    elif target == "2^32B":
        n = 2 ** 32 // frame + draw(st.integers(-2, 2))
    elif target == "2^31S":
        n = 2 ** 31 + draw(st.integers(-2, 2))
    elif target == "1e8S":
        n = 10 ** 8 * draw(st.integers(1, 3)) + draw(st.integers(-2, 2))
    else:
        n = draw(st.integers(10 ** 6, cap))
    n = max(2, min(n, cap))
    claim = draw(st.sampled_from(["equal", "fewer", "more", "equal", "off_by_one", "2^31_bytes_apart"]))
    gib2 = (2 ** 31 // frame) * draw(st.sampled_from([1, 2, -1]))   # announced size 2 or 4 GiB away from the real one
    spec["ns"] = {"equal": n, "fewer": max(1, n - draw(st.integers(1, 10 ** 6))), "more": n + draw(st.integers(1, 10 ** 6)),
                  "off_by_one": n + draw(st.sampled_from([-1, 1])), "2^31_bytes_apart": n + gib2 if n + gib2 > 0 else n - gib2}[claim]
    reader = draw(st.sampled_from(["offline", "offline", "online"]))
    if reader == "online" and spec["gen"] != "nidq":
        spec["acquiring"] = draw(st.booleans())
    return {"huge": True, "spec": spec, "ns_file": n, "trail": draw(st.sampled_from([0, 0, 1, frame // 2, frame - 1])),
            "reader": reader, "content_seed": draw(st.integers(0, 2 ** 31)), "quiet": draw(st.booleans()), "target": target,
            "claim": claim}


def strategy(tier):
    return weighted((16, _case()), (2, _cbin_rate_case()), (6, _huge_case()))


def _lengths(frame, ns_file, pick):
    full = frame * ns_file
    if full - frame + 1 <= MAX_ENUM:
        return list(range(full, frame - 1, -1)), True
    ks = sorted({1, ns_file, 1 + pick[0] % ns_file, 1 + pick[1] % ns_file})
    out = set()
    for k in ks:
        for t in range(frame):
            if k * frame + t <= full:
                out.add(k * frame + t)
    for k in range(1, ns_file + 1):
        for dlt in (-1, 0, 1, frame // 2, frame // 2 + 1):
            v = k * frame + dlt
            if frame <= v <= full:
                out.add(v)
    return sorted(out, reverse=True), False


def _run_huge(case, ctx):
    sg = sut.spikeglx()
    spec, n, trail = case["spec"], case["ns_file"], case["trail"]
    nc = gm.n_channels(spec)
    frame = nc * 2
    fs = spec["fs"]
    nsync = spec["dw"] if spec["gen"] == "nidq" else spec.get("nsync", 1)
    ends = rec.make_data(2, nc, case["content_seed"], "full", nsync=nsync)     # first and last complete frame
    L = n * frame + trail
    ctx.label("huge", "huge_" + case["target"], "huge_claim_" + case["claim"], "huge_" + case["reader"],
              "huge_>=2^32_bytes" if L >= 2 ** 32 else ("huge_>=2^31_bytes" if L >= 2 ** 31 else "huge_<2^31_bytes"),
              "fs_frac" if fs != int(fs) else "fs_int", "trail_partial" if trail else "trail_0")
    ctx.nontrivial = True
    Cls = sg.OnlineReader if case["reader"] == "online" else sg.Reader
    import resource
    lim = resource.getrlimit(resource.RLIMIT_AS)[0]
    if lim != resource.RLIM_INFINITY and lim < L + 2 ** 32:
        # the file cannot be mapped under this address-space limit (sensitivity runs set one): nothing to learn here
        ctx.label("huge_skipped_address_space_limit")
        return
    with rec.scratch_dir(ctx) as d:
        binf = rec.write_recording(d, spec, ends[:1])
        try:
            os.truncate(binf, L)
            with open(binf, "r+b") as fid:
                fid.seek((n - 1) * frame)
                fid.write(ends[1].tobytes())
        except OSError:
            ctx.label("huge_sparse_files_unsupported_here")
            return
        sr = ctx.call("C11.open", Cls, binf, sort=False, ignore_warnings=bool(case.get("quiet")))
        if sr is ctx.CRASH:
            return
        try:
            tag = f"(bytes={L}, frames={n}, nc={nc}, announced {spec['ns']})"
            if not ctx.check(sr.ns == n and sr.shape == (n, nc), "C11.ns",
                             lambda: f"ns={sr.ns} shape={sr.shape}, expected {n} complete frames {tag}"):
                return
            s2v = np.asarray(sr.sample2volts)
            A = ends.astype(np.float32)
            A *= s2v
            for what, sel, exp in (("first", 0, A[0]), ("last", n - 1, A[1]), ("last_negative", -1, A[1]),
                                   ("last_numpy_int", np.int64(n - 1), A[1])):
                got = ctx.call("C11.read_" + what, lambda: sr[sel])
                if got is ctx.CRASH:
                    return
                ctx.check(np.shape(got) == (nc,) and np.array_equal(got, exp), "C11.last_frame",
                          lambda: f"{what} frame (sr[{sel}]) differs from what was written {tag}")
            beyond = ctx.call("C11.read_beyond", lambda: sr[n], expect=(IndexError,))
            if beyond is ctx.CRASH:
                return
            ctx.check(isinstance(beyond, IndexError), "C11.beyond_file", lambda: f"sr[{n}] returned data beyond the file {tag}")
            tail = ctx.call("C11.read_tail", lambda: sr[n - 1:n + 7, :])
            if tail is ctx.CRASH:
                return
            ctx.check(np.shape(tail) == (1, nc) and np.array_equal(tail[0], A[1]), "C11.tail_slice",
                      lambda: f"slice past the end not clipped {tag}")
            back = ctx.call("C11.read_backwards", lambda: sr[n + 3:n - 3:-1, :])
            if back is ctx.CRASH:
                return
            ctx.check(np.shape(back) == (2, nc) and np.array_equal(back[0], A[1]) and not np.any(back[1, :nc - nsync]),
                      "C11.backwards_slice", lambda: f"sr[{n + 3}:{n - 3}:-1, :] is not the last two frames {tag}")
            ctx.check(sr.rl == n / fs, "C11.duration", lambda: f"rl={sr.rl} != ns/fs={n / fs} {tag}")
            fts = sr.meta.get("fileTimeSecs") if sr.meta is not None else None
            if fts is not None and type(sr).__name__ == "Reader":
                ctx.check(int(np.round(fts * fs)) == n, "C11.fileTimeSecs",
                          lambda: f"fileTimeSecs*fs={fts * fs!r} does not round to {n} {tag}")
        finally:
            try:
                sr.close()
            except Exception:  # noqa
                pass


def run_case(case, ctx):
    if case.get("strict_warnings"):
        import warnings
        ctx.label("warnings_as_errors")
        with warnings.catch_warnings():
            warnings.simplefilter("ignore")
            warnings.simplefilter("error", UserWarning)
            warnings.simplefilter("error", RuntimeWarning)
            return _run_case(case, ctx)
    return _run_case(case, ctx)


def _run_case(case, ctx):
    if case.get("huge"):
        return _run_huge(case, ctx)
    sg = sut.spikeglx()
    spec = case["spec"]
    nc = gm.n_channels(spec)
    ns_file = case["ns_file"]
    frame = nc * 2
    nsync = spec["dw"] if spec["gen"] == "nidq" else spec.get("nsync", 1)
    D = rec.make_data(ns_file, nc, case["content_seed"], "full", nsync=nsync)
    fs = spec["fs"]
    ctx.label(spec["gen"], "reader_" + case["reader"], "meta_" + ("acquiring" if spec.get("acquiring") else
              "equal" if spec["ns"] == ns_file else "fewer" if spec["ns"] < ns_file else "more"),
              "fs_frac" if fs != int(fs) else "fs_int", "ignore_warnings" if case.get("quiet") else "warnings_on")
    Cls = sg.OnlineReader if case["reader"] == "online" else sg.Reader
    with rec.scratch_dir(ctx) as d:
        binf = rec.write_recording(d, spec, D)
        if case["cbin"]:
            return _run_cbin(case, ctx, sg, d, binf, spec, D, nc, fs)
        lengths, full_enum = _lengths(frame, ns_file, case["pick"])
        ctx.label("all_lengths" if full_enum else "structured_lengths")
        ctx.stat("truncation_points_max", len(lengths))
        s2v = None
        full = D.tobytes()
        deferred = case.get("deferred")
        ctx.label("deferred_" + str(deferred))
        for L in lengths:
            n = L // frame
            trail = L - n * frame
            if trail * 2 >= frame or (fs != int(fs) and spec["ns"] != n):
                ctx.nontrivial = True
            ctx.label("trail_ge_half" if trail * 2 >= frame else ("trail_partial" if trail else "trail_0"))
            L0 = max(frame, L - [1, frame // 2 + 1, frame, 3 * frame + 1][(case["pick"][0] + L) % 4]) if deferred == "grow" else L
            if L0 < L:
                binf.write_bytes(full[:L0])
                sr = ctx.call("C11.construct", Cls, binf, sort=False, open=False, ignore_warnings=bool(case.get("quiet")))
                if sr is ctx.CRASH:
                    return
                with open(binf, "ab") as fid:
                    fid.write(full[L0:L])
                if ctx.call("C11.open", sr.open) is ctx.CRASH:
                    return
                ctx.label("opened_after_growth")
            else:
                if deferred == "grow":
                    binf.write_bytes(full[:L])
                else:
                    os.truncate(binf, L)
                sr = ctx.call("C11.open", Cls, binf, sort=False, ignore_warnings=bool(case.get("quiet")))
                if sr is ctx.CRASH:
                    return
            try:
                if not _check_open(ctx, sr, D, n, nc, fs, L):
                    return
            finally:
                try:
                    sr.close()
                except Exception:
                    pass


def _check_open(ctx, sr, D, n, nc, fs, L):
    tag = f"(bytes={L}, frames={n}, nc={nc})"
    if not ctx.check(sr.ns == n and sr.shape == (n, nc), "C11.ns", lambda: f"ns={sr.ns} shape={sr.shape}, expected {n} complete frames {tag}"):
        return False
    s2v = np.asarray(sr.sample2volts)
    A = D[:n].astype(np.float32)
    A *= s2v
    got = ctx.call("C11.read_all", lambda: sr[:, :])
    if got is ctx.CRASH:
        return False
    if not ctx.check(got.shape == A.shape and np.array_equal(got, A), "C11.prefix", lambda: f"sr[:, :] is not the file's prefix {tag}"):
        return False
    last = ctx.call("C11.read_last", lambda: sr[n - 1])
    if last is ctx.CRASH:
        return False
    ctx.check(np.array_equal(last, A[n - 1]), "C11.last_frame", lambda: f"last frame differs {tag}")
    beyond = ctx.call("C11.read_beyond", lambda: sr[n], expect=(IndexError,))
    if beyond is ctx.CRASH:
        return False
    if not ctx.check(isinstance(beyond, IndexError), "C11.beyond_file", lambda: f"sr[{n}] returned data beyond the file {tag}"):
        return False
    tail = ctx.call("C11.read_tail", lambda: sr[n - 1:n + 7, :])
    if tail is ctx.CRASH:
        return False
    ctx.check(tail.shape == (1, nc) and np.array_equal(tail[0], A[n - 1]), "C11.tail_slice", lambda: f"slice past the end not clipped {tag}")
    # walking backwards from beyond the end (compressed files take their own branch for negative steps)
    for sl in (slice(None, None, -1), slice(n + 3, max(n - 5, 0), -2)):
        back = ctx.call("C11.read_backwards", lambda: sr[sl, :])
        if back is ctx.CRASH:
            return False
        if not ctx.check(np.shape(back) == A[sl].shape and np.array_equal(back, A[sl]), "C11.backwards_slice",
                         lambda: f"sr[{sl}, :] differs from the same slice of the file's prefix {tag}"):
            return False
    ctx.check(sr.rl == n / fs, "C11.duration", lambda: f"rl={sr.rl} != ns/fs={n / fs} {tag}")
    # the metadata duration is only asserted for the offline reader, whose sample count derives from it; the online
    # reader reports its duration through rl/ns computed from the file size and leaves the (stale) field alone
    fts = sr.meta.get("fileTimeSecs") if sr.meta is not None else None
    if fts is not None and type(sr).__name__ == "Reader":
        ctx.check(int(np.round(fts * fs)) == n, "C11.fileTimeSecs", lambda: f"fileTimeSecs*fs={fts * fs} does not round to {n} {tag}")
    return True


def _run_cbin(case, ctx, sg, d, binf, spec, D, nc, fs):
    """Compressed stream shorter (or longer) than the metadata announces: for every k <= ns_file frames."""
    ns_file = case["ns_file"]
    ctx.label("cbin_short")
    ctx.stat("truncation_points_max", ns_file)
    meta_text = binf.with_suffix(".meta").read_text()
    ch_rate = case.get("ch_rate") or fs
    ks = range(ns_file, 0, -1)
    if case.get("ch_rate"):
        ctx.label("cbin_header_nominal_rate")
        ks = sorted({ns_file, ns_file - 13, 5050 + case["pick"][0] % 40}, reverse=True)
    for k in ks:
        sub = d / f"k{k}"
        b = rec.write_recording(sub, spec, D[:k], meta_text=meta_text)
        cb = rec.compress(b, nc, ch_rate, case["chunk"], keep_bin=False)
        if k != spec["ns"]:
            ctx.nontrivial = True
        sr = ctx.call("C11.open_cbin", sg.Reader, cb, sort=False, ignore_warnings=bool(case.get("quiet")))
        if sr is ctx.CRASH:
            return
        try:
            if not _check_open(ctx, sr, D, k, nc, fs, k * nc * 2):
                return
        finally:
            try:
                sr.close()
            except Exception:
                pass
