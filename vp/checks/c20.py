"""C20 - Denoising, smoothing and counting utilities conserve what they must.

Ten independent sub-properties, selected by case["fn"]:

  cadzow         ibldsp.cadzow.denoise: identity when rank >= rank of the data, noise reduced when rank == #waves
  traj           ibldsp.cadzow.trajectory: block-Toeplitz embedding (validity predicates)
  derank         ibldsp.cadzow.derank: identity / rank bound / noise reduced
  svd            ibldsp.voltage.svd_denoise_npx: identity at full rank (with collections) and at rank >= data rank
  lp             ibldsp.smooth.lp: constants unchanged, length kept
  rolling        ibldsp.smooth.rolling_window: constants unchanged, length kept
  savgol         ibldsp.smooth.non_uniform_savgol: polynomials of degree <= order reproduced
  savgol_interp  ibldsp.smooth.smooth_interpolate_savgol: finite everywhere, constants unchanged, length kept
  venn           ibldsp.spiketrains.spikes_venn2/3: per-sorter sums, chunk invariance, exact regions (sparse trains)
  stack          ibldsp.voltage.stack: per-label aggregate, fold, header means
"""
import contextlib
import io

import numpy as np
from hypothesis import strategies as st

from vp import sut

ID = "C20"
LEVEL = "exploration"
RULE = (
    "Case = {'fn': sub-property, small parameters, integer seeds}; bulk data is regenerated from the seeds. "
    "cadzow/traj: site grids 1-4 x 4-40 (full rectangle, or staggered like NP1 for the full-rank identity), any trace "
    "order, several spacings; data = random complex spectra (rank full) or k plane waves per frequency with rank "
    "r in [k, k+2]; oracle: output == input within 1e-10 of max|input| when r >= rank of the data, and for r == k "
    "the Frobenius error to the clean waves over 32 noisy frequencies is smaller than the noise that was added "
    "(asserted for k <= full/4, measured elsewhere); trajectory(): positions distinct and covering T, trace counts == "
    "anti-diagonal lengths, plane wave embeds to a rank-one matrix. derank / svd_denoise_npx: same identities on "
    "low-rank matrices (rank of the output <= r; per-collection full rank; noise statement summed over 16 noise "
    "realisations, asserted for full >= 8 and k <= full/4). lp / rolling_window: constant in -> same "
    "constant out (1e-12 relative), length kept for random input. non_uniform_savgol: polynomial of degree <= order "
    "on irregular abscissae reproduced incl. borders within 1e-12 + eps*cond(A)^2 relative (A = local Vandermonde "
    "matrix, the method solves normal equations); smooth_interpolate_savgol: same shape, finite everywhere, constants "
    "unchanged. spikes_venn2/3: keys are the 2^n-1 region names, for each sorter the regions containing it sum to "
    "its spike count for any chunk size, chunk sizes that are multiples of the time bin give identical "
    "dictionaries, and trains with at most one spike per sorter and bin give exactly the constructed region counts. "
    "stack: rows == aggregate per sorted label computed by an independent loop, fold == counts, header means. "
    "Non-trivial = (cadzow/derank/svd: requested rank < full rank) or (savgol: irregular abscissae) or (venn: >= 2 "
    "chunks) or (stack: >= 2 labels with different folds) or (savgol_interp: at least one NaN gap) or (lp/rolling: "
    "non-zero constant with window/padding active) or (traj: permuted trace order). Distinct = distinct case hash. "
    "Every sub-property also draws (as case fields with class labels; absent in old corpus cases = the old behaviour): "
    "the memory LAYOUT of each array argument (C, Fortran, view with steps of two, negative strides, read-only), its "
    "TYPE (complex64/128 spectra, float32/64 data and abscissae, int64/uint64/int32/uint32/float64 spike samples, "
    "int16/uint64 labels, lists where the docstring says list / array_like), the CALL FORM (documented keywords given, "
    "left at their default, or positional: imax / niter, rank, pad, window_len / window, window / order / interp_kind, "
    "fs / chunk_size / bin sizes, fcn_agg / header) and RE-USE: rep=1 calls again with the same argument objects, "
    "rep=2 puts a call with other arguments of the same shapes in between (for cadzow / trajectory: the same probe with "
    "the traces in reverse order); every repeated answer goes through the same oracle (kinds '<kind>.again'; for "
    "random signals, where the property only fixes the length, the first answer is the reference: '*_repeat'), and "
    "afterwards every argument must still equal the copy taken before the first call ('*_args_modified').")
EXHAUSTIVE_NOTE = ("every full rectangular layout 1-4 x 4-40 (natural trace order) goes through cadzow.denoise at rank "
                   "1 (plane wave + noise) in the quick tier, and at rank full (random spectra) and every rank 1..full "
                   "(k = rank plane waves + noise) in the thorough tier; rolling_window: every window kind x odd length 3..51 x "
                   "3 signal lengths; lp: every length 1..200 x 4 paddings; svd_denoise_npx: every (nc, rank) with 1 <= rank <= nc <= 160 on data of exactly that rank. Data, trace order and all other "
                   "sub-properties are sampled. Memory layout, argument type and call form cycle deterministically through the "
                   "enumerated cases (one per case, not their product).")
ASSUMPTIONS = [
    "spike sample arrays are sorted in time (spike trains); unsorted arrays and sorters without any spike are not generated",
    "cadzow plane-wave identities are asserted on full rectangular grids only; staggered (NP1-like) grids are "
    "checked for the full-rank identity only, since a plane wave on a grid with holes is not rank one",
    "noise reduction is a statistical statement (truncating at the true rank does not reduce every noise realisation "
    "on tiny matrices): it is asserted on the Frobenius error summed over 32 noisy frequencies (cadzow) / 16 noise "
    "realisations (derank, svd) and only where the data rank is at most a quarter of the full rank (and full >= 8 "
    "for derank/svd); elsewhere the ratio is only measured; the worst ratios are reported as margins",
    "stack on integer data is exercised with np.sum only (the result array takes the dtype of the data, so means of "
    "integers are truncated by design of the function)",
    "non_uniform_savgol / smooth_interpolate_savgol with exactly `window` valid samples must either work or raise "
    "ValueError (the documented message says the data must be larger than the window)",
    "savgol tolerance is conditioning-scaled; cases with eps*cond^2 > 1e-4 are labelled illcond_skipped and not asserted",
    "input kinds are limited to what the unchanged functions accept: lists only for rolling_window, non_uniform_savgol, "
    "smooth_interpolate_savgol, the trace coordinates, the label vector and header columns of stack (lp, "
    "svd_denoise_npx, cadzow.denoise, stack data and the spike arrays need .shape); window / polynom as Python int",
    "arguments are expected to be left untouched by every function of this property: each of them builds its result "
    "in a new array (np.zeros_like / np.copy / np.pad in the unchanged code), cadzow_np1 hands overlapping windows of "
    "one spectrum to consecutive denoise calls, and memory-mapped recordings are read-only. Exceptions by design, not "
    "asserted: stack adds the key 'stack_word' to the caller's header dictionary (only the caller's columns are "
    "compared), rolling_window returns its input object for window_len < 3",
    "single precision: where the function computes in single precision (SVD of float32 / complex64 data in derank and "
    "svd_denoise_npx, lp of float32) the identity tolerance is 2e-4 / 1e-5 of max|input|; cadzow.denoise computes in "
    "double precision and rounds the result to complex64 (1e-5); float32 abscissae / ordinates of the Savitzky-Golay "
    "filter add eps32 * cond^2 * (2 + sqrt(window)) to its tolerance (mostly order 0-1 stay assertable); abscissae that "
    "collapse in float32 (steps below 0.05) are outside the domain and handed over in double precision",
    "a repeated call with the same arguments must give the same answer within 1e-12 (1e-5 for float32 lp) - the functions "
    "are documented as pure computations; bit-identity is not demanded",
]
BUDGET = {"quick": 3200, "thorough": 100000}
SHRINK = {"quick": True, "thorough": True}
WALL_CAP = {"quick": 900, "thorough": 5400}

EPS = float(np.finfo(np.float64).eps)
ID_TOL = 1e-10          # identity tolerance relative to max |input| (float64)
WINDOWS = ["flat", "hanning", "hamming", "bartlett", "blackman"]
# cadzow / traj cases cost ~0.3 s each (ismember2d re-compiles a numba function on every call), everything else < 10 ms
FNS = (["cadzow"] * 8 + ["traj"] * 2 + ["derank"] * 13 + ["svd"] * 13 + ["lp"] * 8 + ["rolling"] * 8
       + ["savgol"] * 14 + ["savgol_interp"] * 9 + ["venn"] * 15 + ["stack"] * 10)
NOISE_NF = 32           # number of noisy frequencies the cadzow noise statement is aggregated over
NOISE_REP = 16          # number of noise realisations the derank / svd noise statement is aggregated over


# ------------------------------------------------------------------------------------------------
# strategies

_seed = st.integers(0, 2 ** 32 - 1)

# Dimensions shared by every sub-property (see "Dimensions every generator needs" in tools/CHECK_AUTHOR_GUIDE.md). Cases
# written before these fields existed (corpus, enumerations) lack them: every read goes through case.get(..., default).
LAY2 = ["C", "C", "C", "F", "strided", "neg", "ro"]        # memory layout of a 2-D array argument
LAY1 = ["C", "C", "C", "strided", "neg", "ro"]             # memory layout of a 1-D array argument
REP = [0, 0, 0, 0, 1, 2]      # 0: one call; 1: second call with the SAME argument objects; 2: a call with other
#                               arguments of the same shape in between (a cache filled by somebody else), then again
REP_SLOW = [0] * 14 + [1, 2]    # for cadzow.denoise / trajectory (~0.3 s per call): 3 extra calls per 16 cases


XY_KINDS = ["f8", "f8", "f8", "f4", "int", "list", "ro", "strided", "neg"]   # how the trace coordinates are handed over


def _st_layout(draw, allow_stagger):
    nx = draw(st.integers(1, 4))
    ny = draw(st.one_of(st.integers(4, 40), st.integers(4, 12)))
    lay = "full"
    if allow_stagger and nx >= 2 and draw(st.integers(0, 3)) == 0:
        lay = "stagger"
    return {"nx": nx, "ny": ny, "layout": lay,
            "perm": draw(st.one_of(st.none(), _seed)),
            "dx": draw(st.sampled_from([16.0, 32.0, 1.0, 0.5, -16.0])),
            "dy": draw(st.sampled_from([20.0, 15.0, 1.0, -20.0])),
            "x0": draw(st.sampled_from([0.0, 11.0, -59.0])), "y0": draw(st.sampled_from([0.0, 20.0, 3840.0])),
            # the unit the coordinates are expressed in (um, mm, m, or anything else): a layout is a set of positions, not
            # a set of integers
            "unit": draw(st.sampled_from([1.0, 1.0, 1.0, 1.0, 1e-3, 1e-6, 0.1, 1.0 / 3.0]))}


@st.composite
def _st_cadzow(draw):
    mode = draw(st.sampled_from(["random", "waves", "waves", "waves"]))
    c = {"fn": "cadzow", **_st_layout(draw, allow_stagger=(mode == "random"))}
    c["mode"] = mode
    full = _dims(c["nx"], c["ny"])[2]
    if mode == "waves":
        c["k"] = draw(st.one_of(st.just(1), st.integers(1, max(1, min(4, full)))))
        c["r_off"] = draw(st.sampled_from([0, 0, 0, 1, 2]))
        c["wavemode"] = draw(st.sampled_from(["random", "moveout", "zero"]))
        c["sig_exp"] = draw(st.integers(-20, 5))
    c["nf"] = draw(st.integers(1, 10))
    c["niter"] = draw(st.sampled_from([1, 1, 1, 2, 3]))
    c["imax"] = draw(st.one_of(st.none(), st.none(), st.integers(1, 12)))
    c["scale"] = draw(st.sampled_from([1.0, 1e-6, 1e4]))
    c["seed"] = draw(_seed)
    c["wlayout"] = draw(st.sampled_from(LAY2))
    c["cdtype"] = draw(st.sampled_from(["c16", "c16", "c8"]))
    c["xy"] = draw(st.sampled_from(XY_KINDS))
    c["kwform"] = draw(st.sampled_from(["kw", "omit", "pos"]))
    c["rtype"] = draw(st.sampled_from(["int", "int", "np"]))
    c["rep"] = draw(st.sampled_from(REP_SLOW))
    return c


@st.composite
def _st_traj(draw):
    c = {"fn": "traj", **_st_layout(draw, allow_stagger=False)}
    c["seed"] = draw(_seed)
    c["xy"] = draw(st.sampled_from(XY_KINDS))
    c["rep"] = draw(st.sampled_from(REP_SLOW))
    return c


@st.composite
def _st_derank(draw):
    m = draw(st.integers(1, 40))
    n = draw(st.integers(1, 40))
    full = min(m, n)
    k = draw(st.one_of(st.integers(1, full), st.integers(1, max(1, full // 4))))
    return {"fn": "derank", "m": m, "n": n, "k": k, "r_off": draw(st.sampled_from([0, 0, 1, 3, 40])),
            "complex": draw(st.booleans()), "sig_exp": draw(st.integers(-20, 5)),
            "scale": draw(st.sampled_from([1.0, 1e-6, 1e4])), "seed": draw(_seed),
            "layout": draw(st.sampled_from(LAY2)), "single": draw(st.integers(0, 3)) == 0,
            "rtype": draw(st.sampled_from(["int", "int", "np"])), "rep": draw(st.sampled_from(REP))}


@st.composite
def _st_svd(draw):
    nc = draw(st.integers(1, 48))
    ns = draw(st.one_of(st.integers(1, 96), st.integers(48, 160)))
    mode = draw(st.sampled_from(["full", "full", "lowrank", "lowrank", "lowrank"]))
    c = {"fn": "svd", "nc": nc, "ns": ns, "mode": mode, "dtype": draw(st.sampled_from(["f8", "f8", "f4"])),
         "scale": draw(st.sampled_from([1.0, 1e-6, 1e4])), "seed": draw(_seed),
         "layout": draw(st.sampled_from(LAY2)), "rep": draw(st.sampled_from(REP)),
         "rank_form": draw(st.sampled_from(["kw", "kw", "pos", "np", "default"]))}
    if mode == "full":
        c["ncoll"] = draw(st.integers(0, min(4, nc)))
        c["coll_labels"] = draw(st.sampled_from(["range", "arbitrary"]))
        c["coll_kind"] = draw(st.sampled_from(["i8", "i8", "ro", "strided", "i4", "f8"]))
    else:
        full = min(nc, ns)
        c["k"] = draw(st.one_of(st.integers(1, full), st.integers(1, max(1, full // 4))))
        c["r_off"] = draw(st.sampled_from([0, 0, 1, 3, 200]))
        c["sig_exp"] = draw(st.integers(-20, 5))
    return c


# constants: 0 or sign * m * 10^e with m in [1, 10), e in [-30, 12]. Subnormal / near-underflow constants are excluded:
# a relative tolerance is meaningless there (window weights of 1e-17 times 1e-310 underflow), see the false-alarm log.
_consts = st.one_of(st.sampled_from([1.0, -1.0, 0.0, 1e-9, -3.5e8, 42.0]),
                    st.tuples(st.sampled_from([-1.0, 1.0]), st.floats(1.0, 10.0, exclude_max=True), st.integers(-30, 12))
                    .map(lambda t: t[0] * t[1] * 10.0 ** t[2]))


@st.composite
def _st_lp(draw):
    f0 = draw(st.floats(0.01, 0.9))
    return {"fn": "lp", "n": draw(st.one_of(st.integers(1, 64), st.integers(1, 2000))),
            "pad": draw(st.one_of(st.sampled_from([0.2, 0.01, 0.5, 1.0]), st.floats(0.001, 1.0))),
            "f0": f0, "f1": f0 + draw(st.floats(0.01, 0.6)), "c": draw(_consts), "seed": draw(_seed),
            "layout": draw(st.sampled_from(LAY1)), "dtype": draw(st.sampled_from(["f8", "f8", "f4", "f8", "f4", "i8", "i2", "pyint"])),
            "fac_form": draw(st.sampled_from(["list", "list", "tuple", "array", "array_ro"])),
            "pad_form": draw(st.sampled_from(["kw", "kw", "pos", "default"])), "rep": draw(st.sampled_from(REP))}


@st.composite
def _st_rolling(draw):
    wl = draw(st.one_of(st.integers(1, 25).map(lambda i: 2 * i + 1), st.just(1)))
    return {"fn": "rolling", "wl": wl, "n": wl + draw(st.one_of(st.integers(0, 3), st.integers(0, 300))),
            "window": draw(st.sampled_from(WINDOWS)), "c": draw(_consts), "as_list": draw(st.booleans()),
            "seed": draw(_seed),
            "layout": draw(st.sampled_from(LAY1)), "dtype": draw(st.sampled_from(["f8", "f8", "f4", "f8", "f4", "i8", "i2", "pyint"])),
            "form": draw(st.sampled_from(["kw", "kw", "pos", "default_window", "default_all"])),
            "rep": draw(st.sampled_from(REP))}


VEC_KINDS = ["array", "array", "array", "list", "f4", "ro", "strided", "neg"]   # how a 1-D float vector is handed over


@st.composite
def _st_savgol(draw):
    w = 2 * draw(st.integers(0, 10)) + 1
    o = draw(st.integers(0, min(4, w - 1)))
    extra = 0 if draw(st.sampled_from(range(16))) == 7 else draw(st.one_of(st.integers(1, 60), st.integers(1, 3)))
    return {"fn": "savgol", "w": w, "o": o, "d": draw(st.integers(0, o)), "n": w + extra,
            "spacing": draw(st.sampled_from(["uniform", "random", "random", "cluster", "gaps"])),
            "x0": draw(st.sampled_from([0.0, 1000.0, -50.0, 1e6])), "seed": draw(_seed),
            "kind": draw(st.sampled_from(VEC_KINDS)), "form": draw(st.sampled_from(["pos", "pos", "kw"])),
            "rep": draw(st.sampled_from(REP))}


@st.composite
def _st_interp(draw):
    w = 2 * draw(st.integers(1, 15)) + 1
    o = draw(st.integers(0, min(3, w - 1)))
    extra = 0 if draw(st.sampled_from(range(16))) == 7 else draw(st.one_of(st.integers(1, 60), st.integers(1, 3)))
    nan_mode = draw(st.sampled_from(["none", "random", "random", "blocks", "leading", "trailing", "both_ends"]))
    return {"fn": "savgol_interp", "w": w, "o": o, "n_valid": w + extra,
            "n_nan": 0 if nan_mode == "none" else draw(st.integers(1, 40)), "nan_mode": nan_mode,
            "kind": draw(st.sampled_from(["cubic", "cubic", "linear", "quadratic"])),
            "const": draw(_consts) if draw(st.sampled_from([False, False, True])) else None, "default_args": draw(st.integers(0, 5)) == 0,
            "seed": draw(_seed),
            "sig_kind": draw(st.sampled_from(VEC_KINDS)),
            "form": draw(st.sampled_from(["kw", "kw", "pos", "window_only", "no_kind"])),
            "rep": draw(st.sampled_from(REP))}


@st.composite
def _st_venn(draw):
    nsort = draw(st.sampled_from([2, 3]))
    fs = draw(st.sampled_from([30000, 30000, 2500, 20000]))
    tbin = draw(st.sampled_from([None, None, 1, 5, 12, 30]))
    tb = tbin if tbin else int(0.4 * fs / 1000)
    cbin = draw(st.sampled_from([4, 4, 1, 5, 7]))
    ncb = draw(st.integers(1, 24))               # number of channel bins that can hold a spike
    nch = (ncb - 1) * cbin + draw(st.integers(1, cbin))
    ntb = draw(st.one_of(st.integers(1, 40), st.integers(1, 400)))   # number of time bins that can hold a spike
    lo = max(1, -(-ntb // 150))                   # at most ~150 chunks per call
    c = {"fn": "venn", "nsort": nsort, "fs": fs, "tbin": tbin, "cbin": cbin, "nch": nch, "ntb": ntb,
         "mode": draw(st.sampled_from(["sparse", "dense", "dense"])),
         "nspk": draw(st.integers(1, 300)),
         "mult_a": draw(st.integers(lo, max(lo, ntb + 2))), "mult_b": draw(st.integers(lo, max(lo, ntb + 2))),
         "chunk_any": draw(st.integers(lo * tb, max(lo * tb, (ntb + 2) * tb))),
         "default_channels": draw(st.integers(0, 5)) == 0,
         "seed": draw(_seed),
         "sdtype": draw(st.sampled_from(["i8", "i8", "u8", "i4", "u4", "f8"])),
         "cdtype": draw(st.sampled_from(["i8", "i8", "i4", "u2", "f8"])),
         "arr": draw(st.sampled_from(["C", "C", "ro", "strided"])),
         "reuse": draw(st.sampled_from([True, True, False])),
         "default_chunk": draw(st.integers(0, 3)) == 0, "fs_form": draw(st.sampled_from(["kw", "omit"]))}
    return c


@st.composite
def _st_stack(draw):
    ng = draw(st.integers(1, 8))
    return {"fn": "stack", "ntr": ng + draw(st.integers(0, 50)), "ns": draw(st.integers(1, 20)), "ng": ng,
            "labels": draw(st.sampled_from(["range", "arbitrary", "negative", "float"])),
            "agg": draw(st.sampled_from(["default", "nanmean", "mean", "sum", "median", "nanmedian", "max"])),
            "dtype": draw(st.sampled_from(["f8", "f8", "f4", "i4"])), "nans": draw(st.booleans()),
            "nheader": draw(st.integers(0, 3)), "equal_fold": draw(st.integers(0, 4)) == 0, "seed": draw(_seed),
            "layout": draw(st.sampled_from(LAY2)),
            "word_kind": draw(st.sampled_from(["array", "array", "list", "ro", "strided", "small_int", "unsigned"])),
            "hdr_kind": draw(st.sampled_from(["array", "array", "list", "ro", "int"])),
            "form": draw(st.sampled_from(["kw", "kw", "pos"])), "rep": draw(st.sampled_from(REP))}


_STRATS = {"cadzow": _st_cadzow, "traj": _st_traj, "derank": _st_derank, "svd": _st_svd, "lp": _st_lp,
           "rolling": _st_rolling, "savgol": _st_savgol, "savgol_interp": _st_interp, "venn": _st_venn,
           "stack": _st_stack}


def strategy(tier):
    return st.sampled_from(FNS).flatmap(lambda fn: _STRATS[fn]())


# ------------------------------------------------------------------------------------------------
# exhaustive part

def enum_shards(tier):
    layouts = [(nx, ny) for nx in range(1, 5) for ny in range(4, 41)]
    # balance the cost (grows with the number of ranks in the thorough tier): interleave
    n = 12 if tier == "quick" else 30
    out = [{"what": "cadzow", "tier": tier, "layouts": layouts[i::n]} for i in range(n)]
    out.append({"what": "rolling"})
    out.append({"what": "lp"})
    # plain SVD: every (channel count, rank) pair with 1 <= rank <= nc <= 160 (= the largest 4 x 40 layout), data of
    # exactly that rank, requested rank == data rank (the per-collection rank is computed in floating point)
    out.extend({"what": "svd", "ncs": list(range(1 + i, 161, 8))} for i in range(8))
    return out


def _enum_cadzow_case(nx, ny, mode, k, seed):
    c = {"fn": "cadzow", "nx": nx, "ny": ny, "layout": "full", "perm": None, "dx": 16.0, "dy": 20.0, "x0": 11.0,
         "y0": 20.0, "mode": mode, "nf": 3, "niter": 1, "imax": None, "scale": 1.0, "seed": seed,
         # layout / type / call form cycle through the enumeration (they cost nothing); no repeated calls here
         "wlayout": LAY2[(nx + ny) % len(LAY2)], "cdtype": "c8" if (nx * ny) % 5 == 0 else "c16",
         "xy": XY_KINDS[(3 * nx + ny) % len(XY_KINDS)], "kwform": ["kw", "omit", "pos"][ny % 3], "rep": 0}
    if mode == "waves":
        c.update({"k": k, "r_off": 0, "wavemode": "random", "sig_exp": -5})
    return c


def enum_cases(desc):
    if desc["what"] == "cadzow":
        for nx, ny in desc["layouts"]:
            full = _dims(nx, ny)[2]
            seed = 1000 * nx + ny
            if desc["tier"] != "quick":
                yield _enum_cadzow_case(nx, ny, "random", None, seed)
            ks = [1] if desc["tier"] == "quick" else range(1, full + 1)
            for k in ks:
                yield _enum_cadzow_case(nx, ny, "waves", k, seed + 7919 * k)
    elif desc["what"] == "svd":
        for nc in desc["ncs"]:
            for k in range(1, nc + 1):
                yield {"fn": "svd", "nc": nc, "ns": nc + 5, "mode": "lowrank", "dtype": "f8", "scale": 1.0,
                       "seed": 100003 * nc + k, "k": k, "r_off": 0, "sig_exp": -5, "noise": False,
                       "layout": LAY2[(nc + k) % len(LAY2)], "rank_form": ["kw", "pos", "np"][k % 3]}
    elif desc["what"] == "rolling":
        for win in WINDOWS:
            for wl in range(3, 52, 2):
                for extra in (0, 1, 7):
                    yield {"fn": "rolling", "wl": wl, "n": wl + extra, "window": win, "c": -2.5, "as_list": extra == 7,
                           "seed": wl, "layout": LAY1[(wl // 2 + extra) % len(LAY1)], "form": "pos" if extra == 1 else "kw"}
    elif desc["what"] == "lp":
        for n in range(1, 201):
            for pad in (0.01, 0.2, 0.5, 1.0):
                yield {"fn": "lp", "n": n, "pad": pad, "f0": 0.1, "f1": 0.15, "c": 3.25, "seed": n,
                       "layout": LAY1[n % len(LAY1)], "pad_form": "default" if pad == 0.2 else ("pos" if n % 2 else "kw"),
                       "fac_form": ["list", "tuple", "array"][n % 3]}


# ------------------------------------------------------------------------------------------------
# helpers (oracle side)

def _dims(nx, ny):
    """Shape of the block trajectory matrix of an nx x ny grid: (L, K) with L + K - 1 = n per dimension,
    L = floor(n/2) + 1 (documented by traj_matrix_indices). Returns rows, cols, full rank."""
    lx, kx = nx // 2 + 1, (nx + 1) // 2
    ly, ky = ny // 2 + 1, (ny + 1) // 2
    rows, cols = lx * ly, kx * ky
    return rows, cols, min(rows, cols)


def _antidiag_count(n):
    """How many times sample i of an n-vector appears in its L x K trajectory matrix."""
    l, k = n // 2 + 1, (n + 1) // 2
    i = np.arange(n)
    return np.minimum(np.minimum(i + 1, n - i), min(l, k))


def _layout(case):
    """Returns sorted-grid indices (ix, iy) of every trace and its coordinates (x, y), in trace order."""
    nx, ny = case["nx"], case["ny"]
    gx, gy = np.meshgrid(np.arange(nx), np.arange(ny), indexing="ij")
    gx, gy = gx.ravel(), gy.ravel()
    if case.get("layout") == "stagger":
        keep = (gx + gy) % 2 == 0
        gx, gy = gx[keep], gy[keep]
    if case.get("perm") is not None:
        p = np.random.default_rng(case["perm"]).permutation(gx.size)
        gx, gy = gx[p], gy[p]
    unit = case.get("unit", 1.0)
    x = (case["x0"] + gx * case["dx"]) * unit
    y = (case["y0"] + gy * case["dy"]) * unit
    ix = gx if case["dx"] > 0 else nx - 1 - gx   # rank of the coordinate among the sorted unique values
    iy = gy if case["dy"] > 0 else ny - 1 - gy
    return ix, iy, x, y


def _cnormal(rng, shape):
    return (rng.standard_normal(shape) + 1j * rng.standard_normal(shape)) / np.sqrt(2)


def _waves(rng, ix, iy, k, nf, wavemode):
    """Sum of k plane waves per frequency on the grid: complex (ntr, nf)."""
    if wavemode == "moveout":
        ax, ay = rng.uniform(-0.3, 0.3, (2, k, 1))
        f = np.arange(1, nf + 1)[None, :]
        kx, ky = ax * f, ay * f
    else:
        kx = rng.uniform(-np.pi, np.pi, (k, nf))
        ky = rng.uniform(-np.pi, np.pi, (k, nf))
        if wavemode == "zero":
            kx[0], ky[0] = 0.0, 0.0
    amp = rng.uniform(0.5, 2.0, (k, nf)) * np.exp(1j * rng.uniform(0, 2 * np.pi, (k, nf)))
    s = np.zeros((ix.size, nf), dtype=np.complex128)
    for j in range(k):
        s += amp[j][None, :] * np.exp(1j * (ix[:, None] * kx[j][None, :] + iy[:, None] * ky[j][None, :]))
    return s


def _maxabs(a):
    return float(np.max(np.abs(a))) if np.size(a) else 0.0


def _fro(a):
    return float(np.sqrt(np.sum(np.abs(a) ** 2)))


def _is_array(a, shape):
    """A numeric ndarray of that shape (the oracles do arithmetic on it)."""
    return isinstance(a, np.ndarray) and a.shape == tuple(shape) and a.dtype.kind in "fciub"


EPS32 = float(np.finfo(np.float32).eps)
F4_TOL = 2e-4           # identity tolerance where the function computes in single precision (SVD of float32 data)
C8_TOL = 1e-5           # cadzow on complex64 spectra: double precision inside, the result rounded to complex64


def _lay(a, layout):
    """The same values, same dtype, as a new array with another memory layout: C / Fortran order, a view with steps of
    two into a larger buffer whose gaps hold NaN (3 for integers), a view with negative strides (what np.flipud hands
    out), or read-only (what np.memmap(mode='r') hands out)."""
    a = np.asarray(a)
    if layout == "F" and a.ndim == 2:
        return np.array(a, order="F", copy=True)
    if layout == "strided":
        big = np.empty(tuple(2 * n + 1 for n in a.shape), dtype=a.dtype)
        big.fill(np.nan if a.dtype.kind in "fc" else 3)
        v = big[tuple(slice(1, None, 2) for _ in a.shape)]
        v[...] = a
        return v
    if layout == "neg":
        return np.ascontiguousarray(a[::-1])[::-1]
    out = np.array(a, order="C", copy=True)
    if layout == "ro":
        out.flags.writeable = False
    return out


def _vec(v, kind):
    """A float64 vector handed over as ndarray / list of Python floats / float32 / read-only / non-contiguous view."""
    if kind == "list":
        return [float(t) for t in v]
    if kind == "f4":
        return np.asarray(v).astype(np.float32)
    if kind in ("ro", "strided", "neg"):
        return _lay(v, kind)
    return np.array(v, copy=True)


def _snap(a):
    """Independent copy of an argument, taken before the first call."""
    if isinstance(a, np.ndarray):
        return np.array(a, order="C", copy=True)
    if isinstance(a, (list, tuple)):
        return type(a)(_snap(t) for t in a)
    return a


def _same(a, b):
    """Argument `a` still holds exactly what its snapshot `b` holds (type, dtype, shape, values; NaN equals NaN)."""
    try:
        if isinstance(b, np.ndarray):
            if not (isinstance(a, np.ndarray) and a.shape == b.shape and a.dtype == b.dtype):
                return False
            return bool(np.array_equal(a, b, equal_nan=b.dtype.kind in "fc"))
        if isinstance(b, (list, tuple)):
            return type(a) is type(b) and len(a) == len(b) and all(_same(s, t) for s, t in zip(a, b))
        return bool(a == b) or (a != a and b != b)
    except Exception:  # noqa - whatever the code under test turned the argument into, it is not what was passed
        return False


def _untouched(ctx, kind, **pairs):
    """pairs: name=(argument object, snapshot). The functions of this property return new arrays; their callers (and the
    repeated calls of this check) keep using the arguments."""
    for name, (obj, snap) in pairs.items():
        ctx.check(_same(obj, snap), kind, lambda: f"argument `{name}` was modified by the call")


def _plan(case):
    """Sequence of calls of one case: 'first'; 'again' = the same argument objects once more (the oracle is computed
    from copies taken before the first call); 'other' = different arguments of the same shapes and types in between."""
    rep = case.get("rep", 0)
    return {0: ("first",), 1: ("first", "again"), 2: ("first", "other", "again")}[rep if rep in (0, 1, 2) else 0]


def _k(kind, tag):
    """Finding kind of an assertion made on a repeated call: same assertion, own bucket (state carried between calls
    is another root cause than a wrong first answer)."""
    return kind if tag == "first" else kind + ".again"


# ------------------------------------------------------------------------------------------------
# cadzow

def _coords(v, kind):
    """Trace coordinates as the caller may hold them: float64 / float32 / integer arrays, a list, read-only or
    non-contiguous views. With unit 1 the coordinates are multiples of 0.5 below 2^13, so every form holds the same numbers
    (the integer form is used for integral coordinates only; with another unit float32 still keeps distinct positions
    distinct and in order, which is all the embedding may depend on)."""
    if kind == "int":
        return v.astype(np.int64) if bool(np.all(v == np.round(v))) else np.array(v, copy=True)
    return _vec(v, "array" if kind == "f8" else kind)


def _run_cadzow(case, ctx):
    cz = sut.cadzow()
    ix, iy, x, y = _layout(case)
    ntr = ix.size
    rows, cols, full = _dims(case["nx"], case["ny"])
    rng = np.random.default_rng(case["seed"])
    nf, scale = case["nf"], case["scale"]
    wlayout, cdtype, xykind = case.get("wlayout", "C"), case.get("cdtype", "c16"), case.get("xy", "f8")
    kwform, plan = case.get("kwform", "kw"), _plan(case)
    ctx.label("cadzow", f"cadzow_{case['layout']}", "cadzow_permuted" if case["perm"] is not None else "cadzow_natural",
              f"cadzow_nx{case['nx']}", f"cadzow_niter{case['niter']}",
              "cadzow_imax" if case["imax"] else "cadzow_allfreq",
              "cadzow_wav_" + wlayout, "cadzow_" + cdtype, "cadzow_xy_" + xykind, "cadzow_call_" + kwform,
              f"cadzow_rep{len(plan) - 1}")
    noisy = None
    if case["mode"] == "random":
        clean = _cnormal(rng, (ntr, nf)) * scale
        k, r = full, full
        ctx.label("cadzow_fullrank")
    else:
        k = min(case["k"], full)
        r = min(full, k + case["r_off"])
        clean = _waves(rng, ix, iy, k, nf, case["wavemode"]) * scale
        ctx.label("cadzow_waves_" + case["wavemode"], "cadzow_k1" if k == 1 else "cadzow_k>1",
                  "cadzow_r==k" if r == k else "cadzow_r>k")
        if r == k and k < full and case["niter"] == 1:
            sig = 10.0 ** (case["sig_exp"] / 10.0) * _fro(clean) / np.sqrt(clean.size)
            ref = clean[:, np.arange(NOISE_NF) % nf]
            noise = _cnormal(rng, ref.shape) * sig
            noisy = ref + noise
    if r < full:
        ctx.nontrivial = True
        ctx.label("cadzow_r<full")
    wav = clean if noisy is None else np.concatenate([clean, noisy], axis=1)
    # what the function is given: the spectra in the drawn precision and memory layout. The references are taken from it
    wav = wav.astype(np.complex64 if cdtype == "c8" else np.complex128)
    wav64 = wav.astype(np.complex128)
    given = wav64[:, :nf]
    tol = C8_TOL if cdtype == "c8" else ID_TOL
    imax = case["imax"]
    win, xin, yin = _lay(wav, wlayout), _coords(x, xykind), _coords(y, xykind)
    snap = (_snap(win), _snap(xin), _snap(yin))
    rank = np.int64(r) if case.get("rtype") == "np" else int(r)
    if kwform == "pos":
        args, kw = (rank, imax, case["niter"]), {}
    else:
        args, kw = (rank,), {"imax": imax, "niter": case["niter"]}
        if kwform == "omit":            # documented defaults left out
            if imax is None:
                del kw["imax"]
            if case["niter"] == 1:
                del kw["niter"]
    nkeep = wav.shape[1] if not imax else min(imax, wav.shape[1])
    nid = min(nkeep, nf)
    ref_scale = _maxabs(given)
    sfx = "" if cdtype == "c16" else "_c8"

    def verify(out, tag):
        if not ctx.check(_is_array(out, wav.shape), _k("C20.cadzow_shape", tag),
                         lambda: f"denoise returned {type(out).__name__} of shape {getattr(out, 'shape', None)}, input {wav.shape}"):
            return
        err = _maxabs(out[:, :nid] - given[:, :nid]) / ref_scale
        ctx.stat("cadzow_identity_relerr" + sfx, err)
        kind = "C20.cadzow_identity_full" if case["mode"] == "random" else "C20.cadzow_identity_waves"
        ctx.check(err <= tol, _k(kind, tag),
                  lambda: f"grid {case['nx']}x{case['ny']} ({case['layout']}), data rank {k}, requested rank {r} of {full}, "
                          f"{cdtype} spectra ({wlayout}), call '{tag}': output differs from input by {err:.3g} of "
                          f"max|input| (tolerance {tol})")
        if noisy is not None and nkeep == wav.shape[1]:
            e_out = _fro(out[:, nf:] - ref)
            e_in = _fro(wav64[:, nf:] - ref)
            ratio = e_out / e_in
            asserted = 4 * k <= full
            if tag == "first":
                ctx.label("cadzow_noise_asserted" if asserted else "cadzow_noise_measured")
            ctx.stat("cadzow_noise_ratio_asserted" if asserted else "cadzow_noise_ratio_other", ratio)
            if asserted:
                ctx.check(ratio < 1.0, _k("C20.cadzow_noise", tag),
                          lambda: f"grid {case['nx']}x{case['ny']}, {k} plane wave(s), rank {r}, call '{tag}': error "
                                  f"after denoising is {ratio:.3f} x the added noise (not reduced)")

    for tag in plan:
        if tag == "other":
            # another recording of the same size on the same probe with the traces in reverse order: whatever the
            # function remembers of it (geometry indices, work arrays) must not leak into the next call
            wo = _lay((_cnormal(np.random.default_rng(case["seed"] + 1), wav.shape) * scale).astype(wav.dtype), wlayout)
            if ctx.call("C20.cadzow", cz.denoise, wo, _coords(x[::-1], xykind), _coords(y[::-1], xykind), *args, **kw) is ctx.CRASH:
                return
            continue
        out = ctx.call("C20.cadzow", cz.denoise, win, xin, yin, *args, **kw)
        if out is ctx.CRASH:
            return
        verify(out, tag)
    # cadzow_np1 hands overlapping row windows of one spectrum array to consecutive calls
    _untouched(ctx, "C20.cadzow_args_modified", WAV=(win, snap[0]), x=(xin, snap[1]), y=(yin, snap[2]))


def _run_traj(case, ctx):
    cz = sut.cadzow()
    ix, iy, x, y = _layout(case)
    xykind, plan = case.get("xy", "f8"), _plan(case)
    ctx.label("traj", "traj_permuted" if case["perm"] is not None else "traj_natural", "traj_xy_" + xykind,
              f"traj_rep{len(plan) - 1}")
    ctx.nontrivial = case["perm"] is not None
    xin, yin = _coords(x, xykind), _coords(y, xykind)
    snap = (_snap(xin), _snap(yin))
    for tag in plan:
        if tag == "other":      # the same probe with the traces in reverse order
            if ctx.call("C20.traj", cz.trajectory, _coords(x[::-1], xykind), _coords(y[::-1], xykind)) is ctx.CRASH:
                return
            continue
        res = ctx.call("C20.traj", cz.trajectory, xin, yin)
        if res is ctx.CRASH:
            return
        # the verification fills T the way denoise does, so a repeated call sees a used T if T is shared
        if not _verify_traj(case, ctx, res, ix, iy, tag):
            return
    _untouched(ctx, "C20.traj_args_modified", x=(xin, snap[0]), y=(yin, snap[1]))


def _verify_traj(case, ctx, res, ix, iy, tag):
    nx, ny = case["nx"], case["ny"]
    ntr = ix.size
    rows, cols, full = _dims(nx, ny)
    try:
        T, it, itr, trcount = res
        Tret = T
        T = np.array(T)
        r_, c_ = np.asarray(it[0]), np.asarray(it[1])
        itr = np.asarray(itr)
        trcount = np.asarray(trcount)
        ok_struct = (T.ndim == 2 and r_.shape == c_.shape == itr.shape and r_.ndim == 1
                     and r_.dtype.kind in "iu" and c_.dtype.kind in "iu" and itr.dtype.kind in "iu")
    except Exception:  # noqa
        ok_struct = False
    if not ctx.check(ok_struct, _k("C20.traj_structure", tag), "trajectory did not return (T, (rows, cols), itr, trcount)"):
        return False
    if not ctx.check(T.size == rows * cols and min(T.shape) == full, _k("C20.traj_shape", tag),
                     lambda: f"T has shape {T.shape}, expected {rows} x {cols} for a {nx} x {ny} grid"):
        return False
    inside = np.all((r_ >= 0) & (r_ < T.shape[0]) & (c_ >= 0) & (c_ < T.shape[1])) and np.all((itr >= 0) & (itr < ntr))
    if not ctx.check(bool(inside), _k("C20.traj_indices", tag), "indices outside T or outside the traces"):
        return False
    lin = r_.astype(np.int64) * T.shape[1] + c_
    ctx.check(np.unique(lin).size == lin.size == T.size, _k("C20.traj_cover", tag),
              lambda: f"{lin.size} positions ({np.unique(lin).size} distinct) for {T.size} elements of T")
    exp_count = _antidiag_count(nx)[ix] * _antidiag_count(ny)[iy]
    got_count = np.bincount(itr.astype(np.int64), minlength=ntr)
    ctx.check(np.array_equal(got_count, exp_count), _k("C20.traj_count", tag),
              lambda: f"trace multiplicities {got_count[:8]}.. differ from anti-diagonal lengths {exp_count[:8]}..")
    ctx.check(trcount.shape == (ntr,) and np.array_equal(trcount, got_count), _k("C20.traj_trcount", tag),
              "trcount is not the number of elements of T that hold each trace")
    # a plane wave must embed into a rank-one matrix (this is what makes T block-Toeplitz/Hankel)
    rng = np.random.default_rng(case["seed"])
    kx, ky = rng.uniform(-np.pi, np.pi, 2)
    d = np.exp(1j * (kx * ix + ky * iy))
    T[...] = 0
    T[(r_, c_)] = d[itr]
    s = np.linalg.svd(T, compute_uv=False)
    s1 = float(s[1] / s[0]) if s.size > 1 else 0.0
    ctx.stat("traj_rank1_s1_over_s0", s1)
    ctx.check(s1 <= 1e-12, _k("C20.traj_toeplitz", tag),
              lambda: f"a plane wave does not embed into a rank-one trajectory matrix (s1/s0 = {s1:.3g})")
    # use the returned T as denoise does (T[it] = data[itr]) when it is a writable complex array
    if isinstance(Tret, np.ndarray) and Tret.flags.writeable and Tret.dtype.kind == "c" and Tret.shape == T.shape:
        Tret[(r_, c_)] = d[itr]
    return True


# ------------------------------------------------------------------------------------------------
# derank / plain svd

def _run_derank(case, ctx):
    cz = sut.cadzow()
    m, n = case["m"], case["n"]
    full = min(m, n)
    k = min(case["k"], full)
    r = min(full, k + case["r_off"])
    rng = np.random.default_rng(case["seed"])
    gen = _cnormal if case["complex"] else (lambda g, shape: g.standard_normal(shape))
    layout, single, plan = case.get("layout", "C"), bool(case.get("single", False)), _plan(case)
    dt = {(False, False): np.float64, (False, True): np.float32, (True, False): np.complex128,
          (True, True): np.complex64}[(bool(case["complex"]), single)]
    wide = np.complex128 if case["complex"] else np.float64
    tol, tail_tol, sfx = (F4_TOL, 1e-4, "_single") if single else (ID_TOL, 1e-10, "")
    clean = ((gen(rng, (m, k)) @ gen(rng, (k, n))) * case["scale"]).astype(dt)      # what the function is given
    clean_w = clean.astype(wide)
    ctx.label("derank", "derank_complex" if case["complex"] else "derank_real",
              "derank_r==k" if r == k else "derank_r>k", "derank_r==full" if r == full else "derank_r<full",
              "derank_lay_" + layout, "derank_single" if single else "derank_double", f"derank_rep{len(plan) - 1}")
    if r < full:
        ctx.nontrivial = True
    rank = (lambda v: np.int64(v)) if case.get("rtype") == "np" else int
    tin = _lay(clean, layout)
    snap = _snap(tin)
    for tag in plan:
        if tag == "other":
            if ctx.call("C20.derank", cz.derank, _lay((gen(rng, (m, n)) * case["scale"]).astype(dt), layout), rank(r)) is ctx.CRASH:
                return
            continue
        out = ctx.call("C20.derank", cz.derank, tin, rank(r))
        if out is ctx.CRASH:
            return
        if not ctx.check(_is_array(out, clean.shape), _k("C20.derank_shape", tag), "derank changed the shape"):
            return
        err = _maxabs(out - clean_w) / _maxabs(clean_w)
        ctx.stat("derank_identity_relerr" + sfx, err)
        ctx.check(err <= tol, _k("C20.derank_identity", tag),
                  lambda: f"{m}x{n} {np.dtype(dt).name} matrix ({layout}) of rank {k}, requested rank {r}, call '{tag}': "
                          f"output differs by {err:.3g} of max|input|")
    _untouched(ctx, "C20.derank_args_modified", T=(tin, snap))
    if k < full:
        sig = 10.0 ** (case["sig_exp"] / 10.0) * _fro(clean_w) / np.sqrt(clean.size)
        e_out = e_in = 0.0
        for irep in range(NOISE_REP):
            noisy = _lay((clean_w + gen(rng, (m, n)) * sig).astype(dt), layout)
            nsnap = noisy.astype(wide)
            out2 = ctx.call("C20.derank", cz.derank, noisy, rank(k))
            if out2 is ctx.CRASH or not _is_array(out2, clean.shape):
                return
            if irep == 0:
                s = np.linalg.svd(out2.astype(wide), compute_uv=False)
                tail = float(s[k] / s[0]) if s[0] > 0 else 0.0
                ctx.stat("derank_rank_tail" + sfx, tail)
                ctx.check(tail <= tail_tol, "C20.derank_rank",
                          lambda: f"output of derank(T, {k}) has numerical rank > {k} (s[{k}]/s[0] = {tail:.3g})")
                _untouched(ctx, "C20.derank_args_modified", T=(noisy.astype(wide), nsnap))
            e_out += _fro(out2 - clean_w) ** 2
            e_in += _fro(nsnap - clean_w) ** 2
        ratio = float(np.sqrt(e_out / e_in))
        asserted = full >= 8 and 4 * k <= full
        ctx.stat("derank_noise_ratio_asserted" if asserted else "derank_noise_ratio_other", ratio)
        if asserted:
            ctx.label("derank_noise_asserted")
            ctx.check(ratio < 1.0, "C20.derank_noise",
                      lambda: f"{m}x{n}, rank {k} + noise: error after deranking is {ratio:.3f} x the added noise")


def _run_svd(case, ctx):
    vol = sut.voltage()
    nc, ns = case["nc"], case["ns"]
    rng = np.random.default_rng(case["seed"])
    dtype = np.float64 if case["dtype"] == "f8" else np.float32
    tol = ID_TOL if dtype is np.float64 else F4_TOL
    sfx = "" if dtype is np.float64 else "_f4"
    layout, plan, rank_form = case.get("layout", "C"), _plan(case), case.get("rank_form", "kw")
    ctx.label("svd", "svd_" + case["dtype"], "svd_" + case["mode"], "svd_lay_" + layout, f"svd_rep{len(plan) - 1}")

    def call(data, rank, form="kw", **kw):
        if form == "default":           # rank left out: documented default nc // 4 (code: `rank or nc // 4`)
            return ctx.call("C20.svd", vol.svd_denoise_npx, data, **kw)
        if form == "pos":
            return ctx.call("C20.svd", vol.svd_denoise_npx, data, int(rank), **kw)
        return ctx.call("C20.svd", vol.svd_denoise_npx, data, rank=np.int64(rank) if form == "np" else int(rank), **kw)

    if case["mode"] == "full":
        data = (rng.standard_normal((nc, ns)) * case["scale"]).astype(dtype)
        coll = None
        kw = {}
        if rank_form == "default":
            rank_form = "kw"            # the default rank is never the full rank
        if case["ncoll"] > 0:
            ncoll = case["ncoll"]
            lab = np.r_[np.arange(ncoll), rng.integers(0, ncoll, nc - ncoll)]
            lab = lab[rng.permutation(nc)]
            if case["coll_labels"] == "arbitrary":
                lab = np.array([7, -3, 100, 2])[lab]
            ckind = case.get("coll_kind", "i8")
            coll = {"i4": lambda v: v.astype(np.int32), "f8": lambda v: v.astype(np.float64),
                    "ro": lambda v: _lay(v, "ro"), "strided": lambda v: _lay(v, "strided")}.get(ckind, lambda v: v)(lab)
            kw["collection"] = coll
            ctx.label(f"svd_coll{ncoll}", "svd_coll_" + ckind)
            ctx.nontrivial = ncoll >= 2
        else:
            ctx.label("svd_nocoll")
            if case.get("layout") is None or case["seed"] % 2:
                kw["collection"] = None     # explicit None and left out are the same documented default
        ctx.label("svd_rank_" + rank_form)
        din = _lay(data, layout)
        snap, csnap = _snap(din), _snap(coll)
        for tag in plan:
            if tag == "other":
                other = _lay((rng.standard_normal((nc, ns)) * case["scale"]).astype(dtype), layout)
                if call(other, nc, rank_form, **kw) is ctx.CRASH:
                    return
                continue
            out = call(din, nc, rank_form, **kw)
            if out is ctx.CRASH:
                return
            if not ctx.check(_is_array(out, data.shape), _k("C20.svd_shape", tag), "svd_denoise_npx changed the shape"):
                return
            err = _maxabs(out.astype(np.float64) - data) / max(_maxabs(data), 1e-300)
            ctx.stat("svd_identity_relerr" + sfx, err)
            ctx.check(err <= tol, _k("C20.svd_identity_full", tag),
                      lambda: f"{nc}x{ns} {case['dtype']} ({layout}), rank=nc, collections={case['ncoll']}, call '{tag}': "
                              f"output differs by {err:.3g} of max|input| (tolerance {tol})")
        _untouched(ctx, "C20.svd_args_modified", datr=(din, snap))
        if coll is not None:
            _untouched(ctx, "C20.svd_args_modified", collection=(coll, csnap))
        return
    full = min(nc, ns)
    k = min(case["k"], full)
    r = min(nc, k + case["r_off"])
    if rank_form == "default":
        if nc // 4 >= 1:
            r = nc // 4                 # what the function takes when the rank is left out
            k = min(k, r)
        else:
            rank_form = "kw"
    ctx.label("svd_rank_" + rank_form)
    clean64 = (rng.standard_normal((nc, k)) @ rng.standard_normal((k, ns))) * case["scale"]
    clean = clean64.astype(dtype)
    ctx.label("svd_r==k" if r == k else "svd_r>k")
    if r < full:
        ctx.nontrivial = True
    din = _lay(clean, layout)
    snap = _snap(din)
    for tag in plan:
        if tag == "other":
            other = _lay((rng.standard_normal((nc, ns)) * case["scale"]).astype(dtype), layout)
            if call(other, r, rank_form) is ctx.CRASH:
                return
            continue
        out = call(din, r, rank_form)
        if out is ctx.CRASH:
            return
        if not ctx.check(_is_array(out, clean.shape), _k("C20.svd_shape", tag), "svd_denoise_npx changed the shape"):
            return
        err = _maxabs(out.astype(np.float64) - clean) / _maxabs(clean)
        ctx.stat("svd_identity_relerr" + sfx, err)
        ctx.check(err <= tol, _k("C20.svd_identity_lowrank", tag),
                  lambda: f"{nc}x{ns} {case['dtype']} ({layout}) of rank {k}, requested rank {r} ({rank_form}), call "
                          f"'{tag}': output differs by {err:.3g} of max|input|")
    _untouched(ctx, "C20.svd_args_modified", datr=(din, snap))
    if k < full and case.get("noise", True):
        sig = 10.0 ** (case["sig_exp"] / 10.0) * _fro(clean64) / np.sqrt(clean64.size)
        e_out = e_in = 0.0
        for irep in range(NOISE_REP):
            noisy = _lay((clean64 + rng.standard_normal((nc, ns)) * sig).astype(dtype), layout)
            nsnap = noisy.astype(np.float64)
            out2 = ctx.call("C20.svd", vol.svd_denoise_npx, noisy, rank=int(k))
            if out2 is ctx.CRASH or not _is_array(out2, clean.shape):
                return
            if irep == 0:
                _untouched(ctx, "C20.svd_args_modified", datr=(noisy.astype(np.float64), nsnap))
            e_out += _fro(out2.astype(np.float64) - clean64) ** 2
            e_in += _fro(nsnap - clean64) ** 2
        ratio = float(np.sqrt(e_out / e_in))
        asserted = full >= 8 and 4 * k <= full
        ctx.stat("svd_noise_ratio_asserted" if asserted else "svd_noise_ratio_other", ratio)
        if asserted:
            ctx.label("svd_noise_asserted")
            ctx.check(ratio < 1.0, "C20.svd_noise",
                      lambda: f"{nc}x{ns}, rank {k} + noise: error after svd denoising is {ratio:.3f} x the added noise")


# ------------------------------------------------------------------------------------------------
# smoothers

def _const_err(out, c):
    """Deviation from the constant relative to |c| (absolute for c == 0). The denominator is floored at 1e-280: nearer to
    the subnormal range float64 cannot hold c times a window weight to 1e-12 relative (not generated, replay only)."""
    return _maxabs(np.asarray(out, dtype=np.float64) - c) / max(abs(c), 1e-280) if c != 0 else _maxabs(out)


INT_KINDS = {"i8": np.int64, "i2": np.int16, "pyint": None}


def _int_const(c):
    """The integer constant an integer-typed series of a case holds: |c| rounded into 1..30000, sign kept."""
    v = int(min(max(round(abs(c)) if np.isfinite(c) else 7, 1), 30000))
    return -v if c < 0 else v


def _hand_int(v, dts, layout):
    """Integer samples as the caller may hold them: int64 / int16 array (any layout) or a list of Python ints."""
    v = np.asarray(v, dtype=np.int64)
    return [int(t) for t in v] if dts == "pyint" else _lay(v.astype(INT_KINDS[dts]), layout)


def _run_lp(case, ctx):
    sm = sut.smooth()
    n, pad, c = case["n"], case["pad"], case["c"]
    layout, dts, plan = case.get("layout", "C"), case.get("dtype", "f8"), _plan(case)
    fac_form, pad_form = case.get("fac_form", "list"), case.get("pad_form", "kw")
    dt = np.float32 if dts == "f4" else np.float64
    if pad_form == "default":
        pad = 0.2                       # documented default, left out of the call
    fac = [case["f0"], case["f1"]]
    fac_in = {"list": list, "tuple": tuple, "array": np.array, "array_ro": lambda v: _lay(np.array(v), "ro")}[fac_form](fac)
    fsnap = _snap(fac_in)
    ctx.label("lp", "lp_n1" if n == 1 else ("lp_small" if n <= 8 else "lp_n>8"), "lp_pad1" if pad == 1.0 else "lp_pad<1",
              "lp_lay_" + layout, "lp_" + dts, "lp_fac_" + fac_form, "lp_pad_" + pad_form, f"lp_rep{len(plan) - 1}")
    ctx.nontrivial = c != 0 and n > 1
    if dts in INT_KINDS:
        ctx.label("lp_integer_samples_" + dts)

    def call(ts):
        if pad_form == "default":
            return ctx.call("C20.lp", sm.lp, ts, fac_in)
        if pad_form == "pos":
            return ctx.call("C20.lp", sm.lp, ts, fac_in, pad)
        return ctx.call("C20.lp", sm.lp, ts, fac_in, pad=pad)

    if dts == "pyint":
        dts = "i8"      # lp reads ts.shape: arrays only (a list is accepted by rolling_window, whose docstring says so)
    if dts in INT_KINDS:
        # integer-typed samples (raw counts): the smoothed series is real-valued all the same
        cin = _hand_int(np.full(n, _int_const(c)), dts, layout)
        sig = _hand_int(np.random.default_rng(case["seed"]).integers(-1000, 1001, n), dts, layout)
    else:
        cin = _lay(np.full(n, c, dtype=dt), layout)
        sig = _lay(np.random.default_rng(case["seed"]).standard_normal(n).astype(dt), layout)
    cval = float(cin[0])                # the constant the function is given (rounded to single precision for f4)
    snaps = (_snap(cin), _snap(sig))
    # float32 input: np.pad keeps the dtype, the spectrum is computed in single precision
    ctol, rtol = (1e-12, 1e-12) if dt is np.float64 else (1e-5, 1e-5)
    first = None
    for tag in plan:
        if tag == "other":
            oth = np.random.default_rng(case["seed"] + 1).standard_normal(n) * 3 + 1
            if call(_hand_int(np.round(oth * 100), dts, layout) if dts in INT_KINDS else _lay(oth.astype(dt), layout)) is ctx.CRASH:
                return
            continue
        out = call(cin)
        if out is ctx.CRASH:
            return
        if ctx.check(_is_array(out, (n,)), _k("C20.lp_length", tag),
                     lambda: f"lp of {n} samples (pad={pad}) returned shape {getattr(out, 'shape', None)}"):
            err = _const_err(out, cval)
            ctx.stat("lp_const_relerr" + ("" if dt is np.float64 else "_f4"), err)
            ctx.check(err <= ctol, _k("C20.lp_constant", tag),
                      lambda: f"constant {cval!r} ({dts}, {layout}, n={n}, pad={pad}, fac={fac}, call '{tag}') came back "
                              f"with relative deviation {err:.3g}")
        out = call(sig)
        if out is ctx.CRASH:
            return
        if not ctx.check(_is_array(out, (n,)), _k("C20.lp_length", tag),
                         lambda: f"lp of {n} samples (pad={pad}) returned shape {getattr(out, 'shape', None)}"):
            continue
        if first is None:
            first = np.array(out, dtype=np.float64)
        else:
            # same argument objects, same answer (the first answer is the only reference for a random signal)
            dev = _maxabs(np.asarray(out, dtype=np.float64) - first) / max(_maxabs(first), 1e-300)
            ctx.check(dev <= rtol, "C20.lp_repeat",
                      lambda: f"lp of the same {n} samples (pad={pad}, fac={fac}) differs by {dev:.3g} between two calls")
    _untouched(ctx, "C20.lp_args_modified", ts=(cin, snaps[0]), ts_random=(sig, snaps[1]), fac=(fac_in, fsnap))


def _run_rolling(case, ctx):
    sm = sut.smooth()
    n, wl, win, c = case["n"], case["wl"], case["window"], case["c"]
    layout, dts, plan, form = case.get("layout", "C"), case.get("dtype", "f8"), _plan(case), case.get("form", "kw")
    if case["as_list"]:
        layout, dts = "list", "f8"      # a list of Python floats has neither
    dt = np.float32 if dts == "f4" else np.float64
    if form in ("default_window", "default_all"):
        win = "blackman"                # documented defaults, left out of the call
    if form == "default_all":
        wl, n = 11, max(n, 11)
    ctx.label("rolling", "rolling_" + win, "rolling_n==wl" if n == wl else "rolling_n>wl",
              "rolling_wl<3" if wl < 3 else "rolling_wl>=3", "rolling_list" if case["as_list"] else "rolling_array",
              "rolling_lay_" + layout, "rolling_" + dts, "rolling_call_" + form, f"rolling_rep{len(plan) - 1}")
    ctx.nontrivial = c != 0 and wl >= 3

    def call(x):
        if form == "default_all":
            return ctx.call("C20.rolling", sm.rolling_window, x)
        if form == "default_window":
            return ctx.call("C20.rolling", sm.rolling_window, x, window_len=wl)
        if form == "pos":
            return ctx.call("C20.rolling", sm.rolling_window, x, wl, win)
        return ctx.call("C20.rolling", sm.rolling_window, x, window_len=wl, window=win)

    ints = case.get("dtype") in INT_KINDS

    def hand(v):
        if ints:
            return _hand_int(np.round(v), case["dtype"], "C" if case["as_list"] else layout)
        return [float(t) for t in v] if case["as_list"] else _lay(v.astype(dt), layout)

    xin = hand(np.full(n, float(_int_const(c)) if ints else c, dtype=np.float64))
    cval = float(xin[0])
    sig = hand(np.random.default_rng(case["seed"]).standard_normal(n) * (300 if ints else 1))
    if ints:
        ctx.label("rolling_integer_samples_" + case["dtype"])
    snaps = (_snap(xin), _snap(sig))
    # float32 input: the convolution runs in double precision on the float32 values, the weights sum to one within eps
    first = None
    for tag in plan:
        if tag == "other":
            if call(hand(np.random.default_rng(case["seed"] + 1).standard_normal(n) * 3 + 1)) is ctx.CRASH:
                return
            continue
        out = call(xin)
        if out is ctx.CRASH:
            return
        if ctx.check(np.shape(out) == (n,), _k("C20.rolling_length", tag),
                     lambda: f"rolling_window({win}, {wl}) of {n} samples returned shape {np.shape(out)}"):
            err = _const_err(out, cval)
            ctx.stat("rolling_const_relerr", err)
            ctx.check(err <= 1e-12, _k("C20.rolling_constant", tag),
                      lambda: f"constant {cval!r} ({dts}, n={n}, {win} window of {wl}, call '{tag}') came back with "
                              f"relative deviation {err:.3g}")
        out = call(sig)
        if out is ctx.CRASH:
            return
        if not ctx.check(np.shape(out) == (n,), _k("C20.rolling_length", tag),
                         lambda: f"rolling_window({win}, {wl}) of {n} samples returned shape {np.shape(out)}"):
            continue
        if first is None:
            first = np.array(out, dtype=np.float64)
        else:
            dev = _maxabs(np.asarray(out, dtype=np.float64) - first) / max(_maxabs(first), 1e-300)
            ctx.check(dev <= 1e-12, "C20.rolling_repeat",
                      lambda: f"rolling_window({win}, {wl}) of the same {n} samples differs by {dev:.3g} between two calls")
    _untouched(ctx, "C20.rolling_args_modified", x=(xin, snaps[0]), x_random=(sig, snaps[1]))


def _abscissae(rng, n, spacing, x0):
    if spacing == "uniform":
        dx = np.full(n, rng.uniform(0.1, 3.0))
    elif spacing == "random":
        dx = rng.uniform(0.1, 3.0, n)
    elif spacing == "cluster":
        dx = rng.choice([0.1, 3.0], n)
    else:  # integer positions with gaps, as produced by dropping NaN samples
        dx = rng.integers(1, 4, n).astype(np.float64)
    return x0 + np.cumsum(dx)


def _savgol_kappa(x, w, o):
    """max over all windows of cond_2(A)^2, A = Vandermonde matrix of the abscissae relative to the window centre.
    The function under test inverts A^T A, so its attainable accuracy is eps * cond(A)^2."""
    h = w // 2
    kmax = 1.0
    for i in range(h, len(x) - h):
        t = x[i - h:i + h + 1] - x[i]
        s = np.linalg.svd(np.vander(t, o + 1, increasing=True), compute_uv=False)
        kmax = max(kmax, float((s[0] / s[-1]) ** 2) if s[-1] > 0 else np.inf)
    return kmax


def _eq_window_call(ctx, kind, fn, *a, **kw):
    """n == window: the guard of non_uniform_savgol lets it through although the message says 'larger than'.
    Acceptable outcomes: a result (checked by the caller) or ValueError."""
    return ctx.call(kind, fn, *a, expect=(ValueError,), **kw)


def _run_savgol(case, ctx):
    sm = sut.smooth()
    w, o, d, n = case["w"], case["o"], case["d"], case["n"]
    rng = np.random.default_rng(case["seed"])
    kind, form, plan = case.get("kind", "array"), case.get("form", "pos"), _plan(case)
    x = _abscissae(rng, n, case["spacing"], case["x0"])
    if kind == "f4":
        # single-precision abscissae: the polynomial is laid through the abscissae the function is given. Abscissae
        # that collapse in single precision (steps of 0.1 at 1e6) are outside the domain: keep double precision then
        x32 = x.astype(np.float32).astype(np.float64)
        if np.all(np.diff(x32) > 0.05):
            x = x32
        else:
            kind = "array"
    coef = rng.standard_normal(d + 1)
    coef[d] = np.sign(coef[d]) * max(abs(coef[d]), 0.1)
    u = (x - x.mean()) / max(np.ptp(x) / 2, 1e-300)
    yv = np.polynomial.polynomial.polyval(u, coef)
    xin, yin = _vec(x, kind), _vec(yv, kind)
    if kind == "f4":
        yv = yin.astype(np.float64)     # rounded ordinates: the oracle allows for that rounding below
    snap = (_snap(xin), _snap(yin))
    ctx.label("savgol", "savgol_" + case["spacing"], f"savgol_order{o}", "savgol_deg==order" if d == o else "savgol_deg<order",
              "savgol_interpolating" if o == w - 1 else "savgol_overdetermined", "savgol_in_" + kind, "savgol_call_" + form,
              f"savgol_rep{len(plan) - 1}")
    eqw = n == w
    if eqw:
        ctx.label("savgol_n==window")
    if case["spacing"] != "uniform":
        ctx.nontrivial = True
    kappa = None

    def call(xa, ya):
        kind_ = "C20.savgol_eq_window" if eqw else "C20.savgol"
        kw = {"expect": (ValueError,)} if eqw else {}
        if form == "kw":
            return ctx.call(kind_, sm.non_uniform_savgol, x=xa, y=ya, window=w, polynom=o, **kw)
        return ctx.call(kind_, sm.non_uniform_savgol, xa, ya, w, o, **kw)

    for tag in plan:
        if tag == "other":
            r2 = np.random.default_rng(case["seed"] + 1)
            res = call(_vec(_abscissae(r2, n, "random", 0.0), kind), _vec(r2.standard_normal(n), kind))
            if res is ctx.CRASH:
                return
            continue
        out = call(xin, yin)
        if out is ctx.CRASH or isinstance(out, ValueError):
            return
        if not ctx.check(_is_array(out, (n,)), _k("C20.savgol_length", tag), lambda: f"output shape {np.shape(out)} for {n} samples"):
            return
        if kappa is None:
            kappa = _savgol_kappa(x, w, o)
        tol = 1e-12 + EPS * kappa
        if kind == "f4":
            # ordinates rounded to single precision (|dy| <= eps32 max|y|) are amplified by at most ||pinv(A)|| ||A|| =
            # cond(A) <= kappa; abscissa differences are formed in single precision (relative error eps32 in each entry
            # of A, solved through the normal equations: kappa). (2 + sqrt(window)) covers the border extrapolation
            tol += EPS32 * kappa * (2 + np.sqrt(w))
        if tol > 1e-4:
            ctx.label("savgol_illcond_skipped")
            ctx.check(bool(np.all(np.isfinite(out))), _k("C20.savgol_finite", tag), "non-finite output")
            continue
        scale = _maxabs(yv)
        dev = np.abs(out - yv) / scale
        if not np.all(np.isfinite(out)):
            ctx.fail(_k("C20.savgol_finite", tag), f"non-finite output (window {w}, order {o}, n {n})")
            return
        h = w // 2
        err_in = float(dev[h:n - h].max())
        err_b = float(max(dev[:h].max(), dev[n - h:].max())) if h else 0.0
        ctx.stat("savgol_err_over_tol", max(err_in, err_b) / tol)
        if kind != "f4":
            ctx.stat("savgol_abs_relerr", max(err_in, err_b))
        msg = (lambda where, e: f"polynomial of degree {d} (window {w}, order {o}, n {n}, spacing {case['spacing']}, input "
                                f"{kind}, call '{tag}') is off by {e:.3g} of max|y| {where} (tolerance {tol:.3g}, "
                                f"cond^2 {kappa:.3g})")
        ctx.check(err_in <= tol, _k("C20.savgol_interior", tag), lambda: msg("in the interior", err_in))
        ctx.check(err_b <= tol, _k("C20.savgol_border", tag), lambda: msg("at the borders", err_b))
    _untouched(ctx, "C20.savgol_args_modified", x=(xin, snap[0]), y=(yin, snap[1]))


def _nan_mask(rng, n_valid, n_nan, mode):
    n = n_valid + n_nan
    nan = np.zeros(n, dtype=bool)
    if n_nan == 0:
        return nan
    if mode == "random":
        nan[rng.choice(n, n_nan, replace=False)] = True
    elif mode == "leading":
        nan[:n_nan] = True
    elif mode == "trailing":
        nan[n - n_nan:] = True
    elif mode == "both_ends":
        a = n_nan // 2
        nan[:a] = True
        nan[n - (n_nan - a):] = True
    else:  # blocks
        left = n_nan
        while left > 0:
            b = int(min(left, rng.integers(1, 9)))
            s = int(rng.integers(0, n - b + 1))
            free = ~nan[s:s + b]
            nan[s:s + b] = True
            left -= int(free.sum())
    return nan


def _run_interp(case, ctx):
    sm = sut.smooth()
    w, o = case["w"], case["o"]
    rng = np.random.default_rng(case["seed"])
    nan = _nan_mask(rng, case["n_valid"], case["n_nan"], case["nan_mode"])
    n = nan.size
    nvalid = int((~nan).sum())
    skind, form, plan = case.get("sig_kind", "array"), case.get("form", "kw"), _plan(case)
    if case["const"] is not None:
        sig = np.full(n, float(case["const"]))
    else:
        sig = np.cumsum(rng.standard_normal(n)) + rng.standard_normal(n) * 0.3
    sig[nan] = np.nan
    interp_kind = case["kind"]
    args, kw = (), {"window": w, "order": o, "interp_kind": interp_kind}
    if case["default_args"] and nvalid > 31:
        kw, w, o, form = {}, 31, 3, "defaults"
    elif form == "pos":
        args, kw = (w, o, interp_kind), {}
    elif form == "window_only" and w > 3:      # order and interp_kind left at their documented defaults (3, cubic)
        kw, o, interp_kind = {"window": w}, 3, "cubic"
    elif form == "no_kind":
        del kw["interp_kind"]
        interp_kind = "cubic"
    else:
        form = "kw"
    ctx.label("interp", "interp_" + case["nan_mode"], "interp_" + interp_kind,
              "interp_const" if case["const"] is not None else "interp_random",
              "interp_defaults" if form == "defaults" else "interp_explicit", "interp_call_" + form, "interp_in_" + skind,
              f"interp_rep{len(plan) - 1}")
    eqw = nvalid == w
    sin = _vec(sig, skind)
    snap = _snap(sin)
    cval = None
    if case["const"] is not None:
        cval = float(np.asarray(sin, dtype=np.float64)[~nan][0])    # the constant as handed over (rounded for float32)
    if eqw:
        ctx.label("interp_nvalid==window")
    if nan.any():
        ctx.nontrivial = True
    first = None
    for tag in plan:
        if tag == "other":
            o_sig = np.cumsum(np.random.default_rng(case["seed"] + 1).standard_normal(n))
            o_sig[nan] = np.nan
            res = ctx.call("C20.interp_eq_window" if eqw else "C20.interp", sm.smooth_interpolate_savgol,
                           _vec(o_sig, skind), *args, expect=(ValueError,) if eqw else (), **kw)
            if res is ctx.CRASH:
                return
            continue
        if eqw:
            out = _eq_window_call(ctx, "C20.interp_eq_window", sm.smooth_interpolate_savgol, sin, *args, **kw)
            if out is ctx.CRASH or isinstance(out, ValueError):
                return
        else:
            out = ctx.call("C20.interp", sm.smooth_interpolate_savgol, sin, *args, **kw)
            if out is ctx.CRASH:
                return
        if not ctx.check(_is_array(out, (n,)), _k("C20.interp_length", tag),
                         lambda: f"output shape {np.shape(out)} for a signal of {n} samples"):
            return
        nbad = int((~np.isfinite(out)).sum()) if out.dtype.kind in "fiu" else n
        if not ctx.check(nbad == 0, _k("C20.interp_finite", tag),
                         lambda: f"{nbad} non-finite output samples (n={n}, {int(nan.sum())} NaN, window {w}, order {o})"):
            return
        if first is None:
            first = np.array(out, dtype=np.float64)
        else:
            dev = _maxabs(out - first) / max(_maxabs(first), 1e-300)
            ctx.check(dev <= 1e-12, "C20.interp_repeat",
                      lambda: f"the same signal ({n} samples, window {w}, order {o}) gives answers that differ by "
                              f"{dev:.3g} between two calls")
        if cval is not None:
            kappa = _savgol_kappa(np.flatnonzero(~nan).astype(np.float64), w, o)
            # interpolation/extrapolation of a constant known within tol amplifies by the Lebesgue constant of the
            # spline; 1e3 is generous for <= 40 extrapolated samples and irrelevant against wrong coefficients (O(1))
            tol = 1e3 * (1e-12 + EPS * kappa)
            if tol > 1e-3:
                ctx.label("interp_illcond_skipped")
                continue
            err = _const_err(out, cval)
            ctx.stat("interp_const_err_over_tol", err / tol)
            ctx.check(err <= tol, _k("C20.interp_constant", tag),
                      lambda: f"constant {cval!r} with {int(nan.sum())} NaN ({skind}, call '{tag}') came back with relative "
                              f"deviation {err:.3g} (tol {tol:.3g})")
    # the function works on copies (np.copy(signal)): the caller keeps the raw signal, NaN included
    _untouched(ctx, "C20.interp_args_modified", signal=(sin, snap))


# ------------------------------------------------------------------------------------------------
# venn

def _venn_trains(case, rng, tb):
    """Returns (samples tuple, channels tuple, expected dict or None)."""
    ns, cbin, nch, ntb = case["nsort"], case["cbin"], case["nch"], case["ntb"]
    ncb = -(-nch // cbin)
    names = [format(i, f"0{ns}b") for i in range(1, 2 ** ns)]
    if case["mode"] == "sparse":
        ncell = ntb * ncb
        m = min(case["nspk"], ncell)
        cells = rng.choice(ncell, m, replace=False)
        subsets = rng.integers(1, 2 ** ns, m)
        expected = {k: 0 for k in names}
        S = [[] for _ in range(ns)]
        C = [[] for _ in range(ns)]
        for cell, sub in zip(cells, subsets):
            it_, ic_ = divmod(int(cell), ncb)
            key = format(int(sub), f"0{ns}b")
            expected[key] += 1
            for s in range(ns):
                if key[s] == "1":
                    S[s].append(it_ * tb + int(rng.integers(0, tb)))
                    lo, hi = ic_ * cbin, min(nch, (ic_ + 1) * cbin)
                    C[s].append(int(rng.integers(lo, hi)))
        # every sorter needs at least one spike (np.max of an empty train is outside the domain)
        for s in range(ns):
            if not S[s]:
                # put it in a fresh cell if there is one, else share cell 0 as a second spike (then not sparse)
                used = set(int(c) for c in cells)
                freec = [c for c in range(ncell) if c not in used]
                if not freec:
                    return None
                cell = freec[0]
                cells = np.r_[cells, cell]
                it_, ic_ = divmod(cell, ncb)
                key = "".join("1" if j == s else "0" for j in range(ns))
                expected[key] += 1
                S[s].append(it_ * tb)
                C[s].append(ic_ * cbin)
    else:
        expected = None
        tmax = ntb * tb
        base_n = case["nspk"]
        base_s = rng.integers(0, tmax, base_n)
        base_c = rng.integers(0, nch, base_n)
        S, C = [], []
        for s in range(ns):
            keep = rng.random(base_n) < rng.uniform(0.3, 1.0)
            if not keep.any():
                keep[int(rng.integers(0, base_n))] = True
            jit = rng.integers(-2, 3, base_n)
            ss = np.clip(base_s + jit, 0, tmax - 1)[keep]
            cc = np.clip(base_c + rng.integers(-1, 2, base_n), 0, nch - 1)[keep]
            nextra = int(rng.integers(0, 1 + base_n // 3))
            ss = np.r_[ss, rng.integers(0, tmax, nextra)]
            cc = np.r_[cc, rng.integers(0, nch, nextra)]
            S.append(ss)
            C.append(cc)
    samples, channels = [], []
    for s in range(ns):
        a = np.asarray(S[s], dtype=np.int64)
        c = np.asarray(C[s], dtype=np.int64)
        o = np.argsort(a, kind="stable")
        samples.append(a[o])
        channels.append(c[o])
    return tuple(samples), tuple(channels), expected


def _run_venn(case, ctx):
    stn = sut.spiketrains()
    ns = case["nsort"]
    tb = case["tbin"] if case["tbin"] else int(0.4 * case["fs"] / 1000)
    rng = np.random.default_rng(case["seed"])
    ctx.label("venn", f"venn{ns}", "venn_" + case["mode"], "venn_defaultbin" if case["tbin"] is None else "venn_bin_given")
    if case["default_channels"]:
        case = dict(case, cbin=4, nch=384)
        ctx.label("venn_default_channels")
    built = _venn_trains(case, rng, tb)
    if built is None:
        ctx.label("venn_degenerate_skipped")
        return
    samples, channels, expected = built
    counts = [int(s.size) for s in samples]
    tmax = max(int(s.max()) for s in samples)
    names = [format(i, f"0{ns}b") for i in range(1, 2 ** ns)]
    fn = stn.spikes_venn2 if ns == 2 else stn.spikes_venn3
    # spike times / channels as the sorters store them: signed, unsigned or floating point, possibly read-only (memory
    # mapped) or non-contiguous (a column of a table). All values are integers below 2^31, every dtype holds them exactly
    sdt, cdt, arr = case.get("sdtype", "i8"), case.get("cdtype", "i8"), case.get("arr", "C")
    reuse = bool(case.get("reuse", False))
    npdt = {"i8": np.int64, "u8": np.uint64, "i4": np.int32, "u4": np.uint32, "u2": np.uint16, "f8": np.float64}
    s_in = tuple(_lay(s.astype(npdt[sdt]), arr) for s in samples)
    c_in = tuple(_lay(c.astype(npdt[cdt]), arr) for c in channels)
    snap = (_snap(s_in), _snap(c_in))
    ctx.label("venn_samples_" + sdt, "venn_channels_" + cdt, "venn_arr_" + arr, "venn_reuse" if reuse else "venn_fresh")
    kw = {}
    if case["fs"] != 30000 or case.get("fs_form", "kw") == "kw":
        kw["fs"] = case["fs"]
    else:
        ctx.label("venn_default_fs")
    if case["tbin"] is not None:
        kw["samples_binsize"] = case["tbin"]
    if not case["default_channels"]:
        kw.update(channels_binsize=case["cbin"], num_channels=case["nch"])

    def run(chunk):
        # reuse: every call of the case gets the SAME tuples and arrays (a caller comparing chunk sizes would do that);
        # otherwise fresh copies, as before
        S, C = (s_in, c_in) if reuse else (tuple(_lay(s, arr) for s in s_in), tuple(_lay(c, arr) for c in c_in))
        buf = io.StringIO()
        with contextlib.redirect_stdout(buf):
            if chunk is None:           # documented default: 20 s
                return fn(S, C, **kw)
            return fn(S, C, chunk_size=int(chunk), **kw)

    def well_formed(res, chunk):
        try:
            ok = isinstance(res, dict) and sorted(res) == sorted(names) and all(
                float(v) == int(v) and int(v) >= 0 for v in res.values())
        except Exception:  # noqa - values that are not numbers
            ok = False
        return ctx.check(ok, "C20.venn_keys", lambda: f"chunk {chunk}: result {res!r} is not a dict over {names}")

    def sums(res, chunk, nchunks):
        got = [sum(int(v) for k, v in res.items() if k[s] == "1") for s in range(ns)]
        ctx.check(got == counts, "C20.venn_sum",
                  lambda: f"chunk_size {chunk} ({nchunks} chunks, bin {tb}, samples {sdt}): regions containing each sorter "
                          f"sum to {got}, the sorters have {counts} spikes; result {res}")

    chunk_one = (tmax // tb + 1) * tb          # single chunk, multiple of the bin
    chunks = [("one", chunk_one), ("mult", case["mult_a"] * tb), ("mult", case["mult_b"] * tb), ("any", case["chunk_any"])]
    if tmax >= max(1, case["ntb"] * tb // 150):
        chunks.append(("any", tmax))            # the last spike sits exactly on the boundary of the second chunk
    if case.get("default_chunk", False):
        # chunk_size left out: 20 s of samples, more than any generated train, i.e. one chunk whose bins start at sample
        # 0 like those of every chunk size that is a multiple of the bin. The function allocates one counter per bin of
        # the whole chunk and sorter: only taken where that stays below 1.5e6 bins (5e6 for one case in eight), which
        # leaves out e.g. one-sample bins at 30 kHz over 96 channel bins (460 MB per sorter)
        nbins = (20 * case["fs"] // tb + 1) * -(-case["nch"] // case["cbin"])
        if nbins <= (5_000_000 if case["seed"] % 8 == 0 else 1_500_000):
            chunks.append(("default", None))
        else:
            ctx.label("venn_default_chunk_too_large")
    if "reuse" in case:
        chunks.append(("one", chunk_one))       # once more after all the others: nothing may be left over from them
    ref = None
    for what, chunk in chunks:
        nchunks = 1 if chunk is None else tmax // chunk + 1
        if nchunks >= 2:
            ctx.nontrivial = True
            ctx.label("venn_multichunk_" + what)
        if what == "any" and chunk % tb:
            ctx.label("venn_chunk_not_multiple")
        if what == "default":
            ctx.label("venn_default_chunk")
        res = ctx.call("C20.venn", run, chunk)
        if res is ctx.CRASH:
            continue
        if not well_formed(res, chunk):
            continue
        res = {k: int(v) for k, v in res.items()}
        sums(res, chunk, nchunks)
        if what in ("one", "mult", "default"):
            if ref is None:
                ref = (chunk, res)
            else:
                ctx.check(res == ref[1], "C20.venn_chunk_invariance",
                          lambda: f"chunk sizes {ref[0]} and {chunk if chunk else 'default (20 s)'} (both multiples of the "
                                  f"bin {tb}, or a single chunk) give {ref[1]} and {res}")
            if expected is not None:
                ctx.check(res == expected, "C20.venn_regions",
                          lambda: f"at most one spike per sorter and bin: constructed regions {expected}, got {res} "
                                  f"(chunk {chunk})")
    _untouched(ctx, "C20.venn_args_modified", samples_tuple=(s_in, snap[0]), channels_tuple=(c_in, snap[1]))


# ------------------------------------------------------------------------------------------------
# stack

def _col_agg(block, agg):
    """Aggregate of a (rows, ns) float64 block over the rows, computed column by column without NumPy's nan*/axis
    machinery."""
    out = np.empty(block.shape[1])
    for j in range(block.shape[1]):
        col = [float(v) for v in block[:, j]]
        if agg in ("nanmean", "nanmedian"):
            col = [v for v in col if v == v]
        if not col:
            out[j] = np.nan
        elif agg in ("mean", "nanmean"):
            out[j] = sum(col) / len(col) if all(v == v for v in col) else np.nan
        elif agg == "sum":
            out[j] = sum(col)
        elif agg == "max":
            out[j] = np.nan if any(v != v for v in col) else max(col)
        else:  # median / nanmedian
            if any(v != v for v in col):
                out[j] = np.nan
            else:
                sc = sorted(col)
                h = len(sc) // 2
                out[j] = sc[h] if len(sc) % 2 else (sc[h - 1] + sc[h]) / 2
    return out


def _run_stack(case, ctx):
    vol = sut.voltage()
    rng = np.random.default_rng(case["seed"])
    ntr, ns, ng = case["ntr"], case["ns"], case["ng"]
    pool = {"range": np.arange(ng), "arbitrary": np.array([5, 17, 3, 1000, 42, 8, 64, 99])[:ng],
            "negative": np.array([-4, 7, -1, 0, 3, -100, 12, 2])[:ng],
            "float": np.array([0.5, -1.25, 3.0, 10.75, 2.5, -7.0, 0.0, 100.5])[:ng]}[case["labels"]]
    if case["equal_fold"]:
        idx = np.arange(ntr) % ng
    else:
        idx = np.r_[np.arange(ng), rng.integers(0, ng, ntr - ng)]
    idx = idx[rng.permutation(ntr)]
    word = pool[idx]
    agg = case["agg"]
    dt = {"f8": np.float64, "f4": np.float32, "i4": np.int32}[case["dtype"]]
    if dt is np.int32:
        agg = "sum"
        data = rng.integers(-1000, 1000, (ntr, ns)).astype(np.int32)
    else:
        data = (rng.standard_normal((ntr, ns)) * 10).astype(dt)
        if case["nans"] and agg in ("default", "nanmean", "nanmedian"):
            data[rng.random((ntr, ns)) < 0.15] = np.nan
    fcn = {"default": None, "nanmean": np.nanmean, "mean": np.mean, "sum": np.sum, "median": np.median,
           "nanmedian": np.nanmedian, "max": np.max}[agg]
    oracle_agg = "nanmean" if agg == "default" else agg
    header = None
    if case["nheader"]:
        header = {f"h{i}": rng.standard_normal(ntr) * 100 for i in range(case["nheader"])}
        if case["nheader"] >= 2:
            header["h1"] = np.arange(ntr, dtype=np.float64)
    labels = sorted(set(word.tolist()))
    folds = [int(np.sum(word == lab)) for lab in labels]
    layout, wkind, hkind = case.get("layout", "C"), case.get("word_kind", "array"), case.get("hdr_kind", "array")
    form, plan = case.get("form", "kw"), _plan(case)
    # the label vector as callers hold it: ndarray, list, read-only, a strided column, a narrow or unsigned integer type
    # (only where every label fits: the labels stay the same numbers)
    if wkind == "small_int" and word.dtype.kind == "i" and np.all(np.abs(word) < 2 ** 15):
        word_in = word.astype(np.int16)
    elif wkind == "unsigned" and word.dtype.kind == "i" and np.all(word >= 0):
        word_in = word.astype(np.uint64)
    elif wkind == "list":
        word_in = word.tolist()
    elif wkind in ("ro", "strided"):
        word_in = _lay(word, wkind)
    else:
        wkind, word_in = "array", word.copy()
    ctx.label("stack", "stack_" + oracle_agg, "stack_" + case["dtype"], "stack_labels_" + case["labels"],
              "stack_header" if header else "stack_noheader", "stack_1label" if len(labels) == 1 else "stack_multi",
              "stack_lay_" + layout, "stack_word_" + wkind, "stack_call_" + form, f"stack_rep{len(plan) - 1}")
    if len(labels) >= 2 and len(set(folds)) >= 2:
        ctx.nontrivial = True
    hdr_in = None
    if header is not None:
        ctx.label("stack_hdr_" + hkind)
        if hkind == "int":                  # integer header columns (trace numbers): the mean is taken in floating point
            header = {k: np.round(v).astype(np.int64) for k, v in header.items()}
        hdr_in = {k: (v.tolist() if hkind == "list" else _lay(v, "ro") if hkind == "ro" else v.copy())
                  for k, v in header.items()}
    din = _lay(data, layout)
    snap = (_snap(din), _snap(word_in), None if hdr_in is None else {k: _snap(v) for k, v in hdr_in.items()})

    def call(d):
        if form == "pos":
            a = [d, word_in, fcn if fcn is not None else np.nanmean] + ([hdr_in] if hdr_in is not None else [])
            return ctx.call("C20.stack", vol.stack, *a)
        kw = {}
        if fcn is not None:
            kw["fcn_agg"] = fcn
        if hdr_in is not None:
            kw["header"] = hdr_in       # the same dictionary for every call of the case (it gains a key, by design)
        return ctx.call("C20.stack", vol.stack, d, word_in, **kw)

    for tag in plan:
        if tag == "other":
            other = rng.integers(-1000, 1000, (ntr, ns)).astype(np.int32) if dt is np.int32 else (rng.standard_normal((ntr, ns)) * 10).astype(dt)
            if call(_lay(other, layout)) is ctx.CRASH:
                return
            continue
        res = call(din)
        if res is ctx.CRASH:
            return
        if not _verify_stack(case, ctx, res, tag, data, word, labels, folds, oracle_agg, dt, header):
            return
    _untouched(ctx, "C20.stack_args_modified", data=(din, snap[0]), word=(word_in, snap[1]))
    if hdr_in is not None:
        for k, v in snap[2].items():
            ctx.check(k in hdr_in and _same(hdr_in[k], v), "C20.stack_args_modified",
                      lambda: f"header column `{k}` of the caller's dictionary was modified or removed")


def _verify_stack(case, ctx, res, tag, data, word, labels, folds, oracle_agg, dt, header):
    ntr, ns = data.shape
    ok = isinstance(res, tuple) and len(res) == 2 and _is_array(res[0], (len(labels), ns)) and res[0].dtype.kind in "fiu"
    if not ctx.check(ok, _k("C20.stack_shape", tag),
                     lambda: f"stack returned {type(res).__name__}; expected (array {(len(labels), ns)}, header/fold)"):
        return False
    stk, hst = res
    exp = np.stack([_col_agg(data[word == lab].astype(np.float64), oracle_agg) for lab in labels])
    if dt is np.int32:
        good = np.array_equal(stk, exp.astype(np.int64))
        err = 0.0 if good else 1.0
    else:
        tol = 1e-12 if dt is np.float64 else 2e-5
        same_nan = np.array_equal(np.isnan(stk), np.isnan(exp))
        fin = ~np.isnan(exp)
        # naive summation of n <= 58 values errs by at most n * eps * max|v| (mean, sum / n): tolerances are relative to
        # the largest sample (times n for sums), which leaves > 100x (float64) and > 5x (float32) on that bound
        dfin = data[np.isfinite(data)]
        den = max(_maxabs(dfin) if dfin.size else 0.0, 1.0) * (ntr if oracle_agg == "sum" else 1)
        err = (_maxabs(stk[fin].astype(np.float64) - exp[fin]) / den) if (same_nan and fin.any()) else (0.0 if same_nan else np.inf)
        ctx.stat("stack_relerr_" + case["dtype"], err if np.isfinite(err) else 1.0)
        good = same_nan and err <= tol
    ctx.check(good, _k("C20.stack_aggregate", tag),
              lambda: f"{oracle_agg} per label over {len(labels)} labels (folds {folds}), data {case['dtype']} "
                      f"({case.get('layout', 'C')}), call '{tag}': rows differ from the loop aggregate (relative "
                      f"deviation {err:.3g})")
    if header is None:
        fold = hst
    else:
        if not ctx.check(isinstance(hst, dict) and "fold" in hst, _k("C20.stack_header_keys", tag),
                         "aggregated header is not a dict with a 'fold' entry"):
            return False
        fold = hst["fold"]
        for k, v in header.items():
            if not ctx.check(k in hst and np.shape(hst[k]) == (len(labels),), _k("C20.stack_header_keys", tag),
                             lambda: f"header key {k} missing or of wrong length in the aggregated header"):
                continue
            hexp = np.array([sum(float(a) for a in v[word == lab]) / f for lab, f in zip(labels, folds)])
            try:
                hgot = np.asarray(hst[k], dtype=np.float64)
            except Exception:  # noqa
                ctx.fail(_k("C20.stack_header_keys", tag), f"header key {k} is not numeric in the aggregated header")
                continue
            herr = _maxabs(hgot - hexp) / max(_maxabs(hexp), 1.0)
            ctx.stat("stack_header_relerr", herr)
            ctx.check(herr <= 1e-12, _k("C20.stack_header_mean", tag),
                      lambda: f"header {k}: per-label mean differs from the loop mean by {herr:.3g} (call '{tag}')")
    try:
        fold_ok = np.shape(fold) == (len(labels),) and [int(f) for f in np.asarray(fold)] == folds
    except Exception:  # noqa
        fold_ok = False
    ctx.check(fold_ok, _k("C20.stack_fold", tag), lambda: f"fold {np.asarray(fold).tolist()} != label counts {folds}")
    return True


# ------------------------------------------------------------------------------------------------

_RUN = {"cadzow": _run_cadzow, "traj": _run_traj, "derank": _run_derank, "svd": _run_svd, "lp": _run_lp,
        "rolling": _run_rolling, "savgol": _run_savgol, "savgol_interp": _run_interp, "venn": _run_venn,
        "stack": _run_stack}


def run_case(case, ctx):
    _RUN[case["fn"]](case, ctx)


def known_savgol_eq_window(case, f):
    """UnboundLocalError of non_uniform_savgol when len(x) == window (directly or through smooth_interpolate_savgol)."""
    return f.kind.startswith(("C20.savgol_eq_window:crash:UnboundLocalError", "C20.interp_eq_window:crash:UnboundLocalError"))


KNOWN = {"savgol_len_eq_window": known_savgol_eq_window}
