"""C16 - Saturation flags follow the proportion rule and the mute gain covers them (ibldsp.voltage.saturation)."""
import math
from statistics import NormalDist

import numpy as np
from hypothesis import strategies as st

from vp import sut
from vp.gens import weighted

ID = "C16"
LEVEL = "exploration"
RULE = ("Case = nc 1..400 x ns 1..400 x dtype f4/f8 x full-scale range (scalar python/NumPy or per-channel array; 'exact' "
        "ranges 50*j*2^e whose 98 % is a representable number, or 'real' probe-like values) x proportion built from an "
        "integer k0 ('at' = fl(k0/nc), 'between' = (k0+0.5)/nc, or a decimal such as the default 0.2) x taper width "
        "1..31 (odd; even 2..30 as a separate class) x a time plan of voltage runs and slew runs (k0-1/k0/k0+1/k0+2/all "
        "channels over, values 1 ulp (exact) or 64 eps (real) below/at/above 0.98*range, steps 64 eps below/above the "
        "slew limit, permanently 'hot' channels sitting at/below the threshold, gaps 0/1/half-width/width/random, runs "
        "touching both ends) in four regimes (slew off, voltage off, mixed with default-like range/limit ratio, "
        "Gaussian noise with counts fluctuating around k0), C-ordered or as the transpose of an (ns, nc) chunk. Bulk "
        "data from a seed. Oracle: per-sample integer channel counts over 0.98*range and over the step limit "
        "v_per_sec*fs, flagged iff a count >= k0+1 (three-valued: a count that depends on a value within 8 eps of an "
        "inexact threshold is not asserted); mute in [0,1], <=1e-9 on flags, >=1-1e-9 farther than the half width, "
        "== clip(1 - sum flags*sine window) by a direct loop (1e-9), and equal (1e-12) to the mute of a 3-channel "
        "synthetic recording with the same flags. One case in ten is end to end: a generated SpikeGLX recording (every probe "
        "generation, AP/LF) whose raw samples sit >= 2 counts below/above 98 % of the converter's maximum integer is read "
        "through spikeglx.Reader, saturation() gets Reader.range_volts as full scale, and the flags must equal the channel "
        "counts of raw samples beyond the limit. All flag patterns of length <= 10 (quick) / 13 (thorough) are "
        "enumerated through one-channel recordings (voltage- and slew-driven). Arguments and state between calls: the range "
        "comes as python float, NumPy scalar, 0-d array, float32/float64/data-dtype array or python list; data and range are "
        "read-only in a third of the cases; three cases in four call the function two or three times with the SAME data and "
        "range objects (channels parked at 97 % / 95 % of full scale, i.e. between 0.98**3 and 0.98, on more than k0 channels, "
        "so that a threshold drifting from call to call changes the flags) and demand the flags of the rule and the mute of "
        "the first call every time; data and range must hold their original values after every call; one case in three calls "
        "the function with unrelated arguments (3 channels, other taper width) first. Non-trivial = some sample whose larger "
        "count equals k0+1, or k0 >= 1 and equals k0, or a flagged run touching an end. Distinct = distinct case hash.")
EXHAUSTIVE_NOTE = ("every flag pattern of length 1..10 (quick) / 1..13 (thorough) x odd taper widths is enumerated for the "
                   "mute sub-property; voltage arrays are sampled, not enumerated")
ASSUMPTIONS = [
    "slew limit into the next sample = v_per_sec * fs volts per sample, as the default 1e-8 with fs=30 kHz (0.3 mV per "
    "sample) implies; the docstring's unit 'V/s' would make the default flag every sample",
    "a step exactly equal to the limit is not generated (the code uses >=, the statement says 'exceed')",
    "proportion is compared on integer channel counts: 'more than proportion' means count >= k0+1 where k0 is the largest "
    "count whose correctly rounded quotient k0/nc does not exceed the proportion (DESIGN.md section 7)",
    "values closer than 8 eps (of the data dtype) to a threshold whose exact value is not representable are not asserted",
    "the function is a pure function of its arguments: it keeps no state between calls and leaves the caller's data and "
    "max_voltage untouched (the docstring lists them as inputs; decompress_destripe_cbin mutes the same chunk after the call "
    "and a caller looping over chunks may hold the ranges in one array) - kinds C16.repeat_call, C16.args_modified; read-only "
    "arrays (np.memmap(mode='r') chunks) are accepted as they are on the unchanged tree",
    "a float32 range array with float64 data makes 0.98*range a single-precision product: margins of generated values and "
    "the undecided band are then 64 / 8 eps of float32",
    "even taper widths have no centre sample: 'farther than the half width' is read as 'farther than width/2', the "
    "sine-window reference is not compared (its alignment is a convention), and 'zero on every flagged sample' is "
    "asserted under its own kind C16.mute_zero_on_flag.even_width (fails on the unchanged tree: known finding "
    "even_taper_width)",
]
BUDGET = {"quick": 8000, "thorough": 150000}
SHRINK = {"quick": True, "thorough": True}
ENUM_NS = {"quick": 10, "thorough": 13}
ENUM_M = {"quick": [1, 3, 5, 7, 9], "thorough": [1, 3, 5, 7, 9, 11, 13, 31]}

TOL = 1e-9
NS_MAX = 400
EPS32 = float(np.finfo(np.float32).eps)
PARKED = {"p97": 0.97, "p95": 0.95}
GAINS = [50, 125, 250, 500, 1000, 1500, 2000, 3000]
DECIMALS = [0.2, 0.2, 0.2, 0.05, 0.1, 0.25, 0.3, 0.5, 0.75, 0.9, 0.99, 1.0 / 3.0]
FS = [30000, 2500, 30000.0, 29999.757983, 1.0]


def known_even_taper_width(case, f):
    return f.kind == "C16.mute_zero_on_flag.even_width" and case.get("M", 1) % 2 == 0


KNOWN = {"even_taper_width": known_even_taper_width}


# ------------------------------------------------------------------------------------------------------------------
# exhaustive part: flag patterns

def enum_shards(tier):
    nmax = ENUM_NS[tier]
    out = []
    for m in ENUM_M[tier]:
        for via in ("v", "d"):
            out.append({"ns_max": nmax, "M": m, "via": via})
    return out


def enum_cases(desc):
    for ns in range(1, desc["ns_max"] + 1):
        for bits in range(2 ** ns):
            if desc["via"] == "d" and (bits >> (ns - 1)) & 1:
                continue  # the last sample has no next sample: a slew-driven flag cannot sit there
            yield {"kind": "pattern", "ns": ns, "bits": bits, "M": desc["M"], "via": desc["via"]}


# ------------------------------------------------------------------------------------------------------------------
# strategies

def _st_nc():
    return st.one_of(st.integers(1, 12), st.integers(1, 400), st.sampled_from([1, 2, 5, 45, 90, 384, 385, 400]))


def _st_k0(nc, lo):
    hi = nc - 1
    if hi < lo:
        return st.just(lo)
    opts = [st.integers(lo, min(hi, lo + 3)), st.integers(lo, hi), st.just(hi)]
    k = int(round(0.2 * nc))
    if lo <= k <= hi:
        opts.append(st.just(k))
    return st.one_of(*opts)


@st.composite
def _case(draw):
    nc = draw(_st_nc())
    regime = draw(st.sampled_from(["mixed", "mixed", "slew_off", "volt_off", "noise"]))
    case = {"kind": "data", "nc": nc, "dtype": draw(st.sampled_from(["f4", "f8"])), "regime": regime,
            "seed": draw(st.integers(0, 2 ** 32 - 1))}
    # full-scale range
    case["rng_class"] = draw(st.sampled_from(["exact", "real"]))
    case["rng_form"] = draw(st.sampled_from(["pyfloat", "npscalar", "array", "array", "array64", "array_uniform",
                                             "array32", "array0d", "list"]))
    if case["rng_class"] == "exact":
        case["rng_j"] = draw(st.integers(1, 20))
        case["rng_e"] = draw(st.integers(-20, 4))
    else:
        case["rng_gain"] = draw(st.sampled_from(GAINS + [80]))
    case["fs"] = draw(st.sampled_from(FS))
    case["layout"] = draw(st.sampled_from(["C", "T"]))
    case["ratio"] = draw(st.sampled_from([3.92, 3.92, 4.0, 5.5, 8.0]))
    # proportion
    pmodes = ["between", "decimal"] + (["at", "at"] if nc >= 2 else [])
    pmode = draw(st.sampled_from(pmodes))
    case["pmode"] = pmode
    if pmode == "at":
        case["k0"] = draw(_st_k0(nc, 1))
    elif pmode == "between":
        case["k0"] = draw(_st_k0(nc, 0))
    else:
        case["p"] = draw(st.sampled_from(DECIMALS))
    # taper
    m = draw(st.one_of(st.sampled_from([1, 3, 7, 7, 31]), st.integers(0, 15).map(lambda i: 2 * i + 1),
                       st.integers(1, 15).map(lambda i: 2 * i)))
    case["M"] = m
    h = m // 2
    # calls with the same argument objects (data array, range array), read-only arguments, a call with other arguments first
    case["calls"] = draw(st.sampled_from([1, 2, 3, 3]))
    case["ro"] = draw(st.sampled_from(["", "", "", "d", "m", "dm"]))
    # 1: a call with entirely different arguments first; 2: a call on an array of the SAME shape in the other float type first
    # (the destriping loop hands over equally shaped chunks again and again: nothing of one call may survive into the next)
    case["prior"] = draw(st.sampled_from([0, 0, 1, 2]))
    if case["prior"]:
        case["prior_M"] = draw(st.sampled_from([1, 3, 5, 9, 15, 31]))
    if case["calls"] > 1:
        # channels parked at 97 % / 95 % of full scale (between 0.98**3 and 0.98): a threshold that shrinks from call to
        # call flags them, the property does not
        case["n_hot"] = draw(st.sampled_from(["0", "k0", "k0+2", "k0+2", "all", "all", "rand"]))
        case["hot_mode"] = draw(st.sampled_from(["below", "at", "p97", "p97", "p95", "p95"]))
    else:
        case["n_hot"] = draw(st.sampled_from(["0", "k0", "k0+2", "all", "rand"]))
        case["hot_mode"] = draw(st.sampled_from(["below", "at", "p97", "p95"]))
    case["noise"] = draw(st.sampled_from(["zero", "small", "small"]))
    st_gap = st.one_of(st.sampled_from(sorted({0, 1, 2, h, h + 1, max(m - 1, 0), m, m + 1, 2 * h + 1})), st.integers(0, 40))
    st_edge = st.one_of(st.just(0), st.just(0), st_gap, st.integers(0, 150))
    case["lead"] = draw(st_edge)
    case["tail"] = draw(st_edge)
    types = {"mixed": ["v", "d"], "slew_off": ["v"], "volt_off": ["d"], "noise": []}[regime]
    events = []
    if types:
        for _ in range(draw(st.integers(0, 7))):
            events.append({"t": draw(st.sampled_from(types)),
                           "n": draw(st.one_of(st.integers(1, 3), st.integers(1, 14))),
                           "dk": draw(st.sampled_from([-1, 0, 0, 1, 1, 1, 2, "all", "rand"])),
                           "off": draw(st.sampled_from(["edge", "edge", "far"])),
                           "src": draw(st.sampled_from(["hot", "cold"])),
                           "near": draw(st.booleans()),
                           "gap": draw(st_gap)})
    else:
        case["ns"] = draw(st.one_of(st.integers(1, 20), st.integers(1, NS_MAX)))
        case["lratio"] = draw(st.sampled_from([1.0, 0.9, 1.1, 1.0e3]))
    case["events"] = events
    return case


@st.composite
def _reader_case(draw):
    """End to end, as decompress_destripe_cbin uses it: the full-scale voltage comes from Reader.range_volts of a generated
    recording whose raw int16 samples sit clearly (>= 2 counts) below / above 98 % of the converter's maximum integer."""
    from vp.gens import meta as gm
    spec = draw(gm.st_spec(n_choices=(2, 3, 5, 8, 16, 40, 384), ns_range=(12, 60), patterns=("dense", "random"),
                            allow_nosync=True))   # a saved-channel subset may leave the sync word out
    nchan = spec["n"]
    k0 = draw(st.integers(0, nchan - 1))
    nev = draw(st.integers(1, 5))
    events = [{"t": draw(st.integers(0, spec["ns"] - 1)), "dk": draw(st.sampled_from([0, 1, 1, 2, "all"])),
               "sign": draw(st.sampled_from([1, -1, 0]))} for _ in range(nev)]
    return {"kind": "reader", "spec": spec, "k0": k0, "events": events, "seed": draw(st.integers(0, 2 ** 32 - 1)),
            "M": draw(st.sampled_from([1, 3, 7, 7, 9])), "hot": draw(st.booleans()),
            "calls": draw(st.sampled_from([1, 2, 3])), "hot_extra": draw(st.sampled_from([0, 1, 2, "all"])),
            "ro": draw(st.sampled_from(["", "", "d", "m", "dm"]))}


@st.composite
def _long_case(draw):
    """A chunk as long as real ones (2^16 .. 2^21 + samples, 1-3 channels) with a few saturated runs by construction, some of
    them on and next to multiples of powers of two and of ten: where any internal block or batch size would put a seam."""
    p = draw(st.sampled_from([16, 17, 18, 19, 20, 20, 21, 21]))
    ns = (1 << p) + draw(st.one_of(st.integers(-3, 3), st.integers(1, 5000), st.integers(1, 1 << p)))
    ns = min(ns, (1 << 21) + 5000)
    starts = []
    for _ in range(draw(st.integers(1, 5))):
        # a seam candidate: a multiple of a power of two within three octaves of the length, or of a power of ten; the run
        # starts on it, just before it (so that it ends on the last sample before the seam or straddles it) or just after
        q = draw(st.integers(max(10, p - 3), p))
        base = draw(st.sampled_from([1 << q, 1 << q, 10 ** draw(st.integers(4, 6)), 3 * (1 << (q - 2))]))
        starts.append(base * draw(st.integers(1, 3)) + draw(st.sampled_from([0, 0, -1, -1, 1, -2])))
    # and a run at every one of the large round numbers below the length (on it, ending just before it, straddling it, after it)
    major = [v for v in (1 << 16, 1 << 17, 1 << 18, 1 << 19, 1 << 20, 1 << 21, 10 ** 5, 10 ** 6, 2 * 10 ** 6) if v < ns - 1]
    for v in major:
        starts.append(v + draw(st.sampled_from([0, -1, -1, 1, -2])))
    for _ in range(draw(st.integers(0, 4))):
        starts.append(draw(st.integers(0, ns - 1)))
    runs = sorted({(a, draw(st.sampled_from([1, 1, 2, 3, 9]))) for a in starts if 0 <= a < ns})
    return {"kind": "long", "ns": ns, "runs": [list(r) for r in runs], "via": draw(st.sampled_from(["v", "v", "d"])),
            "M": draw(st.sampled_from([1, 3, 7, 7, 31])), "dtype": draw(st.sampled_from(["f4", "f8"])),
            "nc": draw(st.sampled_from([1, 3])), "form": draw(st.sampled_from(["default", "kw"]))}


def strategy(tier):
    return weighted((30, _case()), (3, _reader_case()), (1, _long_case()))


# ------------------------------------------------------------------------------------------------------------------
# reference pieces

def _window(m):
    """Cosine (sine) taper of m samples written from its definition: w[n] = sin(pi (n + 1/2) / m)."""
    return np.array([math.sin(math.pi * (n + 0.5) / m) for n in range(m)])


def _mute_reference(flags, m):
    """max(0, 1 - sum_j flags[j] * w[i - j + h]) by a direct loop over the flagged samples (odd m, h = (m-1)/2)."""
    ns = len(flags)
    w = _window(m)
    h = (m - 1) // 2
    acc = np.zeros(ns)
    for j in np.flatnonzero(flags):
        for n in range(m):
            i = j + n - h
            if 0 <= i < ns:
                acc[i] += w[n]
    return np.maximum(0.0, 1.0 - acc)


def _dist_to_flag(flags):
    """Distance of every sample to the nearest flagged sample (inf when there is none)."""
    ns = len(flags)
    idx = np.flatnonzero(flags)
    if idx.size == 0:
        return np.full(ns, np.inf)
    pos = np.arange(ns)
    j = np.searchsorted(idx, pos, side="right")          # number of flagged samples at or before pos
    left = np.where(j > 0, pos - idx[np.maximum(j - 1, 0)], np.inf)
    right = np.where(j < idx.size, idx[np.minimum(j, idx.size - 1)] - pos, np.inf)
    return np.minimum(left, right)


def _k0_from_p(p, nc):
    """Largest count k in 0..nc whose correctly rounded quotient k/nc does not exceed p."""
    k = min(nc, max(0, int(math.floor(p * nc)) + 2))
    while k > 0 and k / nc > p:
        k -= 1
    return k


def _canonical(flags):
    """A 3-channel float64 recording (range 1, slew disabled, proportion 0.5) that has exactly these flags."""
    ns = len(flags)
    x = np.zeros((3, ns))
    x[0, flags] = 2.0
    x[2, flags] = -1.5
    x[1, ~flags] = 0.9  # one channel over is not more than half of three
    x[1, ::2] *= -1
    return x, dict(max_voltage=1.0, v_per_sec=1e12, fs=1.0, proportion=0.5)


def _check_mute(ctx, flags, mute, m):
    """Everything the property says about the mute, relative to the flags the function returned."""
    ns = len(flags)
    if not ctx.check(isinstance(mute, np.ndarray) and mute.shape == (ns,) and mute.dtype.kind == "f" and
                     bool(np.all(np.isfinite(mute))), "C16.shape",
                     lambda: f"mute is not a finite float array of {ns} samples: {getattr(mute, 'shape', None)}"):
        return
    mute = mute.astype(float)
    lo, hi = float(mute.min()), float(mute.max())
    ctx.stat("mute_above_one", max(0.0, hi - 1.0))
    ctx.stat("mute_below_zero", max(0.0, -lo))
    ctx.check(lo >= 0.0 and hi <= 1.0 + TOL, "C16.mute_range", lambda: f"mute leaves [0,1]: min {lo!r} max {hi!r} (M={m})")
    dist = _dist_to_flag(flags)
    far = dist > m / 2.0 if m % 2 == 0 else dist > (m - 1) // 2
    if far.any():
        dev = float(np.max(np.abs(mute[far] - 1.0)))
        ctx.stat("mute_far_dev", dev)
        ctx.check(dev <= TOL, "C16.mute_one_far",
                  lambda: (f"mute is {mute[far][np.argmax(np.abs(mute[far] - 1))]!r} at sample "
                           f"{int(np.flatnonzero(far)[np.argmax(np.abs(mute[far] - 1))])}, farther than the half width "
                           f"of M={m} from every flagged sample {np.flatnonzero(flags)[:8].tolist()}"))
    if flags.any():
        on = float(np.max(mute[flags]))
        if m % 2:
            ctx.stat("mute_on_flag", on)
            ctx.check(on <= TOL, "C16.mute_zero_on_flag",
                      lambda: (f"mute is {on!r} on flagged sample "
                               f"{int(np.flatnonzero(flags)[np.argmax(mute[flags])])} (M={m}, ns={ns})"))
        else:
            # no sample of an even-length sine window equals 1 (its two centre samples are cos(pi / 2M)), so the
            # convolution does not reach 1 under an isolated flag. Own kind: registered as a known finding.
            ctx.stat("even_width_mute_on_flag", on)
            ctx.check(on <= TOL, "C16.mute_zero_on_flag.even_width",
                      lambda: (f"mute is {on!r} on flagged sample "
                               f"{int(np.flatnonzero(flags)[np.argmax(mute[flags])])} (even M={m}, ns={ns})"))
    if m % 2:
        ref = _mute_reference(flags, m)
        err = float(np.max(np.abs(mute - ref)))
        ctx.stat("mute_ref_err", err)
        ctx.check(err <= TOL, "C16.mute_reference",
                  lambda: (f"mute differs from clip(1 - flags (*) sine window) by {err:.3g} at sample "
                           f"{int(np.argmax(np.abs(mute - ref)))} (M={m}, ns={ns}, flags at "
                           f"{np.flatnonzero(flags)[:8].tolist()})"))


def _check_types(ctx, r, ns):
    ok = isinstance(r, tuple) and len(r) == 2
    if ok:
        s = r[0]
        ok = isinstance(s, np.ndarray) and s.shape == (ns,) and s.dtype == np.bool_
    return ctx.check(ok, "C16.shape", lambda: f"first return value is not a boolean array of {ns} samples: "
                                              f"{getattr(r[0], 'shape', None) if isinstance(r, tuple) else type(r)}")


def _check_depends_on_flags(ctx, sat, flags, mute, m):
    """Same flags from entirely different data must give the same mute."""
    x2, kw2 = _canonical(flags)
    r2 = ctx.call("C16.call", sat, x2, mute_window_samples=m, **kw2)
    if r2 is ctx.CRASH or not _check_types(ctx, r2, len(flags)):
        return
    f2, m2 = r2
    if not ctx.check(np.array_equal(f2, flags), "C16.flags",
                     lambda: (f"synthetic 3-channel recording: flags at {np.flatnonzero(f2)[:10].tolist()} expected "
                              f"{np.flatnonzero(flags)[:10].tolist()} (ns={len(flags)})")):
        return
    if isinstance(m2, np.ndarray) and m2.shape == np.shape(mute):
        d = float(np.max(np.abs(np.asarray(m2, float) - np.asarray(mute, float)))) if len(flags) else 0.0
        ctx.stat("mute_flags_only_dev", d)
        ctx.check(d <= 1e-12, "C16.mute_depends_on_flags",
                  lambda: f"two recordings with identical flags got mutes differing by {d:.3g} (M={m})")


# ------------------------------------------------------------------------------------------------------------------
# the caller's arguments: same objects over several calls, read-only, unchanged afterwards

def _snapshot(a):
    """Private copy of an argument the function could write to (ndarray, list); scalars are immutable."""
    if isinstance(a, np.ndarray):
        return a.copy()
    if isinstance(a, list):
        return list(a)
    return a


def _unchanged(a, a0):
    if isinstance(a0, np.ndarray):
        return a.shape == a0.shape and a.dtype == a0.dtype and bool(np.array_equal(a, a0))
    if isinstance(a0, list):
        return a == a0
    return True


def _freeze(ctx, ro, data, maxv):
    """Read-only arguments, as a np.memmap(mode='r') chunk or a cached range array are."""
    if "d" in ro:
        data.setflags(write=False)
        ctx.label("readonly_data")
    if "m" in ro and isinstance(maxv, np.ndarray):
        maxv.setflags(write=False)
        ctx.label("readonly_max_voltage")


def _check_args_intact(ctx, k, data, data0, maxv, maxv0):
    """The voltages and the full-scale range belong to the caller (the pipeline mutes `data` after the call and reuses the
    ranges for the next chunk): both must hold their original values after call number k."""
    ok = ctx.check(_unchanged(data, data0), "C16.args_modified",
                   lambda: f"the data array handed to saturation() was modified by call {k} "
                           f"({int(np.sum(data != data0)) if data.shape == data0.shape else 'all'} of {data0.size} "
                           f"values differ)")

    def how():
        a, a0 = np.asarray(maxv, dtype=float).ravel(), np.asarray(maxv0, dtype=float).ravel()
        q = a / a0 if a.shape == a0.shape and a.size else np.r_[a, np.nan]
        return (f"the max_voltage {type(maxv0).__name__} handed to saturation() was modified by call {k}: it now holds "
                f"{float(np.min(q))!r} .. {float(np.max(q))!r} times the original full-scale voltages")
    return ctx.check(_unchanged(maxv, maxv0), "C16.args_modified", how) and ok


def _repeat_calls(ctx, kind, call, ncalls, flags, mute, decided, expected, intact):
    """Calls 2..ncalls with the very same argument objects: the full-scale voltage is a constant the caller supplied, so the
    flags must again be those of the rule (and of the first call, also on samples the oracle leaves undecided) and the mute
    must be the one of the first call."""
    ns = len(flags)
    for k in range(2, ncalls + 1):
        r = ctx.call(kind, call)
        if r is ctx.CRASH or not _check_types(ctx, r, ns):
            return
        fk, mk = r
        bad = (fk != flags) | (decided & (fk != expected))
        if not ctx.check(not bad.any(), "C16.repeat_call",
                         lambda: (f"call {k} with the same argument objects: flags differ from the rule / from call 1 at "
                                  f"samples {np.flatnonzero(bad)[:8].tolist()} ({int(bad.sum())} of {ns}; call 1 flagged "
                                  f"{int(flags.sum())} samples, call {k} flags {int(fk.sum())})")):
            return
        if isinstance(mk, np.ndarray) and isinstance(mute, np.ndarray) and mk.shape == mute.shape and mk.dtype.kind == "f":
            d = float(np.max(np.abs(mk.astype(float) - mute.astype(float)))) if ns else 0.0
            ctx.stat("mute_repeat_dev", d)
            if not ctx.check(d <= 1e-12, "C16.repeat_call",
                             lambda: f"call {k} with the same argument objects: mute differs from call 1 by {d:.3g}"):
                return
        else:
            ctx.fail("C16.shape", f"call {k}: mute is {type(mk).__name__} of shape {getattr(mk, 'shape', None)}")
            return
        if not intact(k):
            return


def _prior_call(case, ctx, sat):
    """A call with entirely different arguments (3 channels, scalar range 1, other taper width) before the case's own call:
    nothing of it may leak into the next one. Its own flags are checked too."""
    rng = np.random.default_rng([int(case["seed"]), 16])
    nsp = int(rng.integers(1, 13))
    fl = rng.random(nsp) < 0.4
    pm = int(case.get("prior_M", 3))
    x2, kw2 = _canonical(fl)
    ctx.label("prior_call_other_arguments")
    r = ctx.call("C16.call", sat, x2, mute_window_samples=pm, **kw2)
    if r is ctx.CRASH or not _check_types(ctx, r, nsp):
        return False
    if not ctx.check(np.array_equal(r[0], fl), "C16.flags",
                     lambda: (f"synthetic 3-channel recording: flags at {np.flatnonzero(r[0])[:10].tolist()} expected "
                              f"{np.flatnonzero(fl)[:10].tolist()} (ns={nsp})")):
        return False
    _check_mute(ctx, r[0], r[1], pm)
    return True


# ------------------------------------------------------------------------------------------------------------------
# pattern cases (enumerated)

def _run_pattern(case, ctx):
    ns, m, via = case["ns"], case["M"], case["via"]
    flags = np.array([(case["bits"] >> i) & 1 for i in range(ns)], dtype=bool)
    sat = sut.voltage().saturation
    if via == "v":
        x = np.where(flags, -2.0, 0.5)[np.newaxis, :]
        kw = dict(max_voltage=1.0, v_per_sec=1e12, fs=1.0, proportion=0.5)
    else:
        # monotone staircase: steps of 2 exceed the limit of 1 per sample, steps of 0.25 do not
        x = np.r_[0.0, np.cumsum(np.where(flags[:-1], 2.0, 0.25))][np.newaxis, :] if ns > 1 else np.zeros((1, 1))
        kw = dict(max_voltage=1e9, v_per_sec=1.0 / 30000, fs=30000, proportion=0.5)
    ctx.label("pattern_" + via, f"pattern_M{m}")
    if flags.any() and (flags[0] or flags[-1]):
        ctx.nontrivial = True
    r = ctx.call("C16.call", sat, x, mute_window_samples=m, **kw)
    if r is ctx.CRASH or not _check_types(ctx, r, ns):
        return
    got, mute = r
    if not ctx.check(np.array_equal(got, flags), "C16.flags",
                     lambda: f"one-channel recording ({via}): flags {got.astype(int).tolist()} expected {flags.astype(int).tolist()}"):
        return
    _check_mute(ctx, got, mute, m)
    if via == "v":
        _check_depends_on_flags(ctx, sat, got, mute, m)


# ------------------------------------------------------------------------------------------------------------------
# data cases

def _ranges(case, rng, nc, npdt):
    """Per-channel full-scale range (float64 values representable in the data dtype) and the exact flag."""
    form = case["rng_form"]
    per_channel = form in ("array", "array64", "array32", "list") and nc > 1
    if case["rng_class"] == "exact":
        j, e = case["rng_j"], case["rng_e"]
        if per_channel:
            jj = rng.integers(1, 21, nc)
            ee = e + rng.integers(0, 2, nc)
            jj[0], ee[0] = j, e
        else:
            jj, ee = np.full(nc, j), np.full(nc, e)
        r = 50.0 * jj * 2.0 ** ee
        t = 49.0 * jj * 2.0 ** ee
        return r, t, True
    g = case["rng_gain"]
    if per_channel:
        gg = rng.choice(GAINS, nc)
        gg[0] = g if g in GAINS else 500
        r = 0.6 / gg
    else:
        r = np.full(nc, 0.5 / 80 if g == 80 else 0.6 / g)
    r = r.astype(np.float32).astype(float)  # what Reader.range_volts holds
    return r, r * 0.98, False


def _maxv_arg(case, r, npdt):
    """The max_voltage argument in the drawn form: python float, NumPy scalar, array of nc values."""
    form = case["rng_form"]
    uniform = bool(np.all(r == r[0]))
    if form == "pyfloat" and uniform:
        return float(r[0])
    if form == "npscalar" and uniform:
        return npdt(r[0])
    if form == "array64":
        return r.astype(float)
    if form == "array32":
        return r.astype(np.float32)  # what Reader.range_volts holds, whatever the dtype of the data
    if form == "array0d" and uniform:
        return np.array(r[0], dtype=npdt)
    if form == "list":
        return [float(v) for v in r]
    return r.astype(npdt)


def _build(case):
    """Regenerate the recording of a case: data (nc, ns) in its dtype, call arguments, thresholds."""
    rng = np.random.default_rng(case["seed"])
    nc = case["nc"]
    npdt = np.float32 if case["dtype"] == "f4" else np.float64
    eps = float(np.finfo(npdt).eps)
    if case["rng_form"] == "array32":
        eps = max(eps, EPS32)  # 0.98 * range is then computed in single precision: margins and bands in its eps
    delta = 64 * eps
    r, T, exact = _ranges(case, rng, nc, npdt)
    regime = case["regime"]
    Tmin, Tmax = float(T.min()), float(T.max())
    fs = case["fs"]
    # proportion
    if case["pmode"] == "at":
        k0 = max(1, min(case["k0"], nc - 1))
        p = k0 / nc
    elif case["pmode"] == "between":
        k0 = min(case["k0"], nc - 1)
        p = (k0 + 0.5) / nc
    else:
        p = case["p"]
        k0 = _k0_from_p(p, nc)
    # step limit
    if regime == "slew_off":
        L = 1e4 * Tmax
    elif regime == "volt_off":
        L = Tmin / 1000.0
    elif regime == "noise":
        L = math.sqrt(2.0) * float(np.median(T)) * case.get("lratio", 1.0)
    else:
        L = Tmin / case["ratio"]
    v_per_sec = L / fs
    L = v_per_sec * float(fs)  # the limit the arguments express
    out = dict(r=r, T=T, exact=exact, L=L, v_per_sec=v_per_sec, k0=k0, p=p, eps=eps, nhot=0)

    if regime == "noise":
        ns = case["ns"]
        pp = min(max(p, 0.5 / nc), 1 - 0.5 / nc)
        z = NormalDist().inv_cdf(1 - pp / 2)
        x = rng.standard_normal((nc, ns)) * (T / max(z, 0.05))[:, None]
        out["x"] = x.astype(npdt)
        return out

    ev = case["events"]
    ns = case["lead"] + sum(e["n"] + (1 if e["t"] == "d" else 0) + e["gap"] for e in ev) + case["tail"]
    ns = max(1, ns)
    # channel roles: 'hot' channels sit permanently at / just below their threshold, 'cold' ones near zero
    code = case["n_hot"]
    if regime == "volt_off":
        nhot = 0
    else:
        nhot = {"0": 0, "k0": k0, "k0+2": k0 + 2, "all": nc}.get(code)
        if nhot is None:
            nhot = int(rng.integers(0, nc + 1))
        nhot = min(nhot, nc)
    perm = rng.permutation(nc)
    hot, cold = perm[:nhot], perm[nhot:]
    is_hot = np.zeros(nc, bool)
    is_hot[hot] = True
    sgn = rng.choice([-1.0, 1.0], nc)
    Td = T.astype(npdt)
    if exact:
        v_below = T.copy() if case["hot_mode"] == "at" else np.nextafter(Td, npdt(0)).astype(float)
        v_edge = np.nextafter(Td, npdt(np.inf)).astype(float)
    else:
        v_below = T * (1 - delta)
        v_edge = T * (1 + delta)
    if case["hot_mode"] in PARKED:
        v_below = r * PARKED[case["hot_mode"]]

    amp = 0.1 * min(L, Tmin)
    lev = np.zeros(nc)
    if case["noise"] != "zero":
        lev[cold] = rng.uniform(-amp, amp, cold.size)
    noisy = np.ones(ns, bool)
    over = np.zeros((nc, ns), bool)   # value overridden by a voltage event
    xv = np.zeros((nc, ns))
    levels = np.zeros((nc, ns))
    s = case["lead"]
    levels[:, :min(s, ns)] = lev[:, None]
    for e in ev:
        if s >= ns:
            break
        n = e["n"]
        dk = e["dk"]
        k = nc if dk == "all" else (int(rng.integers(0, nc + 1)) if dk == "rand" else min(nc, max(0, k0 + dk)))
        if e["t"] == "v":
            a, b = s, min(ns, s + n)
            first, second = (hot, cold) if e["src"] == "hot" else (cold, hot)
            order = np.r_[rng.permutation(first), rng.permutation(second)].astype(int)
            chosen, rest = order[:k], order[k:]
            val = v_edge[chosen].copy()
            if e["off"] == "far":
                farv = T[chosen] * (1.2 + 1.8 * rng.random(chosen.size))
                keep_edge = is_hot[chosen] & (regime == "mixed")  # a hot channel moves by a few ulp only: no slew event
                val = np.where(keep_edge, val, farv)
            xv[chosen, a:b] = (sgn[chosen] * val)[:, None]
            over[chosen, a:b] = True
            if e["near"] and regime == "slew_off":
                xv[rest, a:b] = (sgn[rest] * v_below[rest])[:, None]
                over[rest, a:b] = True
            levels[:, a:b] = lev[:, None]
            s = b + e["gap"]
            levels[:, b:min(ns, s)] = lev[:, None]
        else:
            # n transitions a -> a+1 -> ...; samples a .. a+n belong to the event, no time-varying noise on them
            a, b = s, min(ns, s + n + 1)
            k = min(k, cold.size)
            noisy[a:b] = False
            levels[:, a] = lev
            for i in range(a + 1, b):
                order = rng.permutation(cold)
                step = np.zeros(cold.size)
                if e["off"] == "edge":
                    step[:k] = L * (1 + delta)
                else:
                    step[:k] = L * (1.25 + 0.25 * rng.random(k))
                if e["near"]:
                    step[k:] = L * (1 - delta)
                cur = lev[order]
                d = np.where(np.abs(cur) > 0.25 * L, -np.sign(cur), rng.choice([-1.0, 1.0], cold.size))
                lev[order] = cur + d * step
                levels[:, i] = lev
            s = b + e["gap"]
            levels[:, b:min(ns, s)] = lev[:, None]
    if s < ns:
        levels[:, s:] = lev[:, None]
    x = levels
    if case["noise"] != "zero" and cold.size:
        x[cold] += rng.uniform(-0.2 * amp, 0.2 * amp, (cold.size, ns)) * noisy[None, :]
    x[hot, :] = (sgn[hot] * v_below[hot])[:, None]
    x[over] = xv[over]
    x = x[:, :NS_MAX]
    out["x"] = x.astype(npdt)
    out["nhot"] = int(nhot)
    return out


def _runs(flags):
    """(start, stop) of every run of True."""
    f = np.r_[False, flags, False].astype(np.int8)
    d = np.diff(f)
    return list(zip(np.flatnonzero(d == 1).tolist(), np.flatnonzero(d == -1).tolist()))


def _run_data(case, ctx):
    b = _build(case)
    x, T, L, k0, p = b["x"], b["T"], b["L"], b["k0"], b["p"]
    nc, ns = x.shape
    m = case["M"]
    npdt = x.dtype.type
    band = 8 * b["eps"]
    # --- oracle: integer channel counts (lower bound: certainly over, upper bound: possibly over)
    ax = np.abs(x.astype(float))
    Tc = T[:, None]
    eps = b["eps"]
    n_band = 0
    if b["exact"]:
        cv_lo = cv_hi = np.sum(ax > Tc, axis=0)
    else:
        cv_lo = np.sum(ax > Tc * (1 + band), axis=0)
        cv_hi = np.sum(ax > Tc * (1 - band), axis=0)
        n_band += int(np.sum(cv_hi - cv_lo))
        rel = np.abs(ax / Tc - 1)
        rel = rel[(rel > band) & (rel < 0.5)]
        if rel.size:  # how close (in eps of the data dtype) an asserted value comes to the inexact threshold
            ctx.stat("min_value_distance_to_threshold_eps_" + case["dtype"], float(rel.min() / eps))
    if ns > 1:
        x64 = x.astype(float)
        steps = np.abs(x64[:, 1:] - x64[:, :-1])
        cd_lo = np.r_[np.sum(steps > L * (1 + band), axis=0), 0]
        cd_hi = np.r_[np.sum(steps > L * (1 - band), axis=0), 0]
        n_band += int(np.sum(cd_hi - cd_lo))
        rel = np.abs(steps / L - 1)
        rel = rel[(rel > band) & (rel < 0.5)]
        if rel.size:
            ctx.stat("min_step_distance_to_limit_eps_" + case["dtype"], float(rel.min() / eps))
    else:
        cd_lo = cd_hi = np.zeros(1, int)
    ctx.stat("values_inside_band_per_case", n_band)
    need = k0 + 1
    exp_true = (cv_lo >= need) | (cd_lo >= need)
    exp_false = (cv_hi < need) & (cd_hi < need)
    decided = exp_true | exp_false
    top = np.maximum(cv_lo, cd_lo)

    # --- classes
    ctx.label("regime_" + case["regime"], "dtype_" + case["dtype"], "range_" + case["rng_class"],
              "maxv_" + case["rng_form"], "p_" + case["pmode"], "M_odd" if m % 2 else "M_even",
              "nc1" if nc == 1 else ("nc<=12" if nc <= 12 else "nc>12"),
              "ns1" if ns == 1 else ("ns<=20" if ns <= 20 else "ns>20"))
    if np.unique(b["r"]).size > 1:
        ctx.label("per_channel_ranges_differ")
    if b["nhot"]:
        hm = case.get("hot_mode")
        ctx.label("hot_channels_" + (hm if hm in PARKED else ("at" if b["exact"] and hm == "at" else "below")))
    if not decided.all():
        ctx.label("has_undecided_sample")
    vt = decided & (cv_lo == k0) & (cd_hi <= k0) & (k0 >= 1)
    vt1 = decided & (cv_lo == need) & (cd_hi <= k0)
    dt = decided & (cd_lo == k0) & (cv_hi <= k0) & (k0 >= 1)
    dt1 = decided & (cd_lo == need) & (cv_hi <= k0)
    both = decided & (cv_lo == k0) & (cd_lo == k0) & (k0 >= 1)
    for name, arr in (("volt_count=k0", vt), ("volt_count=k0+1", vt1), ("slew_count=k0", dt), ("slew_count=k0+1", dt1),
                      ("both_counts=k0", both), ("volt_only_flag", exp_true & (cd_hi < need)),
                      ("slew_only_flag", exp_true & (cv_hi < need))):
        if arr.any():
            ctx.label(name)
    runs = _runs(exp_true)
    h = m // 2
    if not runs:
        ctx.label("no_flag")
    else:
        if runs[0][0] == 0:
            ctx.label("run_at_start")
        if runs[-1][1] == ns:
            ctx.label("run_at_end")
        if len(runs) == 1 and runs[0] == (0, ns):
            ctx.label("all_flagged")
        gaps = [runs[i + 1][0] - runs[i][1] for i in range(len(runs) - 1)]
        if any(g <= 2 * h for g in gaps):
            ctx.label("tapers_overlap")
        if any(g == 1 for g in gaps):
            ctx.label("runs_one_apart")
        if any(g > 2 * h for g in gaps):
            ctx.label("runs_isolated")
    if (top == need).any() or (k0 >= 1 and (top == k0).any()) or (runs and (runs[0][0] == 0 or runs[-1][1] == ns)):
        ctx.nontrivial = True

    # --- call
    sat = sut.voltage().saturation
    maxv = _maxv_arg(case, b["r"], npdt)
    if case.get("layout") == "T":
        x = np.ascontiguousarray(x.T).T  # what the destriping pipeline passes: the transpose of a (ns, nc) chunk
        ctx.label("transposed_view")
    ncalls = case.get("calls", 1)
    ctx.label(f"calls_{ncalls}")
    if ncalls > 1:
        # which of the repeated calls would flag a sample the property leaves alone if the threshold shrank by 2 % per call
        for k in range(2, ncalls + 1):
            if (exp_false & (np.sum(ax > Tc * (0.98 ** (k - 1) * (1 + band)), axis=0) >= need)).any():
                ctx.label(f"call_{k}_sees_channels_between_{0.98 ** k:.3f}_and_0.98_of_range")
    if case.get("prior") == 2:
        other = np.float32 if x.dtype == np.float64 else np.float64
        xp = (np.random.default_rng([int(case["seed"]), 1616]).uniform(-0.1, 0.1, x.shape)).astype(other)
        ctx.label("prior_call_same_shape_other_dtype")
        rp = ctx.call("C16.call", sat, xp, 1.0, v_per_sec=1e12, fs=1.0, proportion=0.5, mute_window_samples=m)
        if rp is ctx.CRASH or not _check_types(ctx, rp, ns):
            return
        ctx.check(not rp[0].any(), "C16.flags", "a quiet recording (|x| <= 0.1 of full scale, slew limit off) has flagged samples")
    elif case.get("prior"):
        if not _prior_call(case, ctx, sat):
            return
    x0, maxv0 = _snapshot(x), _snapshot(maxv)
    _freeze(ctx, case.get("ro", ""), x, maxv)

    def call():
        return sat(x, maxv, v_per_sec=b["v_per_sec"], fs=case["fs"], proportion=p, mute_window_samples=m)

    def intact(k):
        return _check_args_intact(ctx, k, x, x0, maxv, maxv0)

    r = ctx.call("C16.call", call)
    if r is ctx.CRASH:
        return
    ok = intact(1)
    if not _check_types(ctx, r, ns):
        return
    flags, mute = r
    bad = decided & (flags != exp_true)
    if bad.any():
        i = int(np.flatnonzero(bad)[0])
        ctx.fail("C16.flags", f"sample {i} of {ns}: flagged={bool(flags[i])} but {int(cv_lo[i])} of {nc} channels exceed "
                              f"0.98*range and {int(cd_lo[i])} exceed the step limit into the next sample; proportion "
                              f"{p!r} ({case['pmode']}) means more than {k0} channels; {int(bad.sum())} samples differ")
    _check_mute(ctx, flags, mute, m)
    _check_depends_on_flags(ctx, sat, flags, mute, m)
    if ok and not bad.any():
        _repeat_calls(ctx, "C16.call", call, ncalls, flags, mute, decided, exp_true, intact)


def _run_reader(case, ctx):
    from vp.gens import meta as gm, recording as rec
    spec = case["spec"]
    nc, ns, nchan = gm.n_channels(spec), spec["ns"], spec["n"]
    nsync = nc - nchan
    # maximum integer of the converter, read off the generator's parameters (SpikeGLX: imMaxInt, default 512 for NP1)
    maxint = spec.get("maxint") or (512 if spec["gen"] not in ("NP2.1", "NP2.4") else 8192)
    thr = 0.98 * maxint
    over, under = int(math.ceil(thr)) + 2, int(math.floor(thr)) - 2
    rng = np.random.default_rng(case["seed"])
    D = rng.integers(-under // 2, under // 2 + 1, size=(ns, nc)).astype(np.int16)
    k0 = case["k0"]
    if case["hot"]:
        # k0 channels sit just below the limit all the time (hot_extra more of them in the cases that call twice: 97.5 % of
        # full scale stays unflagged however often the function is called)
        extra = case.get("hot_extra", 0)
        nhot = nchan if extra == "all" else min(nchan, k0 + extra)
        D[:, rng.permutation(nchan)[:nhot]] = under
        if nhot > k0:
            ctx.label("reader_more_than_k0_channels_just_below")
    counts = np.zeros(ns, dtype=int)
    for ev in case["events"]:
        k = nchan if ev["dk"] == "all" else min(nchan, k0 + ev["dk"])
        chans = rng.permutation(nchan)[:k]
        sign = ev["sign"] or rng.choice([-1, 1], size=k)
        D[ev["t"], :nchan] = np.minimum(np.abs(D[ev["t"], :nchan]), under)
        D[ev["t"], chans] = over * sign
    counts = (np.abs(D[:, :nchan].astype(np.int64)) > thr).sum(axis=1)
    exp_flags = counts >= k0 + 1
    p = (k0 + 0.5) / nchan
    ctx.label("reader", "reader_" + spec["gen"], "reader_" + spec["stream"], f"reader_maxint{maxint}",
              "reader_sync_saved" if nsync else "reader_no_sync_channel")
    if np.any(counts == k0 + 1) or (k0 >= 1 and np.any(counts == k0)):
        ctx.nontrivial = True
    sg, vo = sut.spikeglx(), sut.voltage()
    with rec.scratch_dir(ctx) as d:
        binf = rec.write_recording(d, spec, D)
        sr = ctx.call("C16.reader.open", sg.Reader, binf, sort=False)
        if sr is ctx.CRASH:
            return
        try:
            rv = ctx.call("C16.reader.range_volts", lambda: np.asarray(sr.range_volts))
            data = ctx.call("C16.reader.read", lambda: sr[:, :nchan].T)
            s2v = ctx.call("C16.reader.read", lambda: np.asarray(sr.sample2volts))
        finally:
            try:
                sr.close()
            except Exception:  # noqa
                pass
    if rv is ctx.CRASH or data is ctx.CRASH or s2v is ctx.CRASH:
        return
    if not ctx.check(np.shape(rv) == (nc,) and np.shape(s2v) == (nc,), "C16.reader.range_shape",
                     lambda: f"range_volts has shape {np.shape(rv)} for {nc} channels"):
        return
    # full scale == volts of the maximum integer, channel by channel (float32 tolerance)
    ctx.check(np.allclose(rv[:nchan], s2v[:nchan] * maxint, rtol=1e-6, atol=0), "C16.reader.full_scale",
              lambda: f"range_volts {rv[:3]} is not volts-per-bit x {maxint} {s2v[:3] * maxint}")
    # flags far above any step of this data: the slew criterion is switched off
    if not ctx.check(isinstance(data, np.ndarray) and data.shape == (nchan, ns), "C16.shape",
                     lambda: f"Reader returned {type(data).__name__} of shape {np.shape(data)} for {ns} x {nchan} samples"):
        return
    ncalls = case.get("calls", 1)
    ctx.label(f"reader_calls_{ncalls}")
    data0, rv0 = _snapshot(data), _snapshot(rv)
    ro = case.get("ro", "")
    if "d" in ro and data.flags.writeable:
        data.setflags(write=False)
    if "m" in ro and rv.flags.writeable:
        rv.setflags(write=False)
    if ro:
        ctx.label("reader_readonly_" + ro)
    rvc = rv[:nchan]  # a view of the array the caller holds (inherits its write flag), as in decompress_destripe_cbin

    def call():
        return vo.saturation(data, max_voltage=rvc, v_per_sec=1e9, fs=spec["fs"], proportion=p,
                             mute_window_samples=case["M"])

    def intact(k):
        return _check_args_intact(ctx, k, data, data0, rv, rv0)

    r = ctx.call("C16.saturation", call)
    if r is ctx.CRASH:
        return
    ok = intact(1)
    if not _check_types(ctx, r, ns):
        return
    sat, mute = np.asarray(r[0]).astype(bool), np.asarray(r[1], dtype=float)
    bad = sat != exp_flags
    ctx.check(not bad.any(), "C16.reader.flags",
              lambda: f"{spec['gen']} {spec['stream']} maxint {maxint}: flags from Reader.range_volts differ from the count of raw samples "
                      f"beyond 98 % of {maxint} at samples {np.where(bad)[0][:5].tolist()} (counts {counts[bad][:5].tolist()}, k0={k0})")
    if not bad.any():
        _check_mute(ctx, exp_flags, mute, case["M"])
        if ok:
            _repeat_calls(ctx, "C16.saturation", call, ncalls, r[0], r[1], np.ones(ns, bool), exp_flags, intact)


def _run_long(case, ctx):
    ns, m, via, nc = case["ns"], case["M"], case["via"], case["nc"]
    npdt = np.float32 if case["dtype"] == "f4" else np.float64
    flags = np.zeros(ns, dtype=bool)
    for a, n in case["runs"]:
        flags[a:a + n] = True
    sat = sut.voltage().saturation
    if via == "v":
        if nc == 3:
            x, kw = _canonical(flags)
            x = x.astype(npdt)
        else:
            x = np.where(flags, npdt(-2.0), npdt(0.5))[np.newaxis, :].astype(npdt)
            kw = dict(max_voltage=1.0, v_per_sec=1e12, fs=1.0, proportion=0.5)
    else:
        # staircase: a step of 2 into the next sample exceeds the limit of 1 per sample, a step of 2^-8 does not; the slew
        # flag belongs to the sample the step starts from, and the last sample has no next one
        flags[-1] = False
        inc = np.where(flags[:-1], 2.0, 2.0 ** -8)
        inc[1::2] *= -1         # up and down: the levels stay small enough for float32 to hold every one exactly
        x = np.r_[0.0, np.cumsum(inc)][np.newaxis, :]
        if nc == 3:
            x = np.vstack([x, -x, np.zeros_like(x)])
        x = x.astype(npdt)
        kw = dict(max_voltage=1e9, v_per_sec=1.0 / 30000, fs=30000, proportion=0.5)
    ctx.label("long", "long_" + via, "long_2^%d" % int(np.log2(ns)), "long_nc%d" % nc, "long_" + case["dtype"])
    st_ = np.array([a for a, _ in case["runs"]], dtype=np.int64)
    if st_.size and (np.any((st_ & (st_ - 1)) == 0) or np.any(st_ % 10000 == 0)):
        ctx.label("long_run_on_round_sample")
    ctx.nontrivial = bool(flags.any())
    x0 = x.copy()
    if case["form"] == "default" and m == 7:
        r = ctx.call("C16.call", sat, x, **kw)     # mute_window_samples defaults to 7
    else:
        r = ctx.call("C16.call", sat, x, mute_window_samples=m, **kw)
    if r is ctx.CRASH or not _check_types(ctx, r, ns):
        return
    got, mute = r
    ctx.check(np.array_equal(x, x0), "C16.args_modified", "the long data array handed to saturation() was modified")
    if not ctx.check(np.array_equal(got, flags), "C16.flags",
                     lambda: (f"{nc}-channel recording of {ns} samples ({via}): flags at "
                              f"{np.flatnonzero(got)[:12].tolist()} expected {np.flatnonzero(flags)[:12].tolist()}")):
        return
    _check_mute(ctx, got, mute, m)


def run_case(case, ctx):
    if case.get("kind") == "pattern":
        _run_pattern(case, ctx)
    elif case.get("kind") == "long":
        _run_long(case, ctx)
    elif case.get("kind") == "reader":
        _run_reader(case, ctx)
    else:
        _run_data(case, ctx)
