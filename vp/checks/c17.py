"""C17 - Sliding windows cover, overlap, partition and splice exactly."""
import itertools

import numpy as np
from hypothesis import strategies as st

from vp import sut

ID = "C17"
LEVEL = "exploration"
RULE = ("Cases are (ns, nswin, overlap, fs) with 0 <= overlap < nswin. The box ns<=NS x nswin<=NW x every overlap is "
        "enumerated exhaustively (quick 160x32, thorough 600x80) and Hypothesis adds random large triples built by "
        "construction (window count <= 300, ns up to ~1e7). Oracle: windows recomputed from the definition (stride "
        "nswin-overlap, clip, stop at end) plus validity predicates: cover without gap, consecutive overlap == "
        "requested, nwin == count, iw == running index, tscale == centre/fs, valid sub-windows partition [0,ns) "
        "(even overlaps), splicing amplitudes sum to 1 +-1e-12 (overlap <= nswin/2). Non-trivial = (>=2 windows and "
        "last window shorter than 2*overlap) or (overlap 0 with >=2 windows) or ns <= nswin. Distinct = distinct triple.")
EXHAUSTIVE_NOTE = "box ns x nswin x overlap enumerated completely (see rule); random triples beyond the box are sampled"
ASSUMPTIONS = ["splicing sums are evaluated on arrays only for ns <= 200000; larger random cases check intervals only"]
BUDGET = {"quick": 10000, "thorough": 400000}
BOX = {"quick": (160, 32), "thorough": (600, 80)}


def enum_shards(tier):
    nsmax, nwmax = BOX[tier]
    # 32 shards with balanced work: interleave window sizes
    n = 32
    return [{"ns_max": nsmax, "nswins": list(range(1 + i, nwmax + 1, n))} for i in range(n) if 1 + i <= nwmax]


def enum_cases(desc):
    for nswin in desc["nswins"]:
        for ov in range(nswin):
            for ns in range(1, desc["ns_max"] + 1):
                yield {"ns": ns, "nswin": nswin, "overlap": ov, "fs": 30000.0}


@st.composite
def _case(draw):
    nswin = draw(st.one_of(st.integers(1, 200), st.integers(1, 10 ** 6)))
    kind = draw(st.sampled_from(["any", "zero", "half", "small", "max"]))
    if kind == "zero":
        ov = 0
    elif kind == "half":
        ov = nswin // 2
    elif kind == "small":
        ov = draw(st.integers(0, max(0, nswin // 2)))
    elif kind == "max":
        ov = nswin - 1
    else:
        ov = draw(st.integers(0, nswin - 1))
    if draw(st.booleans()):
        ov -= ov % 2
    stride = nswin - ov
    k = draw(st.integers(0, 300))
    if k == 0:
        ns = draw(st.integers(1, nswin))
    else:
        rem = draw(st.one_of(st.integers(1, stride), st.integers(1, max(1, min(stride, 2 * ov + 2)))))
        rem = min(rem, stride)
        ns = nswin + (k - 1) * stride + rem
    if ns > 2 * 10 ** 7:
        ns = 2 * 10 ** 7
    fs = draw(st.sampled_from([1.0, 2500.0, 30000.0, 29999.757983]))
    return {"ns": ns, "nswin": nswin, "overlap": ov, "fs": fs}


def strategy(tier):
    return _case()


def _reference(ns, nswin, ov):
    out = []
    first = 0
    while True:
        last = min(first + nswin, ns)
        out.append((first, last))
        if last == ns:
            return out
        first += nswin - ov


def run_case(case, ctx):
    ns, nswin, ov, fs = case["ns"], case["nswin"], case["overlap"], case["fs"]
    WG = sut.utils().WindowGenerator
    ref = _reference(ns, nswin, ov)
    nref = len(ref)
    last_len = ref[-1][1] - ref[-1][0]
    if (nref >= 2 and last_len < 2 * ov) or (ov == 0 and nref >= 2) or ns <= nswin:
        ctx.nontrivial = True
    ctx.label("ns<=nswin" if ns <= nswin else ("1win" if nref == 1 else "multi"),
              "ov0" if ov == 0 else ("ov<=half" if 2 * ov <= nswin else "ov>half"),
              "ov_even" if ov % 2 == 0 else "ov_odd")
    if nref >= 2 and last_len < 2 * ov:
        ctx.label("short_last")
    if ns <= ov:
        ctx.label("ns<=overlap")

    wg = ctx.call("C17.construct", WG, ns, nswin, ov)
    if wg is ctx.CRASH:
        return

    cap = nref + 2  # every generator is consumed up to two items beyond the reference count: one that never stops is
    #                 reported as a wrong window list instead of exhausting the memory

    def _iter_with_iw():
        out = []
        for fl in itertools.islice(wg.firstlast, cap):
            out.append((int(fl[0]), int(fl[1]), wg.iw))
        return out
    got = ctx.call("C17.firstlast", _iter_with_iw)
    if got is ctx.CRASH:
        return
    fl = [(a, b) for a, b, _ in got]
    if not ctx.check(fl == ref, "C17.windows", lambda: f"windows {fl[:4]}..{fl[-2:]} != reference {ref[:4]}..{ref[-2:]}"):
        if not fl:
            return
    # validity predicates stated independently of the reference
    ok = fl[0][0] == 0 and fl[-1][1] == ns
    for i in range(len(fl) - 1):
        ok = ok and (fl[i][1] - fl[i + 1][0] == ov) and fl[i + 1][0] > fl[i][0] and fl[i][1] - fl[i][0] == nswin
    ok = ok and 0 < fl[-1][1] - fl[-1][0] <= nswin
    ctx.check(ok, "C17.cover_overlap", lambda: f"cover/overlap predicate fails for {fl[:5]}")
    nwin = ctx.call("C17.nwin", lambda: wg.nwin)
    if nwin is not ctx.CRASH:
        ctx.check(nwin == len(fl), "C17.nwin", lambda: f"nwin={nwin} but {len(fl)} windows produced")
    ctx.check([g[2] for g in got] == list(range(len(got))), "C17.iw", "iw is not the running window index")
    sl = ctx.call("C17.slice", lambda: list(itertools.islice(wg.slice, cap)))
    if sl is not ctx.CRASH:
        ctx.check(sl == [slice(a, b) for a, b in ref], "C17.slice", "slices differ from windows")
    ts = ctx.call("C17.tscale", wg.tscale, fs)
    if ts is not ctx.CRASH:
        exp = np.array([((a + b - 1) / 2) / fs for a, b in ref])
        ctx.check(np.shape(ts) == exp.shape and np.allclose(ts, exp, rtol=1e-12, atol=0),
                  "C17.tscale", "tscale is not the centre of each window")
    if ns <= 2000:
        sig = np.arange(ns) * 3 + 1
        sa = ctx.call("C17.slice_array", lambda: [np.array(a) for a in itertools.islice(wg.slice_array(sig), cap)])
        if sa is not ctx.CRASH:
            ctx.check(len(sa) == nref and all(np.array_equal(x, sig[a:b]) for x, (a, b) in zip(sa, ref)),
                      "C17.slice_array", "slice_array differs from sig[first:last]")
    # valid sub windows: every sample exactly once
    if ov % 2 == 0:
        v = ctx.call("C17.valid", lambda: [tuple(int(x) for x in t) for t in itertools.islice(wg.firstlast_valid, cap)])
        if v is not ctx.CRASH:
            okv = len(v) == nref and all(len(t) == 4 for t in v) and all((a, b) == r for (a, b, _, _), r in zip(v, ref))
            if okv:
                pos = 0
                for (a, b, fv, lv) in v:
                    okv = okv and fv == pos and a <= fv < lv <= b
                    pos = lv
                okv = okv and pos == ns
            ctx.check(okv, "C17.valid_partition", lambda: f"valid sub-windows do not partition [0,{ns}): {v[:4]}..{v[-2:]}")
    # splicing
    if 2 * ov <= nswin and ns <= 200000:
        def _splice():
            tot = np.zeros(ns)
            n = 0
            bad = None
            for first, last, amp in itertools.islice(wg.firstlast_splicing, cap):
                if n >= nref or (int(first), int(last)) != ref[n] or np.shape(amp) != (last - first,):
                    bad = (n, int(first), int(last), np.shape(amp))
                    break
                tot[first:last] += amp
                n += 1
            return tot, n, bad
        r = ctx.call("C17.splice", _splice)
        if r is not ctx.CRASH:
            tot, n, bad = r
            if ctx.check(bad is None and n == nref, "C17.splice_windows", lambda: f"splicing windows wrong: {bad} n={n}"):
                err = float(np.max(np.abs(tot - 1)))
                ctx.stat("splice_sum_err", err)
                ctx.check(err <= 1e-12, "C17.splice_sum", lambda: f"splicing amplitudes sum deviates from 1 by {err:.3g}")
