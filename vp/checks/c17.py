"""C17 - Sliding windows cover, overlap, partition and splice exactly."""
import itertools

import numpy as np
from hypothesis import strategies as st

from vp import sut

ID = "C17"
LEVEL = "exploration"
RULE = ("Cases are (ns, nswin, overlap, fs) with 0 <= overlap < nswin. The box ns<=NS x nswin<=NW x every overlap is "
        "enumerated exhaustively (quick 160x32, thorough 600x80) and Hypothesis adds random large triples built by "
        "construction (window count <= 300, ns up to ~1e7). Oracle: windows recomputed from the definition (stride "
        "nswin-overlap, clip, stop at end) plus validity predicates: cover without gap, consecutive overlap == "
        "requested, nwin == count, iw == running index, tscale == centre/fs, valid sub-windows partition [0,ns) "
        "(even overlaps), splicing amplitudes sum to 1 +-1e-12 (overlap <= nswin/2). Non-trivial = (>=2 windows and "
        "last window shorter than 2*overlap) or (overlap 0 with >=2 windows) or ns <= nswin. Distinct = distinct case (triple, fs and the drawn reuse choices). "
        "Object reuse: on ONE further WindowGenerator object the views are used the way a caller may - zip() of two or "
        "three views alive at once, loops over a view nested in a loop over firstlast, nwin/tscale(fs) read inside a "
        "firstlast loop, a view consumed twice in a row, a view abandoned half-way, a fresh iteration, then the "
        "abandoned generator resumed; every generator must yield exactly the reference windows (and valid "
        "partition / splicing sum / tscale / nwin as above); iw must be the running index whenever a single "
        "generator advances (it is only recorded, not asserted, while several generators are interleaved: the "
        "property does not define it there). These sub-checks run on every Hypothesis case (which draws the views "
        "zipped, the positions of the nested loops / reads and the break point) and on the part of the box with "
        "(ns<=48 and nswin<=12) or (ns+3*nswin+5*overlap) % 8 == 0 (every (nswin, overlap) pair with every 8th ns), "
        "with fixed positions first/middle/last there.")
EXHAUSTIVE_NOTE = "box ns x nswin x overlap enumerated completely (see rule); random triples beyond the box are sampled"
ASSUMPTIONS = ["splicing sums are evaluated on arrays only for ns <= 200000; larger random cases check intervals only",
               "with more than 16 windows the nested loops and the nwin/tscale reads happen at three positions of the "
               "outer loop only (drawn by Hypothesis, first/middle/last in the box), not at every iteration"]
# thorough tier: the same property driven by Atheris / libFuzzer (coverage-guided) as a second engine
ATHERIS = {"runs": 300000, "seconds": 120}
BUDGET = {"quick": 10000, "thorough": 400000}
BOX = {"quick": (160, 32), "thorough": (600, 80)}


def enum_shards(tier):
    nsmax, nwmax = BOX[tier]
    # 32 shards with balanced work: interleave window sizes
    n = 32
    return [{"ns_max": nsmax, "nswins": list(range(1 + i, nwmax + 1, n))} for i in range(n) if 1 + i <= nwmax]


def enum_cases(desc):
    for nswin in desc["nswins"]:
        for ov in range(nswin):
            for ns in range(1, desc["ns_max"] + 1):
                yield {"ns": ns, "nswin": nswin, "overlap": ov, "fs": 30000.0}


VIEWS = ["firstlast", "slice", "firstlast_valid", "firstlast_splicing", "slice_array"]


@st.composite
def _case(draw):
    nswin = draw(st.one_of(st.integers(1, 200), st.integers(1, 10 ** 6)))
    kind = draw(st.sampled_from(["any", "zero", "half", "small", "max"]))
    if kind == "zero":
        ov = 0
    elif kind == "half":
        ov = nswin // 2
    elif kind == "small":
        ov = draw(st.integers(0, max(0, nswin // 2)))
    elif kind == "max":
        ov = nswin - 1
    else:
        ov = draw(st.integers(0, nswin - 1))
    if draw(st.booleans()):
        ov -= ov % 2
    stride = nswin - ov
    k = draw(st.integers(0, 300))
    if k == 0:
        ns = draw(st.integers(1, nswin))
    else:
        rem = draw(st.one_of(st.integers(1, stride), st.integers(1, max(1, min(stride, 2 * ov + 2)))))
        rem = min(rem, stride)
        ns = nswin + (k - 1) * stride + rem
    if ns > 2 * 10 ** 7:
        ns = 2 * 10 ** 7
    fs = draw(st.sampled_from([1.0, 2500.0, 30000.0, 29999.757983]))
    # object reuse: which views are zipped, where the nested loops / reads happen, where the iteration is abandoned
    zipviews = draw(st.lists(st.sampled_from(VIEWS), min_size=2, max_size=3))
    seqview = draw(st.sampled_from(VIEWS))
    pos = draw(st.lists(st.integers(0, 400), min_size=1, max_size=3))
    brk = draw(st.integers(0, 400))
    return {"ns": ns, "nswin": nswin, "overlap": ov, "fs": fs, "reuse": True, "zipviews": zipviews, "seqview": seqview,
            "pos": pos, "brk": brk}


def strategy(tier):
    return _case()


def _reference(ns, nswin, ov):
    out = []
    first = 0
    while True:
        last = min(first + nswin, ns)
        out.append((first, last))
        if last == ns:
            return out
        first += nswin - ov


def run_case(case, ctx):
    ns, nswin, ov, fs = case["ns"], case["nswin"], case["overlap"], case["fs"]
    WG = sut.utils().WindowGenerator
    ref = _reference(ns, nswin, ov)
    nref = len(ref)
    last_len = ref[-1][1] - ref[-1][0]
    if (nref >= 2 and last_len < 2 * ov) or (ov == 0 and nref >= 2) or ns <= nswin:
        ctx.nontrivial = True
    ctx.label("ns<=nswin" if ns <= nswin else ("1win" if nref == 1 else "multi"),
              "ov0" if ov == 0 else ("ov<=half" if 2 * ov <= nswin else "ov>half"),
              "ov_even" if ov % 2 == 0 else "ov_odd")
    if nref >= 2 and last_len < 2 * ov:
        ctx.label("short_last")
    if ns <= ov:
        ctx.label("ns<=overlap")

    wg = ctx.call("C17.construct", WG, ns, nswin, ov)
    if wg is ctx.CRASH:
        return

    cap = nref + 2  # every generator is consumed up to two items beyond the reference count: one that never stops is
    #                 reported as a wrong window list instead of exhausting the memory

    def _iter_with_iw():
        out = []
        for fl in itertools.islice(wg.firstlast, cap):
            out.append((int(fl[0]), int(fl[1]), wg.iw))
        return out
    got = ctx.call("C17.firstlast", _iter_with_iw)
    if got is ctx.CRASH:
        return
    fl = [(a, b) for a, b, _ in got]
    if not ctx.check(fl == ref, "C17.windows", lambda: f"windows {fl[:4]}..{fl[-2:]} != reference {ref[:4]}..{ref[-2:]}"):
        if not fl:
            return
    # validity predicates stated independently of the reference
    ok = fl[0][0] == 0 and fl[-1][1] == ns
    for i in range(len(fl) - 1):
        ok = ok and (fl[i][1] - fl[i + 1][0] == ov) and fl[i + 1][0] > fl[i][0] and fl[i][1] - fl[i][0] == nswin
    ok = ok and 0 < fl[-1][1] - fl[-1][0] <= nswin
    ctx.check(ok, "C17.cover_overlap", lambda: f"cover/overlap predicate fails for {fl[:5]}")
    nwin = ctx.call("C17.nwin", lambda: wg.nwin)
    if nwin is not ctx.CRASH:
        ctx.check(nwin == len(fl), "C17.nwin", lambda: f"nwin={nwin} but {len(fl)} windows produced")
    ctx.check([g[2] for g in got] == list(range(len(got))), "C17.iw", "iw is not the running window index")
    sl = ctx.call("C17.slice", lambda: list(itertools.islice(wg.slice, cap)))
    if sl is not ctx.CRASH:
        ctx.check(sl == [slice(a, b) for a, b in ref], "C17.slice", "slices differ from windows")
    ts = ctx.call("C17.tscale", wg.tscale, fs)
    if ts is not ctx.CRASH:
        exp = np.array([((a + b - 1) / 2) / fs for a, b in ref])
        ctx.check(np.shape(ts) == exp.shape and np.allclose(ts, exp, rtol=1e-12, atol=0),
                  "C17.tscale", "tscale is not the centre of each window")
    if ns <= 2000:
        sig = np.arange(ns) * 3 + 1
        sa = ctx.call("C17.slice_array", lambda: [np.array(a) for a in itertools.islice(wg.slice_array(sig), cap)])
        if sa is not ctx.CRASH:
            ctx.check(len(sa) == nref and all(np.array_equal(x, sig[a:b]) for x, (a, b) in zip(sa, ref)),
                      "C17.slice_array", "slice_array differs from sig[first:last]")
    # valid sub windows: every sample exactly once
    if ov % 2 == 0:
        v = ctx.call("C17.valid", lambda: [tuple(int(x) for x in t) for t in itertools.islice(wg.firstlast_valid, cap)])
        if v is not ctx.CRASH:
            okv = len(v) == nref and all(len(t) == 4 for t in v) and all((a, b) == r for (a, b, _, _), r in zip(v, ref))
            if okv:
                pos = 0
                for (a, b, fv, lv) in v:
                    okv = okv and fv == pos and a <= fv < lv <= b
                    pos = lv
                okv = okv and pos == ns
            ctx.check(okv, "C17.valid_partition", lambda: f"valid sub-windows do not partition [0,{ns}): {v[:4]}..{v[-2:]}")
    # splicing
    if 2 * ov <= nswin and ns <= 200000:
        def _splice():
            tot = np.zeros(ns)
            n = 0
            bad = None
            for first, last, amp in itertools.islice(wg.firstlast_splicing, cap):
                if n >= nref or (int(first), int(last)) != ref[n] or np.shape(amp) != (last - first,):
                    bad = (n, int(first), int(last), np.shape(amp))
                    break
                tot[first:last] += amp
                n += 1
            return tot, n, bad
        r = ctx.call("C17.splice", _splice)
        if r is not ctx.CRASH:
            tot, n, bad = r
            if ctx.check(bad is None and n == nref, "C17.splice_windows", lambda: f"splicing windows wrong: {bad} n={n}"):
                err = float(np.max(np.abs(tot - 1)))
                ctx.stat("splice_sum_err", err)
                ctx.check(err <= 1e-12, "C17.splice_sum", lambda: f"splicing amplitudes sum deviates from 1 by {err:.3g}")
        # the same windows collected first and used afterwards (list(...), handing the triples to workers): every amplitude
        # vector handed out stays what it was when the generator moves on
        if nref * min(nswin, ns) <= 2_000_000:
            def _collect():
                return list(itertools.islice(WG(ns, nswin, ov).firstlast_splicing, cap))
            items = ctx.call("C17.splice", _collect)
            if items is not ctx.CRASH and ctx.check(
                    len(items) == nref and all(len(t) == 3 and (int(t[0]), int(t[1])) == ref[i] and np.shape(t[2]) == (t[1] - t[0],)
                                               for i, t in enumerate(items)),
                    "C17.splice_windows", lambda: f"collected splicing windows wrong: {[(t[0], t[1]) for t in items[:4]]}"):
                tot = np.zeros(ns)
                for first, last, amp in items:
                    tot[first:last] += amp
                err = float(np.max(np.abs(tot - 1)))
                ctx.check(err <= 1e-12, "C17.splice_sum_collected",
                          lambda: f"splicing amplitudes collected in a list and summed afterwards deviate from 1 by {err:.3g} "
                                  f"(ns={ns}, nswin={nswin}, overlap={ov})")
    if _reuse_wanted(case):
        _reuse(case, ctx, WG, ref)


# ---------------------------------------------------------------------------------------------------------------------
# object reuse: several views of ONE WindowGenerator alive at once / one after the other
# ---------------------------------------------------------------------------------------------------------------------
_END = object()
_NITEM = {"firstlast": 2, "firstlast_valid": 4, "firstlast_splicing": 3}


def _reuse_wanted(case):
    r = case.get("reuse")
    if r is not None:
        return bool(r)
    ns, nswin, ov = case["ns"], case["nswin"], case["overlap"]
    return (ns <= 48 and nswin <= 12) or (ns + 3 * nswin + 5 * ov) % 8 == 0


def _isint(x):
    return isinstance(x, (int, np.integer)) and not isinstance(x, bool)


class _Collector:
    """What ONE generator of a view produced: the windows, plus the payload of the view checked against the property."""

    def __init__(self, view, ns, ref, sig):
        self.view, self.ns, self.ref, self.sig = view, ns, ref, sig
        self.wins = []
        self.valid = []
        self.tot = np.zeros(ns) if view == "firstlast_splicing" else None
        self.payload_bad = None

    def add(self, item):
        view, n = self.view, len(self.wins)
        a, b = self.ref[n] if n < len(self.ref) else (0, 0)
        if view == "slice":
            if not (isinstance(item, slice) and _isint(item.start) and _isint(item.stop) and item.step is None):
                self.wins.append(("not a slice", repr(item)[:60]))
                return
            self.wins.append((int(item.start), int(item.stop)))
            return
        if view == "slice_array":
            same = n < len(self.ref) and np.shape(item) == (b - a,) and np.array_equal(item, self.sig[a:b])
            self.wins.append((a, b) if same else ("not sig[first:last] of window", n))
            return
        if not (isinstance(item, tuple) and len(item) == _NITEM[view] and _isint(item[0]) and _isint(item[1])):
            self.wins.append(("malformed item", repr(item)[:60]))
            return
        w = (int(item[0]), int(item[1]))
        self.wins.append(w)
        if view == "firstlast_valid":
            if _isint(item[2]) and _isint(item[3]):
                self.valid.append((w[0], w[1], int(item[2]), int(item[3])))
            else:
                self.payload_bad = self.payload_bad or f"valid bounds of window {n} are not integers"
        elif view == "firstlast_splicing" and w == (a, b) and n < len(self.ref):
            amp = item[2]
            if isinstance(amp, np.ndarray) and amp.shape == (b - a,) and amp.dtype.kind == "f":
                self.tot[a:b] += amp
            else:
                self.payload_bad = self.payload_bad or f"amplitude of window {n} has shape {np.shape(amp)}"

    def judge(self, ctx, where, wins=None, ref=None):
        """Same oracle as the one-view-at-a-time part. `where` names the usage pattern in the message."""
        wins = self.wins if wins is None else wins
        ref = self.ref if ref is None else ref
        if not ctx.check(wins == ref, "C17.reuse_windows",
                         lambda: f"{where}: {self.view} yields {wins[:4]}..{wins[-2:]} ({len(wins)} windows), "
                                 f"reference {ref[:4]}..{ref[-2:]} ({len(ref)} windows)"):
            return False
        if ref is not self.ref:
            return True
        if self.view == "firstlast_valid":
            okv, pos = self.payload_bad is None and len(self.valid) == len(ref), 0
            if okv:
                for (a, b, fv, lv) in self.valid:
                    okv = okv and fv == pos and a <= fv < lv <= b
                    pos = lv
                okv = okv and pos == self.ns
            ctx.check(okv, "C17.reuse_valid_partition",
                      lambda: f"{where}: valid sub-windows do not partition [0,{self.ns}): {self.payload_bad} {self.valid[:4]}")
        if self.view == "firstlast_splicing":
            if ctx.check(self.payload_bad is None, "C17.reuse_splice_windows", lambda: f"{where}: {self.payload_bad}"):
                err = float(np.max(np.abs(self.tot - 1)))
                ctx.stat("splice_sum_err", err)
                ctx.check(err <= 1e-12, "C17.reuse_splice_sum",
                          lambda: f"{where}: splicing amplitudes sum deviates from 1 by {err:.3g}")
        return True


def _reuse(case, ctx, WG, ref):
    ns, nswin, ov, fs = case["ns"], case["nswin"], case["overlap"], case["fs"]
    nref = len(ref)
    cap = nref + 2
    sig = np.arange(ns) * 3 + 1 if ns <= 2000 else None
    exp_ts = np.array([((a + b - 1) / 2) / fs for a, b in ref])

    def usable(v):
        if v == "firstlast_valid":
            return ov % 2 == 0  # documented precondition (assert in the code)
        if v == "firstlast_splicing":
            return 2 * ov <= nswin and ns <= 200000  # property: overlaps up to half a window; cost
        if v == "slice_array":
            return ns <= 2000  # cost
        return v in VIEWS

    def norm(v):
        return v if usable(v) else "firstlast"

    zips = []
    if usable("firstlast_splicing"):
        zips.append(["firstlast", "firstlast_splicing"])
        ctx.label("reuse_zip_splicing")
    zips.append(["firstlast_valid", "slice"] if usable("firstlast_valid") else ["firstlast", "slice"])
    zv = case.get("zipviews")
    if zv:
        zips.append([norm(v) for v in zv][:3])
        ctx.label("reuse_zip%d" % len(zips[-1]))
    seqview = norm(case.get("seqview", "firstlast"))
    if nref <= 16:
        posset = set(range(nref))
    else:
        posset = {int(p) % nref for p in case.get("pos", [0, nref // 2, nref - 1])}
    brk = int(case.get("brk", nref // 2)) % nref
    ctx.label("reuse", "reuse_seq_" + seqview)
    if brk + 1 < nref:
        ctx.label("reuse_break_midway")

    wg = ctx.call("C17.construct", WG, ns, nswin, ov)
    if wg is ctx.CRASH:
        return

    def gen(view):
        return wg.slice_array(sig) if view == "slice_array" else getattr(wg, view)

    def col(view):
        return _Collector(view, ns, ref, sig)

    # (a) several views alive at once, advanced in lock-step
    for views in zips:
        where = "zip(" + ", ".join("wg." + v for v in views) + ")"

        def _zip():
            gens = [iter(gen(v)) for v in views]
            cols = [col(v) for v in views]
            n, drift = 0, 0
            for items in itertools.islice(zip(*gens), cap):
                for c, it in zip(cols, items):
                    c.add(it)
                iw = wg.iw
                drift = max(drift, abs(iw - n)) if _isint(iw) else -1
                n += 1
            # zip stops at the first exhausted generator: the others must have nothing left either
            left = [v for v, g in zip(views, gens) if n <= nref and next(g, _END) is not _END]
            return cols, left, drift
        r = ctx.call("C17.reuse_zip", _zip)
        if r is ctx.CRASH:
            continue
        cols, left, drift = r
        ctx.stat("iw_drift_while_interleaved", drift)  # recorded only, see RULE
        good = all([c.judge(ctx, where) for c in cols])
        if good:
            ctx.check(not left, "C17.reuse_windows", lambda: f"{where}: {left} yield more windows than the reference")

    # (a) loops over a view nested inside a loop over firstlast
    inner_views = ["firstlast", "slice", norm("firstlast_valid")]

    def _nested():
        outer, inners = col("firstlast"), []
        for i, fl in enumerate(itertools.islice(wg.firstlast, cap)):
            outer.add(fl)
            if i in posset:
                c = col(inner_views[len(inners) % 3])
                for it in itertools.islice(gen(c.view), cap):
                    c.add(it)
                inners.append((i, c))
        return outer, inners
    r = ctx.call("C17.reuse_nested", _nested)
    if r is not ctx.CRASH:
        outer, inners = r
        outer.judge(ctx, "outer loop over wg.firstlast with loops over other views nested in it")
        for i, c in inners:
            if not c.judge(ctx, f"loop nested in iteration {i} of a loop over wg.firstlast"):
                break

    # (b) nwin and tscale read inside the loop
    def _reads():
        outer, reads = col("firstlast"), []
        for i, fl in enumerate(itertools.islice(wg.firstlast, cap)):
            outer.add(fl)
            if i in posset:
                reads.append((i, wg.nwin, wg.tscale(fs)))
        return outer, reads
    r = ctx.call("C17.reuse_reads", _reads)
    if r is not ctx.CRASH:
        outer, reads = r
        outer.judge(ctx, "loop over wg.firstlast with wg.nwin and wg.tscale(fs) read inside the loop")
        for i, nw, ts in reads:
            ok1 = ctx.check(_isint(nw) and nw == nref, "C17.reuse_nwin",
                            lambda: f"nwin={nw!r} read in iteration {i} of a loop over firstlast, {nref} windows")
            ok2 = ctx.check(np.shape(ts) == exp_ts.shape and np.allclose(ts, exp_ts, rtol=1e-12, atol=0),
                            "C17.reuse_tscale", lambda: f"tscale read in iteration {i} of a loop over firstlast is "
                                                        f"not the centre of each window (shape {np.shape(ts)})")
            if not (ok1 and ok2):
                break

    # (c) the same view twice in a row; abandoned half-way, fresh iteration, abandoned generator resumed
    def _full():
        c, iws = col(seqview), []
        for it in itertools.islice(gen(seqview), cap):
            c.add(it)
            iws.append(wg.iw)
        return c, iws

    def _iw_ok(iws, where):
        ctx.check(iws == list(range(len(iws))) and all(_isint(x) for x in iws), "C17.reuse_iw",
                  lambda: f"{where}: iw is not the running window index: {iws[:6]}")

    for rep in ("first", "second"):
        r = ctx.call("C17.reuse_twice", _full)
        if r is not ctx.CRASH:
            where = f"{rep} of two consecutive loops over wg.{seqview}"
            if r[0].judge(ctx, where):
                _iw_ok(r[1], where)

    def _abandon():
        c0, iws0 = col(seqview), []
        g = iter(gen(seqview))
        for it in itertools.islice(g, brk + 1):
            c0.add(it)
            iws0.append(wg.iw)
        fresh, iws1 = _full()
        c0.wins_before = len(c0.wins)
        for it in itertools.islice(g, cap):
            c0.add(it)
        return c0, iws0, fresh, iws1
    r = ctx.call("C17.reuse_abandon", _abandon)
    if r is not ctx.CRASH:
        c0, iws0, fresh, iws1 = r
        where = f"loop over wg.{seqview} abandoned after {brk + 1} windows"
        nb = c0.wins_before
        if c0.judge(ctx, where, wins=c0.wins[:nb], ref=ref[:brk + 1]):
            _iw_ok(iws0, where)
        where = f"fresh loop over wg.{seqview} after one abandoned after {brk + 1} windows"
        if fresh.judge(ctx, where):
            _iw_ok(iws1, where)
        c0.judge(ctx, f"generator of wg.{seqview} paused after {brk + 1} windows and resumed after a complete fresh loop")
