"""C12 - LFP extraction equals low-pass plus decimation, independent of windowing."""
import contextlib

import numpy as np
import scipy.signal
from hypothesis import strategies as st

from vp import sut
from vp.gens import meta as gm, recording as rec, np2

ID = "C12"
LEVEL = "exploration"
RULE = ("Case = NP2.1 or NP2.4 recording (8..64 AP channels on 1..4 shanks + sync) with broadband content (white + coloured "
        "noise + slow drifts + a common component, never constant), ns 2000..40000 not a multiple of 12 or of the stride, and "
        "two different processing windows 12*{100..2500}. The converter is run once per window. Oracle: n_lf == ceil(n/12); "
        "LF sync == AP sync[::12] exactly; the two window sizes agree within 1 LSB at every sample; farther than 600 AP "
        "samples from both file edges LF == round(sosfiltfilt(butter(2, 0.2) designed in the harness, whole trace))[::12] "
        "within 1 LSB; LF metadata declares 2500 Hz and the channel counts written, and the file opens with shape == "
        "(bytes / (2*nc), nc). Non-trivial = >= 3 windows and a short last window for at least one of the two window "
        "sizes. Distinct = case hash.")
ASSUMPTIONS = ["the reference low-pass is designed from the documented constants (order 2, 1000 / 2500 / 2 of Nyquist), in "
               "float64 on the integer samples; the implementation filters float32 volts, hence the 1 LSB tolerance",
               "the two file edges (50 LF samples on each side) are excluded, as the property states"]
BUDGET = {"quick": 320, "thorough": 20000}
SHRINK = {"quick": False, "thorough": False}
EDGE_LF = 50


@st.composite
def _case(draw):
    gen = draw(st.sampled_from(["NP2.4", "NP2.4", "NP2.1"]))
    spec = draw(gm.st_spec(gens=(gen,), n_choices=(8, 12, 16, 32, 64), allow_lf=False, ns_range=(2000, 2000),
                           patterns=("interleaved", "random", "dense", "banks") if gen == "NP2.4" else ("dense", "random")))
    spec["n_acq"] = spec["n"]
    spec["nsync"] = 1
    # the calibrated sampling rate drawn by st_spec is kept (30000 or a measured value next to it)
    w1 = 12 * draw(st.integers(100, 2500))
    w2 = 12 * draw(st.integers(100, 2500).filter(lambda v: True))
    if w2 == w1:
        w2 = w1 + 12
    stride = min(w1, w2) - 576
    k = draw(st.integers(0, 12))
    # length of the last window of the smaller window size: anywhere, or on the constants the converter compares with
    # (one LF sample = 12, taper 144, 2 x taper 288, overlap 576, a full window), each with its neighbours
    wmin = min(w1, w2)
    last = draw(st.one_of(st.integers(1, wmin),
                          st.sampled_from([1, 11, 12, 13, 143, 144, 145, 287, 288, 289, 575, 576, 577, 588, wmin - 12, wmin - 1, wmin])))
    ns = k * stride + max(1, min(last, wmin))
    ns = int(min(max(ns, 2000), 40000))
    if ns % 12 == 0 and draw(st.integers(0, 2)) > 0:
        ns += draw(st.integers(1, 11))  # two cases in three: not a whole number of LF samples
    spec["ns"] = ns
    return {"debug_log": draw(st.sampled_from([False, False, False, True])), "spec": spec, "w": [w1, w2], "content_seed": draw(st.integers(0, 2 ** 31)), "cbin_in": draw(st.integers(0, 3)) == 0,
            # the second window size is processed by the SAME converter object (init_params called again; NP2.4: into new
            # folders through extra=, NP2.1: overwrite=True) instead of a fresh converter in a fresh directory
            "same_converter": draw(st.booleans()), "stem": draw(st.sampled_from(np2.STEMS))}


def strategy(tier):
    return _case()


def _nwin(ns, w):
    n, first = 0, 0
    while True:
        last = min(first + w, ns)
        n += 1
        if last == ns:
            return n, last - first
        first += w - 576


def run_case(case, ctx):
    if case.get("debug_log"):
        # process state: logging switched on at DEBUG level (logging.basicConfig(level=logging.DEBUG) in the calling script)
        from vp.core import debug_logging
        ctx.label("debug_logging_on")
        with debug_logging():
            return _run_case(case, ctx)
    return _run_case(case, ctx)


def _run_case(case, ctx):
    sg, npx = sut.spikeglx(), sut.neuropixel()
    spec = case["spec"]
    nc, nap, ns = gm.n_channels(spec), spec["n"], spec["ns"]
    D = rec.make_data(ns, nc, case["content_seed"], "broadband", nsync=1)
    shank = np2.shank_of_channels(spec)
    shanks = sorted(set(shank.tolist()))
    is24 = spec["gen"] == "NP2.4"
    ctx.label(spec["gen"], "shanks_%d" % len(shanks), "cbin_in" if case["cbin_in"] else "bin_in", "ns_mult12" if ns % 12 == 0 else "ns_not_mult12")
    nlf = -(-ns // 12)
    sos = scipy.signal.butter(2, 1000 / 2500 / 2, btype="lowpass", output="sos")
    ref_all = scipy.signal.sosfiltfilt(sos, D[:, :nap].astype(np.float64), axis=0)[::12]
    results = []
    same = bool(case.get("same_converter"))
    ctx.label("same_converter" if same else "fresh_converters")
    with contextlib.ExitStack() as stack:
        _windows(case, ctx, sg, npx, spec, D, shank, shanks, is24, nc, nap, ns, nlf, ref_all, results, same, stack)
    if len(results) == 2:
        for s in results[0]:
            a, b = results[0][s].astype(np.int64), results[1][s].astype(np.int64)
            d = int(np.abs(a - b).max())
            ctx.stat("window_diff_lsb", d)
            ctx.check(d <= 1, "C12.window_independence", lambda: f"windows {case['w']} give LFP differing by {d} LSB (shank {s})")


def _close(conv):
    try:
        conv.sr.close()
    except Exception:  # noqa
        pass


def _windows(case, ctx, sg, npx, spec, D, shank, shanks, is24, nc, nap, ns, nlf, ref_all, results, same, stack):
    root = conv = None
    for iw, w in enumerate(case["w"]):
        nw, lastlen = _nwin(ns, w)
        if nw >= 3 and lastlen < w:
            ctx.nontrivial = True
        ctx.label("windows_%s" % (nw if nw < 3 else "3+"))
        reuse = same and iw == 1
        extra = "_b" if (reuse and is24) else ""
        if True:
            if not reuse:
                root = stack.enter_context(rec.scratch_dir(ctx))
                ap = np2.make_session(root, spec, D, cbin=case["cbin_in"], chunk=5000, stem=case.get("stem"))
                conv = ctx.call("C12.converter", npx.NP2Converter, ap, post_check=False, compress=False)
                if conv is ctx.CRASH:
                    return
                stack.callback(_close, conv)
            if ctx.call("C12.init_params", conv.init_params, nwindow=w, **({"extra": extra} if extra else {})) is ctx.CRASH:
                return
            status = ctx.call("C12.process", conv.process, **({"overwrite": True} if (reuse and not is24) else {}))
            if status is ctx.CRASH:
                return
            if not ctx.check(status == 1, "C12.status", lambda: f"process() returned {status}"):
                return
            per = {}
            groups = [(s, root / ("probe00" + chr(97 + s) + extra), np.flatnonzero(shank == s)) for s in shanks] if is24 \
                else [(0, root / "probe00", np.arange(nap))]
            for s, fold, cols in groups:
                lf = np2.find_data(fold, "lf")
                if not ctx.check(lf is not None and lf.suffix == ".bin", "C12.lf_file", lambda: f"no LF file in {fold.name}"):
                    return
                ncl = len(cols) + 1
                raw = np.fromfile(lf, dtype=np.int16)
                if not ctx.check(raw.size == nlf * ncl, "C12.n_lf", lambda: f"window {w}: LF file holds {raw.size / ncl} frames of {ncl} channels, expected ceil({ns}/12)={nlf}"):
                    return
                raw = raw.reshape(nlf, ncl)
                ctx.check(np.array_equal(raw[:, -1], D[::12, nc - 1]), "C12.sync", lambda: f"window {w}: LF sync differs from every 12th AP sync word")
                # reference away from the edges
                ref = np.round(ref_all[:, cols])
                if nlf > 2 * EDGE_LF:
                    err = np.abs(raw[EDGE_LF:nlf - EDGE_LF, :-1].astype(np.int64) - ref[EDGE_LF:nlf - EDGE_LF])
                    e = int(err.max())
                    ctx.stat("interior_err_lsb", e)
                    ctx.check(e <= 1, "C12.values", lambda: f"window {w}: LF differs from low-pass+decimate reference by {e} LSB in the interior")
                # metadata + reader shape
                md = ctx.call("C12.read_lf_meta", sg.read_meta_data, lf.with_suffix(".meta"))
                if md is ctx.CRASH:
                    return
                ctx.check(md.get("imSampRate") == 2500, "C12.meta_fs", lambda: f"LF imSampRate = {md.get('imSampRate')}")
                ctx.check(md.get("snsApLfSy") == [0.0, float(ncl - 1), 1.0] and int(md.get("nSavedChans")) == ncl, "C12.meta_counts",
                          lambda: f"LF metadata channel counts snsApLfSy={md.get('snsApLfSy')} nSavedChans={md.get('nSavedChans')} for {ncl} written")
                srl = ctx.call("C12.open_lf", sg.Reader, lf, sort=False)
                if srl is ctx.CRASH:
                    return
                try:
                    ctx.check(srl.shape == (nlf, ncl) and srl.type == "lf" and srl.fs == 2500, "C12.reader_shape",
                              lambda: f"LF reader shape {srl.shape} type {srl.type} fs {srl.fs}, content is {(nlf, ncl)}")
                finally:
                    srl.close()
                per[s] = raw
            results.append(per)
