"""C02 - Compression is transparent, lossless and atomically published."""
import gc
import hashlib
import shutil
from pathlib import Path

import numpy as np
from hypothesis import strategies as st

from vp import sut, faults
from vp.gens import meta as gm, recording as rec

ID = "C02"
LEVEL = "fault_enumeration"
RULE = ("Case = generated recording (probe metadata with 1..384 channels, or a metadata-free flat binary; ns 1..600 not a "
        "multiple of the chunk; chunk 7..97 samples; 1/2 compression threads) + a history of 3..8 operations drawn by "
        "Hypothesis (model-based): compress(keep), decompress(keep, overwrite), decompress_to_scratch(dir|same folder), "
        "continue with the same Reader object after an in-place compress / decompress (close + open), reopen through the bin / cbin / meta path (built directly, with open=False + open(), from a str path, from the data file alone in another folder with explicit meta_file / ch_file, or from files that each carry their own UUID before the extension), each optionally with a failure injected. For every compress / scratch "
        "operation of the history ALL fault points are enumerated (an I/O error at every chunk index, in the "
        "post-compression verification and at the publishing rename, and a process death (BaseException) before every "
        "compression batch / while the scratch output is open) on a copy of the directory. Oracle: (a) reads through cbin == reads through bin == "
        "the written data for every (start, stop) within +-2 of every chunk boundary with steps 1..5, the same ranges walked backwards with steps -1..-5, whole-file reversed strided reads and drawn others; "
        "(b) decompressed bytes SHA-1 == original; (c) bin / cbin / meta entry points give the same shape and values; (d) "
        "after an injected failure no new *.cbin (resp. scratch *.bin) carries the final name, the source bytes are "
        "unchanged and a retry succeeds; in-place variants remove their source only when the replacement verifies; after "
        "every step the original bytes are recoverable from what is on disk (model invariant). Non-trivial = >= 3 chunks "
        "with a short last chunk AND (a boundary-crossing slice compared OR an injected failure). evaluations = histories; "
        "fault points per history are enumerated completely and counted in the class histogram. Distinct = case hash.")
ASSUMPTIONS = ["a failure is an OSError raised by the k-th chunk (de)compression call, by the verification step or by the publishing "
               "rename, or a BaseException (process death) raised in the calling thread between batches; a power cut tearing an "
               "unflushed buffer is not modelled",
               "after a failed in-place decompression the incomplete .bin may stay (the property only forbids losing the source "
               "there); it is shown to an immediately following decompress operation (retry) and otherwise removed by the harness "
               "before the next operation, as a user would"]
BUDGET = {"quick": 800, "thorough": 20000}
SHRINK = {"quick": False, "thorough": True}


@st.composite
def _case(draw):
    nometa = draw(st.integers(0, 5)) == 0
    chunk = draw(st.integers(7, 97))
    nchunks = draw(st.integers(1, 7))
    rem = draw(st.integers(1, chunk))
    ns = min(600, (nchunks - 1) * chunk + rem)
    if nometa:
        spec = {"gen": "flat", "nc": draw(st.sampled_from([1, 2, 5, 17, 64, 384, 385])), "fs": 30000, "ns": ns,
                "nsync": draw(st.integers(0, 1))}
    elif draw(st.integers(0, 7)) == 0:
        spec = draw(gm.st_nidq(ns_range=(ns, ns)))  # NI-DAQ stream: digital word(s) + analog sync channels
    else:
        spec = draw(gm.st_spec(n_choices=(1, 2, 7, 16, 33, 100, 384), ns_range=(ns, ns), patterns=("dense", "random"),
                               allow_nosync=True))
    nops = draw(st.integers(3, 8))
    ops = []
    for _ in range(nops):
        op = draw(st.sampled_from(["compress", "compress", "decompress", "decompress", "scratch", "open", "open"]))
        o = {"op": op}
        if op == "compress":
            o["keep"] = draw(st.booleans())
            o["check"] = draw(st.booleans())
            o["chunk"] = draw(st.one_of(st.none(), st.integers(7, 97)))  # None: the recording's usual chunk size
            o["fault"] = draw(st.sampled_from([None, None, "chunk", "check"]))
            o["k"] = draw(st.integers(0, 10 ** 6))
            o["reuse"] = draw(st.booleans())  # keep using the same Reader object afterwards (re-opened)
        elif op == "decompress":
            o["keep"] = draw(st.booleans())
            o["overwrite"] = draw(st.booleans())
            o["reuse"] = draw(st.booleans())
            o["fault"] = draw(st.sampled_from([None, None, "chunk"]))
            o["k"] = draw(st.integers(0, 10 ** 6))
        elif op == "scratch":
            o["dir"] = draw(st.booleans())
            o["fault"] = draw(st.sampled_from([None, None, "chunk"]))
            o["k"] = draw(st.integers(0, 10 ** 6))
        else:
            o["via"] = draw(st.sampled_from(["bin", "cbin", "meta", "meta"]))
            # how the reader is built: default; open=False followed by open(); the path as a str; the data file alone in
            # another folder with its companions (.meta, .ch) passed explicitly
            o["how"] = draw(st.sampled_from(["default", "default", "deferred", "str", "explicit", "uuid"]))
        ops.append(o)
    sl = draw(st.lists(st.tuples(st.integers(-ns - 3, ns + 3), st.integers(-ns - 3, ns + 3),
                                 st.sampled_from([1, 2, 3, 4, 5, -1, -2, -3, -4, -5])), max_size=6))
    return {"spec": spec, "chunk": chunk, "threads": draw(st.sampled_from([1, 1, 2])), "content_seed": draw(st.integers(0, 2 ** 31)),
            "content_mode": draw(st.sampled_from(["full", "smooth", "ramp"])), "ops": ops, "slices": [list(s) for s in sl],
            "start": draw(st.sampled_from(["bin", "bin", "cbin", "both"])),
            "run": draw(st.sampled_from(["run", "run", "run", "run", "mouse[7]", "my run (2)", "m1.d2", "x*y"]))}


def strategy(tier):
    return _case()


def _sha(p):
    return hashlib.sha1(Path(p).read_bytes()).hexdigest()


def _decompress_bytes(cbin):
    """Harness-side decompression with mtscomp directly (independent of spikeglx.Reader)."""
    import mtscomp
    r = mtscomp.Reader(n_threads=1)
    r.open(cbin, Path(cbin).with_suffix(".ch"))
    try:
        return np.ascontiguousarray(r[:]).tobytes()
    finally:
        r.close()


class World:
    """The scratch directory + the model of what must be on it."""

    def __init__(self, case, ctx, d):
        self.case, self.ctx, self.d = case, ctx, Path(d)
        spec = case["spec"]
        self.flat = spec["gen"] == "flat"
        self.nc = spec["nc"] if self.flat else gm.n_channels(spec)
        self.ns = spec["ns"]
        self.fs = spec["fs"]
        self.nsync = spec["dw"] if spec["gen"] == "nidq" else spec.get("nsync", 1)
        self.D = rec.make_data(self.ns, self.nc, case["content_seed"], case["content_mode"], nsync=self.nsync)
        self.bytes = self.D.tobytes()
        self.sha = hashlib.sha1(self.bytes).hexdigest()
        self.stem = "run_g0_t0.imec0.ap" if self.flat else None
        if self.flat:
            self.bin = self.d / "flat.ap.bin"
            self.bin.write_bytes(self.bytes)
        else:
            # run names are the experimenter's: brackets, blanks, parentheses and dots are legal in file names (and special to
            # glob / regular expressions)
            run = case.get("run") or "run"
            stream = "nidq" if spec["gen"] == "nidq" else f"imec0.{spec.get('stream', 'ap')}"
            if run != "run":
                ctx.label("run_name_special_characters")
            self.bin = rec.write_recording(self.d, spec, self.D, stem=f"{run}_g0_t0.{stream}")
        self.cbin = self.bin.with_suffix(".cbin")
        self.ch = self.bin.with_suffix(".ch")
        self.meta = self.bin.with_suffix(".meta")
        # what the reader of the uncompressed original reports as sync (digital lines + thresholded analog lines): the
        # reference every later reader - compressed or not - must reproduce ("indistinguishable through the reader")
        self.sync_ref = None
        if not self.flat and self.nsync:
            sr0 = self.reader(self.bin, kind="C02.open_reference")
            if sr0 is not ctx.CRASH:
                try:
                    r = ctx.call("C02.sync_reference", sr0.read_sync, slice(0, self.ns))
                    self.sync_ref = None if r is ctx.CRASH else np.array(r)
                finally:
                    try:
                        sr0.close()
                    except Exception:  # noqa
                        pass
        self.nchunks = int(np.ceil(self.ns / case["chunk"]))
        self.cur_chunk = case["chunk"]  # chunk size of the .cbin currently on disk (changes when a compress op uses its own)

    # -- reader construction ---------------------------------------------------------------------
    def reader(self, path, kind="C02.open", how="default"):
        sg = sut.spikeglx()
        kw = dict(nc=self.nc, ns=self.ns, fs=self.fs, nsync=self.nsync or None) if self.flat else dict(sort=False)
        path = Path(path)
        if how == "explicit" and path.suffix in (".bin", ".cbin"):
            side = self.d.parent / "side"
            shutil.rmtree(side, ignore_errors=True)
            side.mkdir()
            shutil.copy(path, side / path.name)
            if path.suffix == ".cbin":
                kw["ch_file"] = self.ch
            if not self.flat:
                kw["meta_file"] = self.meta
            path = side / path.name
        if how == "uuid" and path.suffix in (".bin", ".cbin") and not self.flat:
            # data-store naming: every file of the recording carries its own UUID before the extension; the companions are
            # found through the documented fall-back of the companion lookup
            side = self.d.parent / "side"
            shutil.rmtree(side, ignore_errors=True)
            side.mkdir()
            uu = ["4e3f0d2a-9c1b-4f7e-8a6d-1b2c3d4e5f60", "0a1b2c3d-4e5f-4a6b-8c7d-9e0f1a2b3c4d", "f1e2d3c4-b5a6-4978-8a9b-0c1d2e3f4a5b"]
            stem = path.name[:-len(path.suffix)]
            shutil.copy(path, side / f"{stem}.{uu[0]}{path.suffix}")
            shutil.copy(self.meta, side / f"{stem}.{uu[1]}.meta")
            if path.suffix == ".cbin":
                shutil.copy(self.ch, side / f"{stem}.{uu[2]}.ch")
            path = side / f"{stem}.{uu[0]}{path.suffix}"
        if how == "str":
            path = str(path)
        if how == "deferred":
            sr = self.ctx.call(kind, sg.Reader, path, open=False, **kw)
            if sr is self.ctx.CRASH:
                return sr
            r = self.ctx.call(kind, sr.open)
            return sr if r is not self.ctx.CRASH else r
        return self.ctx.call(kind, sg.Reader, path, **kw)

    def has_bin(self):
        return self.bin.exists()

    def has_cbin(self):
        return self.cbin.exists()

    # -- invariants ---------------------------------------------------------------------------------
    def recoverable(self, where):
        ok = False
        if self.has_bin() and _sha(self.bin) == self.sha:
            ok = True
        if self.has_cbin() and self.ch.exists():
            try:
                ok = ok or _decompress_bytes(self.cbin) == self.bytes
            except Exception:  # noqa  (a corrupt pair simply does not count as a copy)
                pass
        self.ctx.check(ok, "C02.original_lost", lambda: f"after {where}: neither a complete .bin nor a valid .cbin/.ch pair holds the original bytes; "
                       f"files: {sorted(p.name for p in self.d.iterdir())}")
        return ok

    def final_names_complete(self, where):
        """Every file carrying a final data name is complete."""
        if self.has_bin():
            self.ctx.check(_sha(self.bin) == self.sha, "C02.partial_bin", lambda: f"after {where}: {self.bin.name} exists but is not the complete original")
        if self.has_cbin():
            good = False
            if self.ch.exists():
                try:
                    good = _decompress_bytes(self.cbin) == self.bytes
                except Exception:  # noqa
                    good = False
            self.ctx.check(good, "C02.partial_cbin", lambda: f"after {where}: {self.cbin.name} exists but does not decompress to the original")

    # -- value comparison ---------------------------------------------------------------------------
    def expected(self, sr):
        A = self.D.astype(np.float32)
        A *= np.asarray(sr.sample2volts)
        return A

    def compare_reads(self, sr, label, boundary=True):
        ctx = self.ctx
        if not ctx.check(sr.shape == (self.ns, self.nc), "C02.shape", lambda: f"{label}: shape {sr.shape} != {(self.ns, self.nc)}"):
            return
        A = self.expected(sr)
        sels = [slice(a, b, s) for a, b, s in self.case["slices"]]
        if boundary:
            ch = self.cur_chunk
            for kb in range(1, int(np.ceil(self.ns / ch))):
                b = kb * ch
                for a in range(b - 2, b + 3):
                    for e in range(b - 2, b + 3):
                        if 0 <= a < e <= self.ns:
                            sels.append(slice(a, e, 1 + (a + e) % 5))
                            # the same range walked backwards with a stride (start e-1 down to a, exclusive stop a-1)
                            sels.append(slice(e - 1, a - 1 if a > 0 else None, -(1 + (a + 2 * e) % 5)))
            sels.append(slice(None, None, -2))
            sels.append(slice(None, None, -3))
            sels.append(slice(None))
            sels.append(slice(max(0, self.ns - 3), self.ns + 5))
        crossed = False
        for s in sels:
            got = ctx.call("C02.read", lambda: sr[s, :])
            if got is ctx.CRASH:
                return
            exp = A[s]
            if not ctx.check(got.shape == exp.shape and np.array_equal(got, exp), "C02.values",
                             lambda: f"{label}: sr[{s}] differs from the written data (shape {got.shape} vs {exp.shape})"):
                return
            crossed = True
        if boundary:
            # integer sample selectors (Python and NumPy scalars) on both sides of every chunk boundary and at the ends,
            # alone and combined with column selectors; integers outside [-ns, ns) must raise IndexError as NumPy does
            ch = self.cur_chunk
            ints = {0, -1, self.ns - 1, -self.ns}
            for kb in range(1, int(np.ceil(self.ns / ch))):
                b = kb * ch
                ints.update(i for i in (b - 1, b, b - self.ns, b - 1 - self.ns) if -self.ns <= i < self.ns)
            csels = [slice(None), slice(None, None, 2), [self.nc - 1, 0], -1, slice(None, None, -1)]
            for j, i in enumerate(sorted(ints)):
                for v in (int(i), np.int64(i)):
                    c = csels[(j + (0 if isinstance(v, int) else 2)) % len(csels)]
                    got = ctx.call("C02.read", lambda: sr[v, c])
                    if got is ctx.CRASH:
                        return
                    exp = A[i][c]
                    if not ctx.check(np.shape(got) == exp.shape and np.array_equal(got, exp), "C02.values",
                                     lambda: f"{label}: sr[{v!r}, {c}] differs from the written data (shape {np.shape(got)} vs {exp.shape})"):
                        return
                got = ctx.call("C02.read", lambda: sr[int(i)])
                if got is ctx.CRASH:
                    return
                if not ctx.check(np.shape(got) == A[i].shape and np.array_equal(got, A[i]), "C02.values",
                                 lambda: f"{label}: sr[{i}] differs from the written data"):
                    return
            for i in (self.ns, self.ns + 7, -self.ns - 1, -2 * self.ns - 1):
                got = ctx.call("C02.read", lambda: sr[i, :], expect=(IndexError,))
                if got is ctx.CRASH:
                    return
                if not ctx.check(isinstance(got, IndexError), "C02.oob_no_error",
                                 lambda: f"{label}: sr[{i}, :] returned data of shape {np.shape(got)} for a recording of {self.ns} samples "
                                         "(NumPy indexing and the uncompressed file raise IndexError)"):
                    return
            if self.sync_ref is not None:
                # the default form of read(): (data, sync) - the sync block must be the one the uncompressed original gives
                r = ctx.call("C02.read", lambda: sr.read(slice(0, self.ns), slice(None), True))
                if r is ctx.CRASH:
                    return
                if not ctx.check(isinstance(r, tuple) and len(r) == 2 and np.shape(r[0]) == A.shape and np.array_equal(r[0], A),
                                 "C02.values", lambda: f"{label}: read(..., sync=True) data part differs from the written data"):
                    return
                if not ctx.check(np.shape(r[1]) == self.sync_ref.shape and np.array_equal(r[1], self.sync_ref), "C02.sync_values",
                                 lambda: f"{label}: sync block of read(..., sync=True) has shape {np.shape(r[1])}, the uncompressed "
                                         f"original gives {self.sync_ref.shape} (or values differ)"):
                    return
            for s_, c in ((slice(None, None, 3), slice(1, None, 2)), (slice(None), [0, self.nc - 1]), (slice(self.ns // 2, None, -1), -1)):
                got = ctx.call("C02.read", lambda: sr[s_, c])
                if got is ctx.CRASH:
                    return
                exp = A[s_][:, c]
                if not ctx.check(np.shape(got) == exp.shape and np.array_equal(got, exp), "C02.values",
                                 lambda: f"{label}: sr[{s_}, {c}] differs from the written data"):
                    return
        if crossed and boundary and self.nchunks >= 3 and self.ns % self.case["chunk"]:
            self.boundary_compared = True


def _copy_world(w, ctx, dst):
    shutil.copytree(w.d, dst)
    w2 = World.__new__(World)
    w2.__dict__.update(w.__dict__)
    w2.d = Path(dst)
    w2.bin, w2.cbin, w2.ch, w2.meta = (Path(dst) / p.name for p in (w.bin, w.cbin, w.ch, w.meta))
    return w2


def _same_reader_continues(w, sr, o, what, target):
    """The Reader object that performed an in-place operation keeps being used (keep_original=False is documented as
    modifying the current reader in place): after close() + open() it must read the recording like a fresh one."""
    ctx = w.ctx
    ctx.label("same_reader_after_" + what)

    def _reopen():
        sr.close()
        sr.open()
    if ctx.call("C02.reopen_same_reader", _reopen) is ctx.CRASH:
        return
    if not o["keep"]:
        if not ctx.check(sr.file_bin is not None and Path(sr.file_bin) == target, "C02.inplace_reader_target",
                         lambda: f"after {what}(keep_original=False) the reader points at {sr.file_bin}, expected {target.name}"):
            return
    w.compare_reads(sr, f"same reader object after {what}(keep_original={o['keep']})")


def _do_compress(w, o, fault_at=None, fault_kind=None):
    """Returns 'ok' | 'fault' | 'crash'. Performs Reader(bin).compress_file with the requested options."""
    import mtscomp
    ctx = w.ctx
    sr = w.reader(w.bin)
    if sr is ctx.CRASH:
        return "crash"
    kw = dict(keep_original=o["keep"], chunk_duration=(o.get("chunk") or w.case["chunk"]) / w.fs, n_threads=w.case["threads"],
              check_after_compress=bool(o["check"] or fault_kind == "check"))
    cnt = faults.Counter(fail_at=fault_at, exc=faults.Crash if fault_kind == "kill" else faults.InjectedFault)
    targets = []
    if fault_kind == "chunk":
        targets = [(mtscomp.Writer, "_compress_chunk", "compress_chunk", "before")]
    elif fault_kind == "check":
        targets = [(mtscomp, "check", "verify", "before")]
    elif fault_kind == "rename":
        # whatever call publishes the finished file under its final name
        import os as _os
        targets = [(Path, "rename", "rename", "before"), (Path, "replace", "rename", "before"), (_os, "rename", "rename", "before"),
                   (_os, "replace", "rename", "before"), (shutil, "move", "rename", "before")]
    elif fault_kind == "kill":
        # the process dies (BaseException: no `except Exception` clean-up runs) before batch number fault_at is compressed;
        # compress_batch runs in the calling thread for every thread count
        targets = [(mtscomp.Writer, "compress_batch", "compress_batch", "before")]
    killed = False
    r = None
    try:
        with faults.patched(cnt, targets):
            try:
                r = ctx.call("C02.compress_file", sr.compress_file, expect=(faults.InjectedFault,), **kw)
            except faults.Crash:
                killed = True
        if (o.get("reuse") and fault_kind is None and fault_at is None and not killed and r is not ctx.CRASH
                and not isinstance(r, BaseException) and not cnt.fired):
            prev = w.cur_chunk
            w.cur_chunk = o.get("chunk") or w.case["chunk"]
            _same_reader_continues(w, sr, o, "compress_file", w.cbin)
            w.cur_chunk = prev
    finally:
        try:
            sr.close()
        except Exception:  # noqa
            pass
    if isinstance(r, BaseException):
        r = r.with_traceback(None)
    if killed:
        return "fault"
    if r is ctx.CRASH:
        return "crash"
    if isinstance(r, faults.InjectedFault):
        return "fault"
    if cnt.fired:
        return "swallowed"  # the injected error was caught inside the code under test and the call returned normally
    ctx.check(Path(r) == w.cbin, "C02.compress_return", lambda: f"compress_file returned {r}")
    return "ok"


def _check_after_compress_fault(w, before, where):
    ctx = w.ctx
    had_cbin, cbin_sha, bin_sha = before
    ctx.check(w.has_bin() and _sha(w.bin) == bin_sha, "C02.source_touched", lambda: f"{where}: the source .bin was removed or modified by a failed compression")
    if had_cbin:
        ctx.check(w.has_cbin() and _sha(w.cbin) == cbin_sha, "C02.published_partial", lambda: f"{where}: the previous .cbin was replaced by a failed compression")
    else:
        ctx.check(not w.has_cbin(), "C02.published_partial", lambda: f"{where}: a .cbin exists after a failed compression")


def _enumerate_compress_faults(w, o, step):
    """All fault points of this compress operation, each on a fresh copy of the directory."""
    ctx = w.ctx
    nch = int(np.ceil(w.ns / (o.get("chunk") or w.case["chunk"])))
    nbatches = int(np.ceil(nch / w.case["threads"]))
    points = [("chunk", k) for k in range(nch)] + [("check", 0), ("rename", 0)] + [("kill", b) for b in range(nbatches)]
    for kind, k in points:
        dst = w.d.parent / f"{w.d.name}_f{step}_{kind}{k}"
        w2 = _copy_world(w, ctx, dst)
        try:
            before = (w2.has_cbin(), _sha(w2.cbin) if w2.has_cbin() else None, _sha(w2.bin))
            res = _do_compress(w2, o, fault_at=k, fault_kind=kind)
            ctx.label("fault_compress_" + kind)
            if res == "fault":
                _check_after_compress_fault(w2, before, f"step {step} compress fault {kind}@{k}")
                w2.recoverable(f"step {step} compress fault {kind}@{k}")
                # retry succeeds
                res2 = _do_compress(w2, o)
                if ctx.check(res2 == "ok", "C02.retry_failed", lambda: f"retry after compress fault {kind}@{k} did not succeed ({res2})"):
                    w2.final_names_complete(f"retry after compress fault {kind}@{k}")
                    ctx.check(w2.has_bin() == bool(o["keep"]), "C02.keep_original", "keep_original not honoured on retry")
            elif res == "ok":
                ctx.label("fault_point_absent_" + kind)  # e.g. an implementation that publishes without a rename
            elif res == "swallowed":
                ctx.fail("C02.fault_swallowed", f"step {step}: injected {kind}@{k} failure was swallowed, compress_file returned normally")
        finally:
            shutil.rmtree(dst, ignore_errors=True)
    w.faulted = True


def _do_scratch(w, o, fault_at=None):
    import mtscomp
    ctx = w.ctx
    sr = w.reader(w.cbin)
    if sr is ctx.CRASH:
        return "crash", None
    sdir = (w.d / "scratch") if (o["dir"] and not w.flat) else None  # without metadata there is nothing to copy along
    kill = fault_at == "kill"
    cnt = faults.Counter(fail_at=0 if kill else fault_at, exc=faults.Crash if kill else faults.InjectedFault)
    if kill:  # process death while the output file is open (decompress_chunks runs in the calling thread)
        targets = [(mtscomp.Reader, "decompress_chunks", "decompress_batch", "before")]
    else:
        targets = [(mtscomp.Reader, "_decompress_chunk", "decompress_chunk", "before")] if fault_at is not None else []
    killed, r = False, None
    try:
        with faults.patched(cnt, targets):
            try:
                r = ctx.call("C02.decompress_to_scratch", sr.decompress_to_scratch, expect=(faults.InjectedFault,),
                             **({"scratch_dir": sdir} if sdir else {}))
            except faults.Crash:
                killed = True
    finally:
        try:
            sr.close()
        except Exception:  # noqa
            pass
    if isinstance(r, BaseException):
        r = r.with_traceback(None)
    if killed:
        return "fault", (sdir or w.d) / w.bin.name
    if r is ctx.CRASH:
        return "crash", None
    if isinstance(r, faults.InjectedFault):
        return "fault", (sdir or w.d) / w.bin.name
    if cnt.fired:
        return "swallowed", Path(r)
    return "ok", Path(r)


def _enumerate_scratch_faults(w, o, step):
    ctx = w.ctx
    if (not o["dir"] or w.flat) and w.has_bin():
        return  # nothing is decompressed: the existing .bin is returned
    for k in list(range(int(np.ceil(w.ns / w.cur_chunk)))) + ["kill"]:
        dst = w.d.parent / f"{w.d.name}_s{step}_{k}"
        w2 = _copy_world(w, ctx, dst)
        try:
            csha, chsha = _sha(w2.cbin), _sha(w2.ch)
            res, target = _do_scratch(w2, o, fault_at=k)
            ctx.label("fault_scratch")
            if res == "fault":
                ctx.check(not target.exists(), "C02.scratch_partial", lambda: f"step {step}: {target.name} exists after a failed scratch decompression @{k}")
                ctx.check(w2.has_cbin() and _sha(w2.cbin) == csha and _sha(w2.ch) == chsha, "C02.source_touched",
                          "compressed source modified by a failed scratch decompression")
                res2, t2 = _do_scratch(w2, o)
                if ctx.check(res2 == "ok", "C02.retry_failed", lambda: f"retry after scratch fault @{k} did not succeed ({res2})"):
                    ctx.check(t2.exists() and _sha(t2) == w2.sha, "C02.scratch_bytes", "scratch file after retry is not the original")
            elif res == "ok":
                ctx.label("fault_point_absent_scratch")
            elif res == "swallowed":
                ctx.fail("C02.fault_swallowed", f"step {step}: injected scratch failure @{k} was swallowed")
        finally:
            shutil.rmtree(dst, ignore_errors=True)
    w.faulted = True


_HYGIENE = False


def _install_pool_hygiene():
    """An interrupted mtscomp.Writer.write / Reader.tofile never closes its thread pool; with thousands of injected faults
    per process the leaked threads exhaust the limit. Harness-side hygiene only: terminate the pool when the call is left
    by an exception (nothing else about the dependency is changed)."""
    global _HYGIENE
    if _HYGIENE:
        return
    import mtscomp
    for cls, name in ((mtscomp.Writer, "write"), (mtscomp.Reader, "tofile")):
        orig = getattr(cls, name)

        def make(orig=orig):
            def wrapper(self, *a, **k):
                try:
                    return orig(self, *a, **k)
                except BaseException:
                    pool = getattr(self, "pool", None)
                    if pool is not None:
                        try:
                            pool.close()
                        except Exception:  # noqa
                            pass
                    raise
            return wrapper
        setattr(cls, name, make())
    _HYGIENE = True


def run_case(case, ctx):
    import mtscomp
    _install_pool_hygiene()
    with rec.scratch_dir(ctx) as root:
        d = root / "w"
        d.mkdir()
        w = World(case, ctx, d)
        w.boundary_compared = False
        w.faulted = False
        spec = case["spec"]
        ctx.label("flat" if w.flat else spec["gen"], "threads%d" % case["threads"], "chunks_%s" % (w.nchunks if w.nchunks < 3 else "3+"),
                  "start_" + case["start"])
        if case["start"] in ("cbin", "both"):
            rec.compress(w.bin, w.nc, w.fs, case["chunk"], n_threads=1, keep_bin=(case["start"] == "both"))
        w.partial_bin = False
        for step, o in enumerate(case["ops"]):
            op = o["op"]
            if w.partial_bin and op != "decompress":
                # the user cleans up the incomplete output of a failed in-place decompression before doing anything else;
                # only a retried decompression gets to see it
                if w.has_bin() and _sha(w.bin) != w.sha:
                    w.bin.unlink()
                w.partial_bin = False
            if op == "open":
                via = o["via"]
                if via == "meta" and w.flat:
                    via = "bin"
                path = {"bin": w.bin, "cbin": w.cbin, "meta": w.meta}[via]
                if via in ("bin", "cbin") and not path.exists():
                    via, path = ("cbin", w.cbin) if via == "bin" else ("bin", w.bin)
                how = o.get("how", "default")
                ctx.label("open_" + via + ("_only_cbin" if (via == "meta" and not w.has_bin()) else ""), "open_how_" + how)
                sr = w.reader(path, kind="C02.open_" + via, how=how)
                if sr is ctx.CRASH:
                    return
                try:
                    if via == "meta":
                        exp_file = w.bin if w.has_bin() else w.cbin
                        if not ctx.check(sr.file_bin is not None and Path(sr.file_bin) == exp_file and sr.is_open, "C02.meta_entry",
                                         lambda: f"Reader(meta) resolved to {sr.file_bin} (open={getattr(sr, '_raw', None) is not None}), "
                                         f"expected {exp_file.name}; files {sorted(p.name for p in w.d.iterdir())}"):
                            continue
                    w.compare_reads(sr, f"step {step} open via {via}")
                finally:
                    try:
                        sr.close()
                    except Exception:  # noqa
                        pass
            elif op == "compress":
                if not w.has_bin():
                    continue
                _enumerate_compress_faults(w, o, step)
                before = (w.has_cbin(), _sha(w.cbin) if w.has_cbin() else None, _sha(w.bin))
                fk = o["fault"]
                k = (o["k"] % int(np.ceil(w.ns / (o.get("chunk") or case["chunk"])))) if fk == "chunk" else 0
                res = _do_compress(w, o, fault_at=k if fk else None, fault_kind=fk)
                if res == "crash":
                    return
                if res == "fault":
                    _check_after_compress_fault(w, before, f"step {step} compress fault")
                else:
                    ctx.check(w.has_cbin() and w.ch.exists(), "C02.no_cbin", "compress_file returned but no .cbin/.ch pair exists")
                    w.cur_chunk = o.get("chunk") or case["chunk"]
                    ctx.check(w.has_bin() == bool(o["keep"]), "C02.keep_original", lambda: f"keep_original={o['keep']} but bin exists={w.has_bin()}")
                    ctx.check(not w.bin.with_suffix(".cbin_tmp").exists(), "C02.tmp_left", "temporary file left behind")
                    if w.has_bin() and w.has_cbin():
                        a, b = w.reader(w.bin), w.reader(w.cbin)
                        if a is ctx.CRASH or b is ctx.CRASH:
                            return
                        try:
                            w.compare_reads(b, f"step {step} cbin after compress")
                            w.compare_reads(a, f"step {step} bin after compress", boundary=False)
                        finally:
                            a.close()
                            b.close()
            elif op == "decompress":
                if not w.has_cbin():
                    continue
                sr = w.reader(w.cbin)
                if sr is ctx.CRASH:
                    return
                had_bin = w.has_bin()
                fk = o["fault"]
                cnt = faults.Counter(fail_at=(o["k"] % int(np.ceil(w.ns / w.cur_chunk))) if fk else None)
                targets = [(mtscomp.Reader, "_decompress_chunk", "decompress_chunk", "before")] if fk else []
                csha, chsha = _sha(w.cbin), _sha(w.ch)
                try:
                    with faults.patched(cnt, targets):
                        r = ctx.call("C02.decompress_file", sr.decompress_file, keep_original=o["keep"], overwrite=o["overwrite"],
                                     expect=(faults.InjectedFault, ValueError) if (had_bin and not o["overwrite"]) else (faults.InjectedFault,))
                    if o.get("reuse") and not fk and r is not ctx.CRASH and not isinstance(r, BaseException) and not cnt.fired:
                        _same_reader_continues(w, sr, o, "decompress_file", w.bin)
                finally:
                    try:
                        sr.close()
                    except Exception:  # noqa
                        pass
                if r is ctx.CRASH:
                    return
                if isinstance(r, ValueError):
                    ctx.label("decompress_refused_existing")
                    ctx.check(w.has_cbin() and _sha(w.cbin) == csha and w.has_bin(), "C02.source_touched", "refused decompression modified files")
                    if w.partial_bin:
                        ctx.label("retry_over_partial_refused")
                elif isinstance(r, faults.InjectedFault) or cnt.fired:
                    ctx.label("fault_decompress_inplace")
                    w.faulted = True
                    ctx.check(w.has_cbin() and w.ch.exists() and _sha(w.cbin) == csha and _sha(w.ch) == chsha, "C02.source_removed_early",
                              "in-place decompression failed part-way but the compressed source is gone or modified")
                    if w.has_bin() and _sha(w.bin) != w.sha:
                        w.partial_bin = True  # allowed to exist (only the source matters here); see the top of the loop
                else:
                    w.partial_bin = False
                    ctx.check(w.has_bin() and _sha(w.bin) == w.sha, "C02.roundtrip_bytes", "decompress_file returned normally but the .bin is not the "
                              "complete original (e.g. an incomplete leftover of an earlier failed decompression accepted as the result)")
                    ctx.check((w.has_cbin() and w.ch.exists()) == bool(o["keep"]), "C02.keep_original",
                              lambda: f"decompress keep_original={o['keep']} but cbin exists={w.has_cbin()}")
                    ctx.label("roundtrip")
            elif op == "scratch":
                if not w.has_cbin():
                    continue
                _enumerate_scratch_faults(w, o, step)
                fk = o["fault"]
                stale_tmp = {p.name for p in list(w.d.glob("*.bin_temp")) + list((w.d / "scratch").glob("*.bin_temp"))}
                res, target = _do_scratch(w, o, fault_at=(o["k"] % int(np.ceil(w.ns / w.cur_chunk))) if fk else None)
                if res == "crash":
                    return
                if res == "fault":
                    if (o["dir"] and not w.flat) or not w.has_bin():
                        ctx.check(not target.exists(), "C02.scratch_partial",
                                  lambda: f"{target.name} exists after a failed scratch decompression")
                else:
                    ctx.check(target.exists() and _sha(target) == w.sha, "C02.scratch_bytes", "scratch file is not the original bytes")
                    if o["dir"] and not w.flat:
                        ctx.check(target.parent == w.d / "scratch" and target.with_suffix(".meta").exists(), "C02.scratch_meta", "metadata not copied next to the scratch file")
                    # a temporary file left by an earlier *failed* run is allowed to stay (only final names matter); a
                    # successful decompression must not leave a new one
                    ctx.check(target.with_suffix(".bin_temp").name in stale_tmp or not target.with_suffix(".bin_temp").exists(),
                              "C02.tmp_left", "temporary scratch file left behind by a successful decompression")
                    ctx.label("scratch_ok")
                shutil.rmtree(w.d / "scratch", ignore_errors=True)
            if ctx.findings:
                return  # the model is out of sync with the directory from here on
            w.recoverable(f"step {step} {op}")
            if not w.partial_bin:
                w.final_names_complete(f"step {step} {op}")
            if ctx.findings:
                return
        if w.nchunks >= 3 and w.ns % case["chunk"] and (w.boundary_compared or w.faulted):
            ctx.nontrivial = True
