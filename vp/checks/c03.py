"""C03 - NP2.4 shank splitting is lossless and reconstruction is its exact inverse."""
import numpy as np
from hypothesis import strategies as st

from vp import sut
from vp.gens import meta as gm, recording as rec, np2

ID = "C03"
LEVEL = "exploration"
RULE = ("(values, enumerated) every int16 value (all 65536, laid out over 16 AP channels x 4096 samples so that each "
        "value passes through the real process() path) x every full-scale/max-int pair SpikeGLX writes for NP2 "
        "(0.5/8192, 0.62/2048, 0.62/8192, 0.6/512) x processing windows {1200, 2400, 60000}, post_check off. (structure, "
        "Hypothesis) 4..384 AP channels assigned to 1..4 shanks (interleaved, banks, random, one-channel shanks, absent "
        "shanks), ns 600..20000 not aligned with the window (one small-channel case in six: 60000..180000 samples, i.e. longer than the reconstructor's own fixed 60000-sample window, with a short or a full last window), windows that are multiples of 12 from 1200, content seed "
        "over the full int16 range, drawn range/max-int (also non-SpikeGLX pairs), compress on/off, bin/cbin input, "
        "post_check on/off, optionally a second split by the same converter object (forced over the first output, or into new folders via extra=) with another window. Oracle: bytes of each probe00<s>/*.ap.bin == D[:, r_[channels of shank s, sync]]; "
        "NP2Reconstructor output == D byte for byte; reconstructed metadata == original field for field except "
        "original_meta. Non-trivial = (range,maxint) != (0.5, 8192) or >= 2 shanks interleaved, with ns not a multiple "
        "of the stride. Distinct = case hash.")
EXHAUSTIVE_NOTE = "all 65536 int16 values x the 4 SpikeGLX NP2 range/max-int pairs x 3 window sizes are enumerated"
ASSUMPTIONS = ["small-channel NP2.4 recordings (acquired == saved channels) stand in for 384-channel ones: the converter "
               "depends on the metadata only (384-channel cases are also generated)"]
BUDGET = {"quick": 480, "thorough": 15000}
SHRINK = {"quick": False, "thorough": True}
PAIRS = [(0.5, 8192), (0.62, 2048), (0.62, 8192), (0.6, 512)]


def _values_spec(rng_, maxint):
    return {"gen": "NP2.4", "prb_type": 24, "stream": "ap", "n": 16, "n_acq": 16, "shanks": [0, 1, 2, 3], "pattern": "interleaved",
            "site_seed": 7, "enc": "shank", "tilde": True, "range": rng_, "maxint": maxint, "fs": 30000.0, "nsync": 1, "ns": 4096}


def enum_shards(tier):
    return [{"pair": list(p), "window": w} for p in PAIRS for w in (1200, 2400, 60000)]


def enum_cases(desc):
    yield {"mode": "values", "pair": desc["pair"], "window": desc["window"]}


@st.composite
def _structure(draw):
    spec = draw(gm.st_spec(gens=("NP2.4",), n_choices=(4, 5, 8, 16, 33, 64, 384), allow_lf=False,
                           patterns=("interleaved", "random", "banks", "dense"), ns_range=(600, 600)))
    spec["n_acq"] = spec["n"]
    spec["nsync"] = 1
    # the calibrated sampling rate of the probe (imSampRate) is what st_spec drew: 30000 or a measured value next to it
    if draw(st.integers(0, 3)) == 0:
        spec["range"], spec["maxint"] = draw(st.sampled_from([(0.61, 4096), (0.5, 2048), (1.0, 32768), (0.7, 8192)]))
    big = spec["n"] == 384
    window = 12 * draw(st.integers(100, 400 if big else 1700))
    stride = window - 576
    k = draw(st.integers(0, 3 if big else 8))
    # length of the last window: anywhere, or on the constants the converter compares with (taper 144, 2 x taper 288,
    # overlap 576, a full window) and their neighbours
    last = draw(st.one_of(st.integers(1, window), st.sampled_from([1, 2, 143, 144, 145, 287, 288, 289, 575, 576, 577, window - 1, window])))
    ns = max(600, k * stride + last)
    ns = min(ns, 6000 if big else 20000)
    if not big and spec["n"] <= 16 and draw(st.integers(0, 5)) == 0:
        # longer than the reconstructor's own fixed 2 s (60000-sample) window, ending in a short or a full last window
        ns = 60000 * draw(st.sampled_from([1, 1, 2])) + draw(st.sampled_from([0, 1, 11, 12, 577, 30000, 59999]))
        window = 12 * draw(st.sampled_from([2500, 5000, 1700]))
    spec["ns"] = ns
    return {"debug_log": draw(st.sampled_from([False, False, False, True])), "mode": "structure", "spec": spec, "window": window, "content_seed": draw(st.integers(0, 2 ** 31)),
            "content_mode": draw(st.sampled_from(["full", "full", "smooth"])), "compress": draw(st.booleans()),
            "cbin_in": draw(st.booleans()), "post_check": draw(st.booleans()), "recon_compress": draw(st.booleans()),
            # a second split by the SAME converter object: forced over the first output, or into new folders (extra=...)
            "rerun": draw(st.sampled_from([None, None, "overwrite", "extra"])),
            "window2": 12 * draw(st.integers(100, 400 if big else 1700)), "stem": draw(st.sampled_from(np2.STEMS))}


def strategy(tier):
    return _structure()


def _meta_equal(a, b, ignore=("original_meta",)):
    ka, kb = set(a) - set(ignore), set(b) - set(ignore)
    if ka != kb:
        return False, f"key sets differ: only-original={sorted(ka - kb)[:5]} only-reconstructed={sorted(kb - ka)[:5]}"
    for k in sorted(ka):
        if a[k] != b[k]:
            return False, f"field {k}: original {str(a[k])[:80]!r} reconstructed {str(b[k])[:80]!r}"
    return True, ""


def run_case(case, ctx):
    if case.get("debug_log"):
        # process state: logging switched on at DEBUG level (logging.basicConfig(level=logging.DEBUG) in the calling script)
        from vp.core import debug_logging
        ctx.label("debug_logging_on")
        with debug_logging():
            return _run_case(case, ctx)
    return _run_case(case, ctx)


def _run_case(case, ctx):
    sg, npx = sut.spikeglx(), sut.neuropixel()
    if case["mode"] == "values":
        spec = _values_spec(*case["pair"])
        vals = np.arange(-32768, 32768, dtype=np.int64)
        perm = np.random.default_rng(123).permutation(65536)
        D = np.zeros((4096, 17), dtype=np.int16)
        D[:, :16] = vals[perm].reshape(4096, 16).astype(np.int16)
        D[:, 16] = np.random.default_rng(5).integers(0, 65536, 4096).astype(np.uint16).view(np.int16)
        opts = dict(window=case["window"], compress=False, cbin_in=False, post_check=False, recon_compress=False)
        ctx.label("values", f"pair_{case['pair'][0]}_{case['pair'][1]}", f"window_{case['window']}")
        ctx.stat("values_covered", 65536)
    else:
        spec = case["spec"]
        nc = gm.n_channels(spec)
        D = rec.make_data(spec["ns"], nc, case["content_seed"], case["content_mode"], nsync=1)
        opts = case
        if spec["ns"] > 60000:
            ctx.label("longer_than_reconstructor_window", "recon_last_window_" + ("full" if spec["ns"] % 60000 == 0 else "short"))
        ctx.label("structure", "n%d" % spec["n"], "pat_" + spec["pattern"], "compress" if case["compress"] else "nocompress",
                  "cbin_in" if case["cbin_in"] else "bin_in", "post_check" if case["post_check"] else "no_post_check")
    nc = gm.n_channels(spec)
    nap = spec["n"]
    shank = np2.shank_of_channels(spec)
    shanks = sorted(set(shank.tolist()))
    window = opts["window"]
    stride = window - 576
    interleaved = len(shanks) >= 2 and np.any(np.diff(shank) < 0)
    if ((spec["range"], spec["maxint"]) != (0.5, 8192) or interleaved) and (spec["ns"] % stride):
        ctx.nontrivial = True
    if interleaved:
        ctx.label("interleaved_shanks")
    ctx.label("shanks_%d" % len(shanks), "windows_%s" % ("1" if spec["ns"] <= window else "2+"))
    with rec.scratch_dir(ctx) as root:
        ap = np2.make_session(root, spec, D, cbin=opts["cbin_in"], chunk=2000, stem=case.get("stem"))
        orig_meta = ctx.call("C03.read_meta", sg.read_meta_data, ap.with_suffix(".meta"))
        if orig_meta is ctx.CRASH:
            return
        conv = ctx.call("C03.converter", npx.NP2Converter, ap, post_check=opts["post_check"], compress=opts["compress"])
        if conv is ctx.CRASH:
            return
        r = ctx.call("C03.init_params", conv.init_params, nwindow=window)
        if r is ctx.CRASH:
            return
        try:
            status = ctx.call("C03.process", conv.process)
            if status is ctx.CRASH:
                return
            if not ctx.check(status == 1, "C03.status", lambda: f"process() returned {status}"):
                return
            if not _verify_split(ctx, sg, root, D, shank, shanks, nap, opts, ""):
                return
            rerun = opts.get("rerun")
            if rerun:
                ctx.label("rerun_same_converter_" + rerun)
                extra = "_b" if rerun == "extra" else ""
                r = ctx.call("C03.init_params", conv.init_params, nwindow=opts["window2"], extra=extra)
                if r is ctx.CRASH:
                    return
                status = ctx.call("C03.process_again", conv.process, overwrite=(rerun == "overwrite"))
                if status is ctx.CRASH:
                    return
                if not ctx.check(status == 1, "C03.status", lambda: f"second process() of the same converter returned {status}"):
                    return
                if not _verify_split(ctx, sg, root, D, shank, shanks, nap, opts, extra):
                    return
                if extra:
                    import shutil
                    for f in np2.shank_folders(root, extra=extra):
                        shutil.rmtree(f)
        finally:
            try:
                conv.sr.close()
            except Exception:  # noqa
                pass
        if np2.has_uuid(case.get("stem")):
            # the reconstructor looks for "*ap.meta" / "*ap.*bin": registered (UUID-tagged) names are outside what it accepts
            ctx.label("uuid_name_split_only")
            return
        # ---- reconstruction: remove the original first (the reconstructor writes to the same place)
        for p in ap.parent.iterdir():
            p.unlink()
        recon = ctx.call("C03.reconstructor", npx.NP2Reconstructor, root, "probe00", compress=opts["recon_compress"])
        if recon is ctx.CRASH:
            return
        st_ = ctx.call("C03.reconstruct", recon.process)
        if st_ is ctx.CRASH:
            return
        out = np2.find_data(root / "probe00", "ap")
        if not ctx.check(st_ == 1 and out is not None, "C03.recon_status", lambda: f"reconstruction status {st_}, file {out}"):
            return
        got = np2.read_raw(out, nc)
        ctx.check(got.shape == D.shape and np.array_equal(got, D), "C03.recon_bytes",
                  lambda: f"reconstructed binary differs from the original ({_diff(got, D)})")
        rm = ctx.call("C03.read_recon_meta", sg.read_meta_data, out.with_suffix(".meta"))
        if rm is not ctx.CRASH:
            ok, why = _meta_equal(dict(orig_meta), dict(rm))
            ctx.check(ok, "C03.recon_meta", lambda: "reconstructed metadata differs: " + why)
            ctx.check(rm.get("original_meta") in ("False", False), "C03.provenance_flag", lambda: f"original_meta = {rm.get('original_meta')!r}")


def _verify_split(ctx, sg, root, D, shank, shanks, nap, opts, extra):
    """Every shank folder <label><a..d><extra> holds exactly the original columns of its shank followed by sync, and opens."""
    folders = np2.shank_folders(root, extra=extra)
    if not ctx.check([f.name for f in folders] == ["probe00" + chr(97 + s) + extra for s in shanks], "C03.folders",
                     lambda: f"shank folders {[f.name for f in folders]} for shanks {shanks}"):
        return False
    for s, fold in zip(shanks, folders):
        f = np2.find_data(fold, "ap")
        if not ctx.check(f is not None and (f.suffix == ".cbin") == bool(opts["compress"]), "C03.ap_file", lambda: f"ap file of shank {s}: {f}"):
            return False
        cols = np.r_[np.flatnonzero(shank == s), nap]
        exp = D[:, cols]
        got = np2.read_raw(f, len(cols))
        if not ctx.check(got.shape == exp.shape and np.array_equal(got, exp), "C03.split_bytes",
                         lambda: f"shank {s}: split AP file differs from the original columns ({_diff(got, exp)})"):
            return False
        # the shank file opens through the reader with a matching shape
        srs = ctx.call("C03.open_shank", sg.Reader, f, sort=False)
        if srs is ctx.CRASH:
            return False
        ctx.check(srs.shape == exp.shape, "C03.shank_shape", lambda: f"shank {s} reader shape {srs.shape} != {exp.shape}")
        srs.close()
    return True


def _diff(got, exp):
    if got.shape != exp.shape:
        return f"shape {got.shape} vs {exp.shape}"
    bad = np.argwhere(got != exp)
    i, j = bad[0]
    return f"{len(bad)} samples differ, first at sample {i} column {j}: {got[i, j]} vs {exp[i, j]}"
