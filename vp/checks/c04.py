"""C04 - Conversion never loses the original and is idempotent over run histories."""
import hashlib
from pathlib import Path

import numpy as np
from hypothesis import strategies as st

from vp import sut, faults
from vp.gens import meta as gm, recording as rec, np2

ID = "C04"
LEVEL = "fault_enumeration"
RULE = ("A history is a list of up to 6 NP2Converter.process(overwrite) runs, each with a fresh converter or (one run in three) on the converter object of the previous run, options "
        "{post_check, compress, delete_original} in {F,T}^3 and optionally a crash (BaseException) raised at the k-th "
        "instrumented event: every Reader.read, _split2shanks per window and stream, _closefiles, write_meta_data per file, "
        "check_NP24 entry, mtscomp.compress before/after per file and before every compression batch inside it (output file open, partly written), Path.rename, Path.unlink, and after every Path.mkdir (shank folder creation). Initial state: NP2.4 "
        "multi-shank / NP2.4 single shank / NP2.1 / NP1 / already split shank file x bin / cbin. (enumerated) for 8 base "
        "configurations EVERY crash point k of the first run is enumerated (event count measured by a dry run) and followed "
        "by a non-overwrite retry and an overwrite retry. (Hypothesis) random histories with random options and crash "
        "points. Oracle = model + invariants after every run: I1 the original AP bytes are recoverable (original bin, or "
        "cbin+ch decompressing to it, or complete per-shank files that the harness reassembles to it, and then only if the "
        "deleting run had verification and deletion enabled); I2 a non-overwrite run on existing output returns 0 and leaves "
        "the directory snapshot (names, sizes, SHA-1) unchanged; I3 an uninterrupted overwrite (or first) run returns 1 and "
        "leaves a complete valid file set for every shank; I4 NP1 -> -1, already split -> 0, nothing changes. Non-trivial = "
        "a history with an interruption followed by a retry, or an overwrite on a fresh/partial directory, or "
        "delete_original without verification. Additionally a fault can be injected between splitting and verification (one "
        "sample of a shank file altered on disk): the run must abort and keep the original. Distinct = case hash.")
EXHAUSTIVE_NOTE = "for the 9 base configurations every crash point of the first run is enumerated; random histories are sampled"
ASSUMPTIONS = ["a crash is a BaseException raised at an instrumented call in the harness process; open handles are then closed "
               "(flushed) by the harness: a power cut tearing unflushed buffers is not modelled",
               "interruptions are injected at calls (before/after), not between two bytecodes inside one un-instrumented call"]
BUDGET = {"quick": 800, "thorough": 40000}
SHRINK = {"quick": False, "thorough": True}
WINDOW = 1200


def _np24(n, shanks, pattern, ns, seed=3, rng_=0.62, maxint=2048):
    return {"gen": "NP2.4", "prb_type": 24, "stream": "ap", "n": n, "n_acq": n, "shanks": shanks, "pattern": pattern,
            "site_seed": seed, "enc": "shank", "tilde": True, "range": rng_, "maxint": maxint, "fs": 30000.0, "nsync": 1, "ns": ns}


def _np21(n, ns):
    return {"gen": "NP2.1", "prb_type": 21, "stream": "ap", "n": n, "n_acq": n, "pattern": "dense", "site_seed": 1, "enc": "shank",
            "tilde": True, "range": 0.5, "maxint": 8192, "fs": 30000.0, "nsync": 1, "ns": ns}


def _run(overwrite=False, post_check=True, compress=True, delete_original=False, crash=None):
    return {"overwrite": overwrite, "post_check": post_check, "compress": compress, "delete_original": delete_original, "crash": crash}


BASES = [
    {"name": "np24_3shank_default", "spec": _np24(12, [0, 1, 3], "interleaved", 2100), "cbin": False, "first": _run()},
    {"name": "np24_delete", "spec": _np24(12, [0, 2], "interleaved", 2100), "cbin": False, "first": _run(delete_original=True)},
    {"name": "np24_cbin_nocompress", "spec": _np24(8, [1, 2, 3], "random", 2500), "cbin": True, "first": _run(compress=False)},
    {"name": "np21", "spec": _np21(8, 2100), "cbin": False, "first": _run()},
    {"name": "np24_1shank_delete_nocheck", "spec": _np24(8, [2], "random", 2100), "cbin": False,
     "first": _run(post_check=False, delete_original=True)},
    {"name": "np24_overwrite_existing", "spec": _np24(8, [0, 1], "interleaved", 2100), "cbin": False, "pre": [_run()],
     "first": _run(overwrite=True)},
    {"name": "np24_overwrite_fresh", "spec": _np24(8, [0, 3], "interleaved", 2100), "cbin": False, "first": _run(overwrite=True)},
    {"name": "np24_corrupt_before_verify", "spec": _np24(8, [0, 1], "interleaved", 3100), "cbin": False,
     "first": dict(_run(delete_original=True), corrupt={"shank": 1, "pos": 0.9, "col": 2})},
    {"name": "np21_cbin_overwrite", "spec": _np21(8, 2100), "cbin": True, "pre": [_run()], "first": _run(overwrite=True)},
]


NPART = 4


def enum_shards(tier):
    return [{"base": i, "part": j} for i in range(len(BASES)) for j in range(NPART)]


def enum_cases(desc):
    b = BASES[desc["base"]]
    n = _count_events(b)
    for k in range(desc["part"], n, NPART):
        first = dict(b["first"], crash=k)
        yield {"mode": "base", "name": b["name"], "spec": b["spec"], "cbin": b["cbin"], "kind": "np2", "content_seed": 11,
               "runs": list(b.get("pre", [])) + [first, _run(overwrite=False, compress=b["first"]["compress"]),
                                                # every other overwrite retry re-uses the converter object of the run before
                                                dict(_run(overwrite=True, compress=b["first"]["compress"]),
                                                     same_object=(k % 2 == 0), reinit=(k % 4 == 0))]}


def _count_events(b):
    """Dry run of the base history with counting only (no crash) - gives the number of crash points of the first run."""
    from vp.core import Ctx
    import tempfile, shutil
    ctx = Ctx()
    root = Path(tempfile.mkdtemp(prefix="vp_c04_", dir="/dev/shm"))
    try:
        w = World({"spec": b["spec"], "cbin": b["cbin"], "kind": "np2", "content_seed": 11}, ctx, root)
        for r in b.get("pre", []):
            w.run(r)
        out = w.run(dict(b["first"], crash=None))
        return out["events"]
    finally:
        w.drop_prev()
        shutil.rmtree(root, ignore_errors=True)


@st.composite
def _history(draw):
    kind = draw(st.sampled_from(["np2", "np2", "np2", "np2", "np1", "split"]))
    ns = draw(st.integers(1300, 3200))
    if kind == "np1":
        spec = draw(gm.st_spec(gens=("3B2", "3A"), n_choices=(8,), allow_lf=False, ns_range=(ns, ns), patterns=("dense",)))
        spec["n_acq"] = 8
        spec["nsync"] = 1
    else:
        g = draw(st.sampled_from(["NP2.4", "NP2.4", "NP2.1"])) if kind == "np2" else "NP2.4"
        spec = draw(gm.st_spec(gens=(g,), n_choices=(6, 8, 12, 16), allow_lf=False, ns_range=(ns, ns),
                               patterns=("interleaved", "random", "dense") if g == "NP2.4" else ("dense", "random")))
        spec["n_acq"] = spec["n"]
        spec["nsync"] = 1
        pass  # the calibrated sampling rate drawn by st_spec is kept (30000 or a measured value next to it)
    runs = []
    for _ in range(draw(st.integers(1, 6))):
        runs.append(_run(overwrite=draw(st.booleans()), post_check=draw(st.booleans()), compress=draw(st.booleans()),
                         delete_original=draw(st.sampled_from([False, False, True])),
                         crash=draw(st.one_of(st.none(), st.integers(0, 70)))))
        if runs[:-1] and draw(st.integers(0, 2)) == 0:
            # process() is called again on the converter object of the previous run (its options apply), optionally after
            # init_params() has been called again
            runs[-1]["same_object"] = True
            runs[-1]["reinit"] = draw(st.booleans())
        if draw(st.integers(0, 4)) == 0:
            runs[-1]["corrupt"] = {"shank": draw(st.integers(0, 3)), "pos": draw(st.sampled_from([0.0, 0.3, 0.55, 0.8, 0.999])),
                                   "col": draw(st.integers(0, 15))}
    return {"debug_log": draw(st.sampled_from([False, False, False, True])), "mode": "history", "spec": spec, "cbin": draw(st.booleans()), "kind": kind, "content_seed": draw(st.integers(0, 2 ** 31)),
            "runs": runs, "stem": draw(st.sampled_from(np2.STEMS))}


def strategy(tier):
    return _history()


def _sha(p):
    return hashlib.sha1(Path(p).read_bytes()).hexdigest()


class World:
    def __init__(self, case, ctx, root):
        self.ctx, self.root, self.case = ctx, Path(root), case
        spec = case["spec"]
        self.spec = spec
        self.kind = case["kind"]
        self.nc, self.nap, self.ns = gm.n_channels(spec), spec["n"], spec["ns"]
        self.D = rec.make_data(self.ns, self.nc, case["content_seed"], "full", nsync=1)
        self.gen = spec["gen"]
        meta_text = None
        if self.kind == "split":
            # an AP file that is already one shank of a split recording
            meta_text = gm.build_text(spec) + "NP2.4_shank=0\nsnsSaveChanSubset_orig=0:%d\noriginal_meta=False\n" % self.nap
        folder = self.root / "probe00"
        self.stem = case.get("stem") or np2.STEM
        if self.stem != np2.STEM:
            ctx.label("run_name_" + self.stem.split("_g")[0])
        binf = rec.write_recording(folder, spec, self.D, stem=self.stem, meta_text=meta_text)
        self.bin = binf
        self.cbin = binf.with_suffix(".cbin")
        if case["cbin"]:
            rec.compress(binf, self.nc, spec["fs"], 700, keep_bin=False)
        self.shank = np2.shank_of_channels(spec) if self.gen in ("NP2.4", "NP2.1") else np.zeros(self.nap, int)
        self.shanks = sorted(set(self.shank.tolist()))
        self.original_deleted_legitimately = False
        self.prev = None  # (converter object, options) of the last uninterrupted run, kept for "same_object" runs

    def drop_prev(self):
        if self.prev is not None:
            self._release(self.prev[0])
            self.prev = None

    # ---- disk inspection -----------------------------------------------------------------------
    def ap_path(self):
        return self.bin if self.bin.exists() else (self.cbin if self.cbin.exists() else None)

    def snapshot(self):
        out = {}
        for p in sorted(self.root.rglob("*")):
            if p.is_file():
                out[str(p.relative_to(self.root))] = (p.stat().st_size, _sha(p))
            else:
                out[str(p.relative_to(self.root)) + "/"] = None
        return out

    def original_on_disk(self):
        if self.bin.exists() and self.bin.read_bytes() == self.D.tobytes():
            return True
        if self.cbin.exists() and self.cbin.with_suffix(".ch").exists():
            try:
                return np.array_equal(np2.read_raw(self.cbin, self.nc), self.D)
            except Exception:  # noqa
                return False
        return False

    def shank_folder(self, s):
        return self.root / ("probe00" + chr(97 + int(s)))

    def shank_ap_ok(self, s, want_suffix=None):
        """The shank's AP file is complete and holds the original columns."""
        fold = self.shank_folder(s)
        cols = np.r_[np.flatnonzero(self.shank == s), self.nap]
        for suf in ([want_suffix] if want_suffix else [".bin", ".cbin"]):
            f = fold / (self.stem + suf)
            if not f.exists():
                continue
            try:
                got = np2.read_raw(f, len(cols))
            except Exception:  # noqa
                continue
            if getattr(got, "shape", None) == (self.ns, len(cols)) and np.array_equal(got, self.D[:, cols]):
                return True
        return False

    def reassembles(self):
        return self.gen == "NP2.4" and all(self.shank_ap_ok(s) for s in self.shanks)

    @staticmethod
    def lf_files(fold, suf=".*bin"):
        """LF-band binaries in a folder, whatever the run name: <anything>.lf.bin / .lf.cbin"""
        want = (".bin", ".cbin") if suf == ".*bin" else (suf,)
        return sorted(p for p in Path(fold).glob("*.lf.*") if p.suffix in want)

    def lf_path(self, fold, suf):
        c = self.lf_files(fold, suf)
        return c[0] if len(c) == 1 else Path(fold) / ("<%d files named *.lf%s>" % (len(c), suf))

    def output_exists(self):
        if self.gen == "NP2.4":
            return any(self.shank_folder(s).exists() for s in self.shanks)
        if self.gen == "NP2.1":
            return bool(self.lf_files(self.root / "probe00"))
        return False

    # ---- one run ---------------------------------------------------------------------------------
    def run(self, r):
        """Returns dict(status, crashed, events, error)."""
        import mtscomp
        sg, npx = sut.spikeglx(), sut.neuropixel()
        ctx = self.ctx
        ap = self.ap_path()
        out = {"status": None, "crashed": False, "events": 0, "skipped": False}
        if ap is None:
            out["skipped"] = True
            return out
        if r.get("same_object") and self.prev is not None and Path(self.prev[0].ap_file) == ap:
            conv, r0 = self.prev
            self.prev = None
            r = dict(r0, overwrite=r["overwrite"], crash=r["crash"], corrupt=r.get("corrupt"), same_object=True, reinit=r.get("reinit"))
            ctx.label("same_converter_object")
            if r.get("reinit"):
                if ctx.call("C04.init_params", conv.init_params, nwindow=WINDOW) is ctx.CRASH:
                    out["error"] = True
                    return out
        else:
            self.drop_prev()
            r = dict(r, same_object=False)
            conv = ctx.call("C04.construct", npx.NP2Converter, ap, post_check=r["post_check"], delete_original=r["delete_original"],
                            compress=r["compress"])
            if conv is ctx.CRASH:
                out["error"] = True
                return out
            conv.init_params(nwindow=WINDOW)
        out["effective"] = r
        cnt = faults.Counter(fail_at=r["crash"], exc=faults.Crash)
        targets = [(sg.Reader, "read", "read", "before"), (npx.NP2Converter, "_split2shanks", "split", "before"),
                   (npx.NP2Converter, "_closefiles", "close", "before"), (sg, "write_meta_data", "meta", "before"),
                   (npx.NP2Converter, "check_NP24", "verify", "before"), (mtscomp, "compress", "compress_begin", "before"),
                   (mtscomp.Writer, "compress_batch", "compress_batch", "before"), (mtscomp, "compress", "compress_end", "after"), (Path, "rename", "rename", "before"), (Path, "unlink", "unlink", "before"), (Path, "mkdir", "mkdir", "after")]
        orig_check = npx.NP2Converter.check_NP24
        if r.get("corrupt"):
            world = self

            def corrupting_check(conv_self):
                out["corrupted"] = world._corrupt(conv_self, r["corrupt"])
                return orig_check(conv_self)
            npx.NP2Converter.check_NP24 = corrupting_check
        try:
            with faults.patched(cnt, targets):
                out["status"] = ctx.call("C04.process", conv.process, overwrite=r["overwrite"],
                                         expect=(AssertionError,) if r.get("corrupt") else ())
        except faults.Crash:
            out["crashed"] = True
        finally:
            npx.NP2Converter.check_NP24 = orig_check
            if out["crashed"] or out["status"] is ctx.CRASH or isinstance(out["status"], BaseException):
                self._release(conv)  # the process died / the run raised: the object is not used again
            else:
                self.prev = (conv, r)
        if isinstance(out["status"], AssertionError):
            out["refused"] = True
        out["events"] = cnt.n
        out["log"] = cnt.log
        if out["status"] is ctx.CRASH:
            out["error"] = True
        return out

    def _corrupt(self, conv, c):
        """Fault injection between splitting and verification: one sample of one shank's AP file is altered on disk."""
        keys = sorted(conv.shank_info.keys())
        info = conv.shank_info[keys[c["shank"] % len(keys)]]
        f = Path(info["ap_file"])
        ncl = len(info["chns"])
        a = np.fromfile(f, dtype=np.int16).reshape(-1, ncl)
        i = min(a.shape[0] - 1, int(c["pos"] * a.shape[0]))
        j = c["col"] % (ncl - 1)
        a[i, j] = np.int16(int(a[i, j]) ^ 0x10)
        a.tofile(f)
        return [str(f), i, j]

    @staticmethod
    def _release(conv):
        """What the OS does when the process dies / what garbage collection does: close every open handle."""
        for obj in [getattr(conv, "sr", None)]:
            try:
                obj.close()
            except Exception:  # noqa
                pass
        for info in (getattr(conv, "shank_info", None) or {}).values():
            for v in list(info.values()):
                if hasattr(v, "close"):
                    try:
                        v.close()
                    except Exception:  # noqa
                        pass

    # ---- invariants ---------------------------------------------------------------------------------
    def check_complete_output(self, r, where):
        ctx, sg = self.ctx, sut.spikeglx()
        nlf = -(-self.ns // 12)
        if self.gen == "NP2.4":
            for s in self.shanks:
                fold = self.shank_folder(s)
                suf = ".cbin" if r["compress"] else ".bin"
                if not ctx.check(self.shank_ap_ok(s, suf), "C04.incomplete_output",
                                 lambda: f"{where}: shank {s} has no complete AP{suf} equal to the original columns; "
                                 f"folder holds {sorted(p.name for p in fold.iterdir()) if fold.exists() else None}"):
                    return
                apf = fold / (self.stem + suf)
                lff = self.lf_path(fold, suf)
                ncl = int(np.sum(self.shank == s)) + 1
                for f, shape in ((apf, (self.ns, ncl)), (lff, (nlf, ncl))):
                    if not ctx.check(f.exists() and f.with_suffix(".meta").exists(), "C04.incomplete_output", lambda: f"{where}: {f.name} or its metadata missing in {fold.name}"):
                        return
                    sr = ctx.call("C04.open_output", sg.Reader, f, sort=False)
                    if sr is ctx.CRASH:
                        return
                    try:
                        ctx.check(sr.shape == shape, "C04.invalid_output", lambda: f"{where}: {fold.name}/{f.name} opens with shape {sr.shape}, content is {shape}")
                    finally:
                        sr.close()
                if r["compress"]:
                    ctx.check(not apf.with_suffix(".bin").exists() and not lff.with_suffix(".bin").exists(), "C04.leftover_bin",
                              lambda: f"{where}: uncompressed files left next to the compressed ones in {fold.name}")
        elif self.gen == "NP2.1":
            fold = self.root / "probe00"
            suf = ".cbin" if r["compress"] else ".bin"
            lff = self.lf_path(fold, suf)
            if not ctx.check(lff.exists() and lff.with_suffix(".meta").exists(), "C04.incomplete_output", lambda: f"{where}: NP2.1 LF file {lff.name} missing"):
                return
            sr = ctx.call("C04.open_output", sg.Reader, lff, sort=False)
            if sr is not ctx.CRASH:
                try:
                    ctx.check(sr.shape == (nlf, self.nc), "C04.invalid_output", lambda: f"{where}: LF opens with shape {sr.shape}, expected {(nlf, self.nc)}")
                finally:
                    sr.close()


def run_case(case, ctx):
    if case.get("debug_log"):
        # process state: logging switched on at DEBUG level (logging.basicConfig(level=logging.DEBUG) in the calling script)
        from vp.core import debug_logging
        ctx.label("debug_logging_on")
        with debug_logging():
            return _run_case(case, ctx)
    return _run_case(case, ctx)


def _run_case(case, ctx):
    with rec.scratch_dir(ctx) as root:
        w = World(case, ctx, root)
        try:
            _run_history(case, ctx, w)
        finally:
            w.drop_prev()


def _run_history(case, ctx, w):
    if True:
        gen = w.gen
        ctx.label("kind_" + case["kind"], gen, "cbin_in" if case["cbin"] else "bin_in", case.get("name", "random_history"))
        interrupted_before = False
        for i, r in enumerate(case["runs"]):
            where = f"run {i} {({k: v for k, v in r.items()})}"
            before = w.snapshot()
            had_output = w.output_exists()
            fresh_or_partial = (not had_output) or interrupted_before
            res = w.run(r)
            r = res.get("effective", r)
            if res.get("skipped"):
                ctx.label("skipped_no_original")
                continue
            if res.get("error"):
                if r["overwrite"] and fresh_or_partial:
                    ctx.label("overwrite_on_fresh_or_partial")
                # the run died with an exception of its own (already reported): the original must have survived that too
                if not w.original_on_disk():
                    ctx.check(w.reassembles() and w.original_deleted_legitimately, "C04.original_lost",
                              lambda: f"{where}: the run raised and the original is gone; files: "
                              f"{sorted(str(p.relative_to(w.root)) for p in w.root.rglob('*') if p.is_file())}")
                return
            crashed = res["crashed"]
            if crashed:
                ctx.label("interrupted")
            if res.get("refused"):
                # the verification caught the injected corruption and aborted the run: behaves like an interruption
                ctx.label("corruption_refused")
                crashed = True
            elif res.get("corrupted") and not crashed:
                ctx.label("corruption_unnoticed")
                ctx.fail("C04.corruption_unnoticed", f"{where}: a sample altered in {res['corrupted']} before verification was not detected")
                return
            # ---- I1: the original is recoverable, always
            on_disk = w.original_on_disk()
            if not on_disk:
                legit = gen == "NP2.4" and r["delete_original"] and r["post_check"] and not crashed or w.original_deleted_legitimately
                ok = w.reassembles() and legit
                if not ctx.check(ok, "C04.original_lost", lambda: f"{where}: original gone; per-shank files reassemble={w.reassembles()}, "
                                 f"verified deletion={bool(legit)}; events {res.get('log', [])[-6:]}"):
                    return
                w.original_deleted_legitimately = True
                ctx.label("original_deleted_after_verification")
            if r["delete_original"] and not r["post_check"]:
                ctx.label("delete_without_verification")
                ctx.nontrivial = True
            if crashed:
                interrupted_before = True
                continue
            status = res["status"]
            # ---- I4
            if case["kind"] == "np1":
                ctx.check(status == -1 and w.snapshot() == before, "C04.np1", lambda: f"{where}: NP1 returned {status} or changed the directory")
                continue
            if case["kind"] == "split":
                ctx.check(status == 0 and w.snapshot() == before, "C04.already_split", lambda: f"{where}: already split file returned {status} or changed the directory")
                continue
            # ---- I2
            if had_output and not r["overwrite"]:
                after = w.snapshot()
                ctx.check(status == 0, "C04.rerun_status", lambda: f"{where}: repeated run without overwrite returned {status}")
                ctx.check(after == before, "C04.rerun_changed_disk", lambda: f"{where}: repeated run without overwrite changed "
                          f"{sorted(set(after.items()) ^ set(before.items()), key=str)[:4]}")
                if interrupted_before:
                    ctx.nontrivial = True
                    ctx.label("retry_after_interruption")
                continue
            # ---- I3
            if r["overwrite"] and fresh_or_partial:
                ctx.nontrivial = True
                ctx.label("overwrite_on_fresh_or_partial")
            if interrupted_before:
                ctx.nontrivial = True
                ctx.label("retry_after_interruption")
            if ctx.check(status == 1, "C04.run_status", lambda: f"{where}: run returned {status}, expected 1"):
                w.check_complete_output(r, where)
                interrupted_before = False
            if ctx.findings:
                return
