"""C08 - Probe geometry is a consistent, jointly permuted description of the sites."""
import copy

import numpy as np
from hypothesis import strategies as st

from vp import sut
from vp.gens import meta as gm, recording as rec
from vp.oracles import calib

ID = "C08"
LEVEL = "exploration"
RULE = ("(meta) generated metadata: 1..384 sites selected on the NP1 / NP2 / NP2.4 / NPultra grids with patterns "
        "dense/random/banks/reversed/interleaved in arbitrary channel order, snsShankMap or snsGeomMap, sorted and "
        "unsorted; oracle: every site once, inds a permutation, sorted keys non-decreasing in (shank,row,-col), "
        "sorted[k] == unsorted[k][inds] for every key, x/y/row/col/shank/adc/sample_shift == independent grid and ADC "
        "tables, both encodings give equal geometries, a split child (harness edits the parsed dictionary the way the "
        "converter does, and - for small selections - the metadata NP2Converter itself writes when it splits a tiny recording) == parent restricted to the shank, per ADC the delays are {0,1/c,..,(m-1)/c} all distinct. "
        "(grid) every row 0..1279 x every column x version {1,2,2.4,NPultra}: xy2rc(rc2xy(r,c)) == (r,c) and back, exact; "
        "enumerated exhaustively. (header) trace_header / split_trace_header for the four dense layouts == reference; split_trace_header of every generated NP2.4 geometry (any subset of shanks) == its restriction to each shank present. "
        "Non-trivial = non-monotone channel order with >= 2 shanks or a non-dense selection. Distinct = case hash.")
EXHAUSTIVE_NOTE = "grid inverses (4 versions x 1280 rows x all columns) and the 4 dense trace headers are enumerated completely"
ASSUMPTIONS = ["saved-channel subsets are contiguous ranges first..first+n-1 of the acquired channels; metadata lists sites of "
               "the saved channels only and the IMRO table of all acquired channels",
               "NPultra has no snsGeomMap case (outside the property's quantifier)"]
# thorough tier: the same property driven by Atheris / libFuzzer (coverage-guided) as a second engine
ATHERIS = {"runs": 200000, "seconds": 180}
BUDGET = {"quick": 8000, "thorough": 250000}
KEYS = ("x", "y", "row", "col", "shank", "adc", "sample_shift", "ind")
NCOLS = {"1": 4, "2": 2, "2.4": 2, "NPultra": 8}


def _ver(v):
    return {"1": 1, "2": 2, "2.4": 2.4, "NPultra": "NPultra"}[v]


def enum_shards(tier):
    out = [{"mode": "grid", "version": v, "rows": [r0, min(r0 + 160, 1280)]} for v in NCOLS for r0 in range(0, 1280, 160)]
    out.append({"mode": "header"})
    return out


def enum_cases(desc):
    if desc["mode"] == "header":
        for v, ns in (("1", 1), ("2", 1), ("2.4", 4), ("NPultra", 1), ("2.4", 1)):
            yield {"mode": "header", "version": v, "nshank": ns}
        for gen in ("3A", "3B2", "NP2.1", "NP2.4", "NPultra"):
            yield {"mode": "nomap", "gen": gen}
        return
    for r in range(*desc["rows"]):
        yield {"mode": "grid", "version": desc["version"], "row": r}


def strategy(tier):
    spec = gm.st_spec(allow_nosync=True, ns_range=(1, 1000), allow_offset=True)
    return st.builds(lambda s, sh: {"mode": "meta", "spec": s, "child_pick": sh}, spec, st.integers(0, 3))


def known_non_prefix_adc(case, f):
    """ADC group / sampling delay taken by file position instead of the original channel number, visible only when the
    saved channels are not a prefix of the acquired ones."""
    return (case.get("mode") == "meta" and case["spec"].get("first_chan", 0) > 0
            and f.kind.startswith("C08.") and f.kind.rsplit(".", 1)[-1] in ("adc", "sample_shift"))


KNOWN = {"non_prefix_subset_adc": known_non_prefix_adc}


def _cmp_geom(ctx, kind, got, exp, keys=KEYS):
    for k in keys:
        if not ctx.check(k in got and np.shape(got[k]) == np.shape(exp[k]) and np.allclose(got[k], exp[k], rtol=0, atol=1e-9),
                         f"{kind}.{k}", lambda: f"{k}: got {np.asarray(got.get(k))[:6]} expected {np.asarray(exp[k])[:6]}"):
            return False
    return True


def run_case(case, ctx):
    mode = case["mode"]
    npx = sut.neuropixel()
    if mode == "grid":
        v = _ver(case["version"])
        r = float(case["row"])
        cols = np.arange(NCOLS[case["version"]], dtype=float)
        rows = np.full_like(cols, r)
        xy = ctx.call("C08.rc2xy", npx.rc2xy, rows, cols, version=v)
        if xy is ctx.CRASH:
            return
        rc = ctx.call("C08.xy2rc", npx.xy2rc, xy["x"], xy["y"], version=v)
        if rc is ctx.CRASH:
            return
        ctx.check(np.array_equal(rc["row"], rows) and np.array_equal(rc["col"], cols), "C08.grid_inverse",
                  lambda: f"xy2rc(rc2xy(r,c)) != (r,c) for row {r} version {v}")
        gen = {"1": "3B2", "2": "NP2.1", "2.4": "NP2.4", "NPultra": "NPultra"}[case["version"]]
        if gen != "3B2":
            # independent grid constants (NP1 columns are a checkerboard: only (col,row parity) pairs exist as sites)
            for c in cols.astype(int):
                ex, ey, _, _ = calib.site_xy_rc(gen, 0, c, int(r))
                ctx.check(xy["x"][c] == ex and xy["y"][c] == ey, "C08.grid_constants", lambda: f"rc2xy({r},{c}) != ({ex},{ey})")
        else:
            for c in (0, 1):
                ex, ey, _, ecol = calib.site_xy_rc(gen, 0, c, int(r))
                ctx.check(xy["x"][ecol] == ex and xy["y"][ecol] == ey, "C08.grid_constants",
                          lambda: f"rc2xy({r},{ecol}) != ({ex},{ey})")
        xy2 = ctx.call("C08.rc2xy", npx.rc2xy, rc["row"], rc["col"], version=v)
        if xy2 is not ctx.CRASH:
            ctx.check(np.array_equal(xy2["x"], xy["x"]) and np.array_equal(xy2["y"], xy["y"]), "C08.grid_inverse",
                      "rc2xy(xy2rc(x,y)) != (x,y)")
        ctx.nontrivial = True
        ctx.label("grid_" + case["version"])
        return
    if mode == "header":
        v = _ver(case["version"])
        h = ctx.call("C08.trace_header", npx.trace_header, version=v, nshank=case["nshank"])
        if h is ctx.CRASH:
            return
        gen = {"1": "3B2", "2": "NP2.1", "2.4": "NP2.4", "NPultra": "NPultra"}[case["version"]]
        spec = {"gen": gen, "n": 384, "pattern": "dense", "shanks": [0, 1, 2, 3] if case["nshank"] == 4 else [0]}
        eth, _ = calib.geometry(spec, sort=False)
        _cmp_geom(ctx, "C08.trace_header", h, eth)
        ctx.label("header_" + case["version"])
        ctx.nontrivial = True
        _check_adc_groups(ctx, gen, h)
        for s in np.unique(eth["shank"]):
            hs = ctx.call("C08.split_trace_header", npx.split_trace_header, h, shank=s)
            if hs is not ctx.CRASH:
                sel = eth["shank"] == s
                _cmp_geom(ctx, "C08.split_trace_header", hs, {k: v_[sel] for k, v_ in eth.items()})
        return
    if mode == "nomap":
        _run_nomap(case, ctx)
        return
    _run_meta(case, ctx)


def _run_nomap(case, ctx):
    """Metadata without any site table: the documented fall-back is the dense default layout of the probe generation."""
    sg = sut.spikeglx()
    gen = case["gen"]
    spec = {"gen": gen, "stream": "ap", "n": 384, "n_acq": 384, "pattern": "dense", "site_seed": 0, "enc": "shank", "tilde": True,
            "range": 0.6, "maxint": 512 if gen in ("3A", "3B2", "NPultra") else 8192, "gain_mode": "uniform", "gains_seed": 0,
            "imro_fields": 5 if gen == "3A" else 6, "fs": 30000.0, "nsync": 1, "ns": 10}
    if gen != "3A":
        spec["prb_type"] = gm.PRB_TYPES[gen][0]
    if gen == "NP2.4":
        spec["shanks"] = [0]
    text = "\n".join(ln for ln in gm.build_text(spec).splitlines() if "snsShankMap" not in ln and "snsGeomMap" not in ln) + "\n"
    ctx.label("nomap_" + gen)
    ctx.nontrivial = True
    with rec.scratch_dir(ctx) as d:
        p = d / "a.ap.meta"
        p.write_text(text)
        md = ctx.call("C08.read_meta", sg.read_meta_data, p)
        if md is ctx.CRASH:
            return
        eth, _ = calib.geometry(spec, sort=False)
        for sort in (False, True):
            r = ctx.call("C08.geometry_from_meta", sg.geometry_from_meta, md, return_index=True, sort=sort)
            if r is ctx.CRASH:
                return
            if not ctx.check(isinstance(r, tuple) and len(r) == 2 and isinstance(r[0], dict), "C08.default_geometry",
                             "geometry_from_meta(return_index=True) did not return (header, index) for metadata without a site table"):
                return
            _cmp_geom(ctx, "C08.default_geometry", r[0], eth, keys=("x", "y", "row", "col", "shank", "adc", "sample_shift"))
            ctx.check(np.array_equal(r[1], np.arange(384)), "C08.default_geometry.index", "index of the default geometry is not the identity")


def _converter_children(case, ctx, sg, d, spec, sites, shanks):
    from vp.gens import np2
    npx = sut.neuropixel()
    ns = 700
    sp = dict(spec, ns=ns, n_acq=spec["n"], stream="ap")
    nc = gm.n_channels(sp)
    D = rec.make_data(ns, nc, 12345 + len(sites), "small", nsync=1)
    root = d / "session"
    ap = np2.make_session(root, sp, D)
    conv = ctx.call("C08.converter", npx.NP2Converter, ap, post_check=False, compress=False)
    if conv is ctx.CRASH:
        return
    try:
        if ctx.call("C08.converter", conv.init_params, nwindow=1200) is ctx.CRASH:
            return
        st_ = ctx.call("C08.converter", conv.process)
    finally:
        try:
            conv.sr.close()
        except Exception:  # noqa
            pass
    if st_ is ctx.CRASH or not ctx.check(st_ == 1, "C08.converter_status", lambda: f"NP2Converter.process() returned {st_}"):
        return
    ctx.label("child_via_converter")
    for sh in shanks:
        fold = root / ("probe00" + chr(97 + int(sh)))
        metas = (sorted(fold.glob("*.ap.meta")) + sorted(fold.glob("*.lf.meta"))) if fold.exists() else []
        if not ctx.check(len(metas) == 2, "C08.converter_child_missing",
                         lambda: f"split ap + lf metadata for shank {sh} in {fold.name}: {[m.name for m in metas]}"):
            return
        for sort, mfile in ((False, metas[0]), (True, metas[0]), (False, metas[1]), (True, metas[1])):
            mdc = ctx.call("C08.read_meta", sg.read_meta_data, mfile)
            if mdc is ctx.CRASH:
                return
            rc = ctx.call("C08.child_geometry", sg.geometry_from_meta, mdc, return_index=True, sort=sort)
            if rc is ctx.CRASH:
                return
            eth, eorder = calib.geometry(dict(sp), sort=sort, shank=sh)
            if not (isinstance(rc, tuple) and len(rc) == 2 and isinstance(rc[0], dict)):
                ctx.fail("C08.converter_child", "geometry_from_meta(return_index=True) did not return (header, index)")
                return
            if not _cmp_geom(ctx, "C08.converter_child", rc[0], eth):
                return
            ctx.check(np.array_equal(rc[1], eorder), "C08.converter_child_index", "sort index of a split file differs")


def _check_adc_groups(ctx, gen, th):
    """Each ADC serves its channels at distinct, evenly spaced delays {0, 1/c, ..., (m-1)/c}."""
    cyc = 16 if gen in ("NP2.1", "NP2.4") else 13
    adc, sh = np.asarray(th["adc"]), np.asarray(th["sample_shift"])
    for a in np.unique(adc):
        s = np.sort(sh[adc == a])
        if not ctx.check(np.allclose(s, np.arange(s.size) / cyc, atol=1e-12), "C08.adc_delays",
                         lambda: f"ADC {a}: delays {s[:5]} are not 0,1/{cyc},.."):
            return


def _run_meta(case, ctx):
    sg = sut.spikeglx()
    spec = case["spec"]
    gen = spec["gen"]
    sites = gm.sites_of(spec)
    ctx.label(gen, "enc_" + spec["enc"], "pat_" + spec["pattern"])
    if spec.get("first_chan", 0) > 0:
        ctx.label("non_prefix_subset")
    with rec.scratch_dir(ctx) as d:
        p = d / "a.ap.meta"
        p.write_text(gm.build_text(spec))
        md = ctx.call("C08.read_meta", sg.read_meta_data, p)
        if md is ctx.CRASH:
            return
        res = {}
        for sort in (False, True):
            r = ctx.call("C08.geometry_from_meta", sg.geometry_from_meta, md, return_index=True, sort=sort)
            if r is ctx.CRASH:
                return
            res[sort] = r
            eth, eorder = calib.geometry(spec, sort=sort)
            th, inds = r
            if not _cmp_geom(ctx, "C08.geometry" + (".sorted" if sort else ".unsorted"), th, eth):
                return
            ctx.check(np.array_equal(inds, eorder), "C08.index", "returned index differs from the expected permutation")
        (thu, _), (ths, inds) = res[False], res[True]
        n = len(sites)
        # each site once
        got_sites = sorted(zip(thu["shank"].tolist(), thu["x"].tolist(), thu["y"].tolist()))
        ctx.check(len(set(got_sites)) == n == thu["x"].size, "C08.sites_once", "sites are not listed exactly once")
        # permutation + joint move of every key
        ctx.check(np.array_equal(np.sort(inds), np.arange(n)), "C08.permutation", "sort index is not a permutation")
        for k in thu:
            ctx.check(k in ths and np.array_equal(np.asarray(ths[k]), np.asarray(thu[k])[inds]), "C08.joint_permutation",
                      lambda: f"key {k} was not permuted jointly with the others")
        key = list(zip(ths["shank"].tolist(), ths["row"].tolist(), (-ths["col"]).tolist()))
        ctx.check(all(key[i] <= key[i + 1] for i in range(n - 1)), "C08.sorted_order",
                  "sorted geometry is not ordered by (shank, row, -col)")
        mono = np.array_equal(inds, np.arange(n))
        nshank = np.unique(thu["shank"]).size
        if (not mono and nshank >= 2) or spec["pattern"] != "dense":
            ctx.nontrivial = True
        if not mono:
            ctx.label("nonidentity_order")
        if nshank >= 2:
            ctx.label("multishank")
        # read_geometry (file entry point) == sorted geometry
        rg = ctx.call("C08.read_geometry", sg.read_geometry, p)
        if rg is not ctx.CRASH:
            _cmp_geom(ctx, "C08.read_geometry", rg, ths)
        if n == 384:
            _check_adc_groups(ctx, gen, thu)
        # both encodings
        if gen != "NPultra":
            spec2 = dict(spec, enc="geom" if spec["enc"] == "shank" else "shank")
            p2 = d / "b.ap.meta"
            p2.write_text(gm.build_text(spec2))
            md2 = ctx.call("C08.read_meta", sg.read_meta_data, p2)
            if md2 is not ctx.CRASH:
                for sort in (False, True):
                    r2 = ctx.call("C08.geometry_from_meta", sg.geometry_from_meta, md2, return_index=True, sort=sort)
                    if r2 is ctx.CRASH:
                        break
                    th1, i1 = res[sort]
                    ok = np.array_equal(i1, r2[1]) and all(k in r2[0] and np.array_equal(np.asarray(th1[k], float), np.asarray(r2[0][k], float))
                                                           for k in KEYS)
                    ctx.check(ok, "C08.encodings_agree", "snsShankMap and snsGeomMap of the same selection give different geometries")
        # split child: parent's dictionary edited the way NP2Converter._writemetadata_ap does
        if gen == "NP2.4":
            shanks = sorted(set(s[0] for s in sites))
            sh = shanks[case["child_pick"] % len(shanks)]
            chns = [i for i, s in enumerate(sites) if s[0] == sh]
            mdc = copy.deepcopy(md)
            nsy = spec.get("nsync", 1)
            mdc["snsApLfSy"][0] = len(chns)
            mdc["nSavedChans"] = len(chns) + nsy
            mdc["NP2.4_shank"] = sh
            mdc["original_meta"] = False
            for sort in (False, True):
                rc = ctx.call("C08.child_geometry", sg.geometry_from_meta, mdc, return_index=True, sort=sort)
                if rc is ctx.CRASH:
                    break
                eth, eorder = calib.geometry(spec, sort=sort, shank=sh)
                _cmp_geom(ctx, "C08.child", rc[0], eth)
                ctx.check(np.array_equal(rc[1], eorder), "C08.child_index", "child sort index differs")
            ctx.label("child")
            # the header-level splitter on the geometry of this very selection (any subset of the four shanks, not only
            # shanks 0..k-1): every shank that is present gives the parent's entries of that shank, in the parent's order
            npx = sut.neuropixel()
            for sort in (False, True):
                th = res[sort][0]
                eth, _ = calib.geometry(spec, sort=sort)
                for s_ in shanks:
                    arg = [int(s_), np.int64(s_), float(s_)][(case["child_pick"] + s_) % 3]
                    hs = ctx.call("C08.split_trace_header", npx.split_trace_header, th, shank=arg)
                    if hs is not ctx.CRASH:
                        sel = eth["shank"] == s_
                        _cmp_geom(ctx, "C08.split_trace_header", hs, {k: v_[sel] for k, v_ in eth.items()})
            if shanks != list(range(len(shanks))):
                ctx.label("split_header_shanks_not_0_to_k")
            # the same through the real splitter: a tiny recording with this metadata is split by NP2Converter and the
            # geometry of every per-shank file it writes must be the parent's restricted to that shank
            if spec.get("nsync", 1) == 1 and not spec.get("first_chan") and len(sites) <= 128 and case["child_pick"] % 2 == 0:
                _converter_children(case, ctx, sg, d, spec, sites, shanks)
