"""C01 - Reader returns calibrated voltages aligned with the probe geometry."""
import numpy as np
from hypothesis import strategies as st

from vp import sut
from vp.gens import weighted
from vp.gens import meta as gm, recording as rec, selectors as sel
from vp.oracles import calib

ID = "C01"
LEVEL = "exploration"
RULE = ("Case = generated probe metadata (3A/3B1/3B2/NP2.1/NP2.4/NPultra/nidq, AP or LF, 1..384 saved channels incl. "
        "prefix subsets, site selection dense/random/banks/reversed/interleaved on the real grids, snsShankMap or "
        "snsGeomMap, per-channel NP1 gains) x int16 content seed (full range incl. extremes) x bin/cbin (chunk of a few "
        "dozen samples) x sort on/off x 24-40 (sample selector, channel selector, entry point) triples. Oracle: "
        "sample2volts == independent calibration (rtol 1e-6); every read == NumPy indexing of float32(D[:, order]) * "
        "s2v[order], bit for bit, same shape and dtype; geometry[k][i] == site of on-disk channel order[i]. One case in twelve is a flat int16 binary without metadata opened with explicit nc/ns/fs(/s2v/nsync) or, for 384/385 channels, with nothing (layout guessed from the size): default factor 2.34375e-06, sync unscaled. "
        "Non-trivial = non-identity channel order AND (non-uniform NP1 gain vector, or NP2 whose gain is fixed) AND at "
        "least one slice selector with |step|>1 or a negative bound. Distinct = distinct case hash.")
ASSUMPTIONS = ["(non-empty list, non-empty list) selector pairs are not compared: NumPy would index point-wise, the reader "
               "indexes orthogonally, and the property does not choose",
               "lists of sample indices are generated on uncompressed files only (mtscomp documents no support)",
               "float32 multiplication by the reader's own per-channel vector is repeated in the oracle; the vector "
               "itself is checked against the independent calibration within rtol 1e-6"]
BUDGET = {"quick": 1200, "thorough": 80000}
SHRINK = {"quick": True, "thorough": True}


@st.composite
def _case(draw, long=False):
    if long:
        # a recording of more than a million samples (35-40 s at 30 kHz) with one to three channels: selections that span
        # it, strided or not, are what a user reads from a real file; 10^6 is also the module's DEFAULT_BATCH_SIZE
        spec = draw(gm.st_spec(allow_nosync=True, n_choices=(1, 2, 3), ns_range=(1_000_001, 1_200_000),
                               patterns=("dense", "random", "reversed")))
    elif draw(st.integers(0, 9)) == 0:
        spec = draw(gm.st_nidq(ns_range=(1, 300)))
    else:
        spec = draw(gm.st_spec(allow_nosync=True, ns_range=(1, 300)))
    nc = gm.n_channels(spec)
    ns = spec["ns"]
    cbin = draw(st.booleans())
    case = {"spec": spec, "content_seed": draw(st.integers(0, 2 ** 32 - 1)),
            "content_mode": draw(st.sampled_from(["full", "full", "ramp"])),
            "cbin": cbin, "chunk": draw(st.integers(90_000, 400_000) if long else st.integers(5, 90)), "sort": draw(st.sampled_from([True, True, False])),
            # how the reader is built: directly, from a str path, with open=False + open(), or open=False + context manager
            # "inplace" (compressed files only): the reader decompresses its file in place (keep_original=False is
            # documented as modifying the current reader), is re-opened and then used for every read
            # "symlink": the data file is a symbolic link into a content store (git-annex / datalad / DVC layout: the target has
            # another name in another folder), the metadata (and .ch) sit next to the link
            "how": draw(st.sampled_from(["default", "default", "str", "deferred", "context", "symlink"] + (["inplace"] if cbin else [])))}
    nops = draw(st.integers(5, 8) if long else st.integers(24, 40))
    ops = []
    for _ in range(nops):
        ep = draw(st.sampled_from(["getitem2", "getitem2", "getitem2", "getitem1", "read", "read_samples"]))
        if ep == "getitem1":
            n = draw(st.one_of(sel.st_slice(ns), sel.st_int(ns)))
            ops.append({"ep": ep, "n": n})
        elif ep == "read_samples":
            a = draw(st.integers(-ns - 2, ns + 2))
            b = draw(st.integers(-ns - 2, ns + 2))
            c = draw(st.one_of(st.none(), sel.st_channel_sel(nc)))
            ops.append({"ep": ep, "n": {"t": "slice", "v": [a, b, None]}, "c": c})
        else:
            n = draw(sel.st_sample_sel(ns, allow_list=not cbin))
            c = draw(sel.st_channel_sel(nc))
            ops.append({"ep": ep, "n": n, "c": c})
    case["ops"] = ops
    return case


@st.composite
def _flat_case(draw):
    """A flat int16 binary without metadata file, opened as the Reader docstring describes: explicit nc / ns / fs (and
    optionally s2v, nsync), or nothing at all for a 384- or 385-channel file (the layout is then guessed from the size)."""
    auto = draw(st.booleans())
    nc = draw(st.sampled_from([384, 385])) if auto else draw(st.sampled_from([1, 2, 5, 16, 17, 384, 385]))
    ns = draw(st.integers(1, 40 if nc >= 384 else 300))
    case = {"flat": True, "auto": auto, "nc": nc, "ns": ns, "content_seed": draw(st.integers(0, 2 ** 32 - 1)),
            "nsync": 1 if (auto and nc == 385) else (0 if auto else draw(st.sampled_from([0, 1]))),
            "s2v": None if auto else draw(st.sampled_from([None, None, 4.6875e-06, 1.0, 0.5])),
            "fs": 30000 if auto else draw(st.sampled_from([30000, 2500, 1000]))}
    if case["nsync"] >= nc:
        case["nsync"] = 0
    # documented heuristic of the constructor: a file whose size is an even multiple of 385 (and not of 384) int16 words
    # is taken to carry one sync channel unless told otherwise - and 0 cannot be told. Such files get their sync channel.
    size = ns * nc * 2
    if case["nsync"] == 0 and size / 384 % 2 != 0 and size / 385 % 2 == 0:
        case["nsync"] = 1
    ops = []
    for _ in range(draw(st.integers(8, 16))):
        ep = draw(st.sampled_from(["getitem2", "getitem2", "getitem1", "read"]))
        # sr[item] with a single list is ambiguous with the (samples, channels) pair: only slices and integers there
        n = draw(st.one_of(sel.st_slice(ns), sel.st_int(ns))) if ep == "getitem1" else draw(sel.st_sample_sel(ns))
        ops.append({"ep": ep, "n": n, "c": draw(sel.st_channel_sel(nc))})
    case["ops"] = ops
    return case


def strategy(tier):
    return weighted((33, _case()), (3, _flat_case()), (1, _case(long=True)))


def _neg_step(s):
    return s["t"] == "slice" and s["v"][2] is not None and s["v"][2] < 0


def known_cbin_negative_step(case, f):
    return f.kind == "C01.values.cbin_negstep"


KNOWN = {"cbin_negative_step": known_cbin_negative_step}


S2V_AP = 2.34375e-06  # documented default conversion factor of a flat int16 recording (NP1 AP band: 0.6 / 512 / 500)


def _run_flat(case, ctx):
    sg = sut.spikeglx()
    nc, ns, nsync = case["nc"], case["ns"], case["nsync"]
    D = rec.make_data(ns, nc, case["content_seed"], "full", nsync=nsync)
    ctx.label("flat", "flat_auto" if case["auto"] else "flat_explicit", f"flat_nsync{nsync}")
    with rec.scratch_dir(ctx) as d:
        f = d / "flat_recording.bin"
        D.tofile(f)
        kw = {} if case["auto"] else dict(nc=nc, ns=ns, fs=case["fs"], nsync=nsync or None)
        if case.get("s2v") is not None:
            kw["s2v"] = case["s2v"]
        sr = ctx.call("C01.open_flat", sg.Reader, f, **kw)
        if sr is ctx.CRASH:
            return
        try:
            if not ctx.check(sr.shape == (ns, nc) and sr.nsync == nsync and sr.fs == case["fs"], "C01.flat_layout",
                             lambda: f"flat reader: shape {sr.shape} nsync {sr.nsync} fs {sr.fs}, expected {(ns, nc)} {nsync} {case['fs']}"):
                return
            es2v = np.ones(nc) * (case.get("s2v") or S2V_AP)
            if nsync:
                es2v[-nsync:] = 1
            s2v = np.asarray(sr.sample2volts)
            if not ctx.check(s2v.shape == es2v.shape and np.allclose(s2v, es2v, rtol=1e-9, atol=0), "C01.sample2volts",
                             lambda: f"flat reader: sample2volts {s2v[:3]}..{s2v[-1:]} expected {es2v[:3]}..{es2v[-1:]}"):
                return
            A = D.astype(np.float32)
            A *= s2v
            ctx.nontrivial = ctx.nontrivial or nsync > 0
            for i, op in enumerate(case["ops"]):
                n, c = sel.decode(op["n"]), sel.decode(op["c"])
                if sel.is_listlike(op["n"]) and sel.is_listlike(op["c"]) and len(op["n"]["v"]) and len(op["c"]["v"]):
                    continue
                try:
                    exp, exp_err = (A[n][..., c] if op["ep"] != "getitem1" else A[n]), None
                except IndexError as e:
                    exp, exp_err = None, e
                fn = {"getitem1": lambda: sr[n], "getitem2": lambda: sr[n, c],
                      "read": lambda: sr.read(nsel=n, csel=c, sync=False)}[op["ep"]]
                if exp_err is not None:
                    got = ctx.call("C01.read_oob", fn, expect=(IndexError,))
                    if got is not ctx.CRASH:
                        ctx.check(isinstance(got, IndexError), "C01.oob_no_error", lambda: f"flat op {i} {op}: NumPy raises IndexError, reader returned data")
                    continue
                got = ctx.call("C01.values", fn)
                if got is ctx.CRASH:
                    continue
                ctx.check(isinstance(got, np.ndarray) and got.dtype == np.float32 and got.shape == exp.shape and np.array_equal(got, exp),
                          "C01.values", lambda: f"flat op {i} {op}: got shape {getattr(got, 'shape', None)}, expected {exp.shape}; {_first_mismatch(got, exp)}")
        finally:
            try:
                sr.close()
            except Exception:  # noqa
                pass


def run_case(case, ctx):
    if case.get("flat"):
        return _run_flat(case, ctx)
    sg = sut.spikeglx()
    spec = case["spec"]
    nc, ns = gm.n_channels(spec), spec["ns"]
    nsync = spec["dw"] if spec["gen"] == "nidq" else spec.get("nsync", 1)
    D = rec.make_data(ns, nc, case["content_seed"], case["content_mode"], nsync=nsync)
    ctx.label(spec["gen"], "cbin" if case["cbin"] else "bin", "sort" if case["sort"] else "nosort")
    if ns > 1_000_000:
        ctx.label("longer_than_1e6_samples")
    if spec["gen"] != "nidq":
        ctx.label("enc_" + spec["enc"], "pat_" + spec["pattern"], "stream_" + spec["stream"],
                  "subset" if spec["n"] < spec["n_acq"] else "all_acq", f"nsync{spec.get('nsync', 1)}")
    with rec.scratch_dir(ctx) as d:
        binf = rec.write_recording(d, spec, D)
        fs = spec["fs"]
        path = rec.compress(binf, nc, fs, case["chunk"], keep_bin=False) if case["cbin"] else binf
        how = case.get("how", "default")
        ctx.label("how_" + how)
        if how == "symlink":
            store = d / "annex" / "objects"
            store.mkdir(parents=True)
            target = store / ("SHA256E-s%d--%08x%s" % (path.stat().st_size, case["content_seed"] & 0xffffffff, path.suffix))
            path.rename(target)
            try:
                path.symlink_to(target)
            except OSError:   # no symbolic links on this file system
                target.rename(path)
                ctx.label("symlinks_unsupported_here")
        if how == "inplace" and case["cbin"]:
            sr = ctx.call("C01.open", sg.Reader, path, sort=case["sort"])
            if sr is not ctx.CRASH:
                def _inplace():
                    sr.decompress_file(keep_original=False)
                    sr.open()
                if ctx.call("C01.inplace_decompress", _inplace) is ctx.CRASH:
                    return
                case = dict(case, cbin=False)  # reads go through the memmap from here on
        elif how in ("deferred", "context"):
            sr = ctx.call("C01.open", sg.Reader, path, sort=case["sort"], open=False)
            if sr is not ctx.CRASH and ctx.call("C01.open", sr.open if how == "deferred" else sr.__enter__) is ctx.CRASH:
                return
        else:
            sr = ctx.call("C01.open", sg.Reader, str(path) if how == "str" else path, sort=case["sort"])
        if sr is ctx.CRASH:
            return
        try:
            _check_reader(case, ctx, sr, spec, D, nc, ns, nsync)
        finally:
            try:
                sr.close()
            except Exception:
                pass


def _check_reader(case, ctx, sr, spec, D, nc, ns, nsync):
    typ = "nidq" if spec["gen"] == "nidq" else spec["stream"]
    # (i) calibration vector against the independent oracle, on-disk order
    es2v = calib.s2v(spec)
    s2v = np.asarray(sr.sample2volts)
    if not ctx.check(s2v.shape == es2v.shape and np.allclose(s2v, es2v, rtol=1e-6, atol=0), "C01.sample2volts",
                     lambda: f"sample2volts differs from range/maxint/gain: got {s2v[:4]}.. expected {es2v[:4]}.. ({typ})"):
        return
    if nsync:
        ctx.check(np.all(s2v[nc - nsync:] == 1), "C01.sync_gain", "sync channels are scaled")
    # (ii) order + geometry
    if spec["gen"] == "nidq":
        order_full = np.arange(nc)
        ctx.check(sr.geometry is None, "C01.nidq_geometry", "nidq returned a geometry")
    else:
        eth, order = calib.geometry(spec, sort=case["sort"])
        order_full = np.r_[order, np.arange(order.size, nc)]
        g = sr.geometry
        for k in ("x", "y", "shank", "row", "col", "ind", "adc", "sample_shift"):
            if not ctx.check(k in g and np.shape(g[k]) == eth[k].shape and np.allclose(g[k], eth[k], rtol=0, atol=1e-9),
                             "C01.geometry." + k, lambda: f"geometry[{k}] != expected sites of the returned columns"):
                break
        gains = es2v[:nc - nsync]
        nonuniform = spec["gen"] in ("NP2.1", "NP2.4") or np.unique(gains).size > 1
        if not np.array_equal(order, np.arange(order.size)):
            ctx.label("nonidentity_order")
            if nonuniform and any(sel.slice_nontrivial(o["n"]) or ("c" in o and o["c"] and sel.slice_nontrivial(o["c"]))
                                  for o in case["ops"]):
                ctx.nontrivial = True
    rco = getattr(sr, "raw_channel_order", None)
    ctx.check(rco is not None and np.array_equal(rco, order_full), "C01.raw_channel_order",
              lambda: "raw_channel_order is not the expected permutation")
    ctx.check(sr.shape == (ns, nc), "C01.shape", lambda: f"shape {sr.shape} != {(ns, nc)}")
    # whole calibrated array in returned-column order, computed with the reader's own vector
    A = D[:, order_full].astype(np.float32)
    A *= s2v[order_full]
    for i, op in enumerate(case["ops"]):
        n = sel.decode(op["n"])
        c = sel.decode(op["c"]) if op.get("c") else slice(None)
        ep = op["ep"]
        both_lists = sel.is_listlike(op["n"]) and op.get("c") and sel.is_listlike(op["c"]) and len(op["n"]["v"]) and len(op["c"]["v"])
        if both_lists:
            continue
        try:
            exp = A[n][..., c] if ep != "getitem1" else A[n]
            exp_err = None
        except IndexError as e:
            exp, exp_err = None, e
        if ep == "getitem1":
            f = lambda: sr[n]  # noqa
        elif ep == "getitem2":
            f = lambda: sr[n, c]  # noqa
        elif ep == "read":
            f = lambda: sr.read(nsel=n, csel=c, sync=False)  # noqa
        else:
            if nsync == 0 or spec["gen"] == "nidq":
                f = lambda: sr.read(slice(n.start, n.stop), c if op.get("c") else slice(None), sync=False)  # noqa
            else:
                f = lambda: sr.read_samples(n.start, n.stop, channels=c if op.get("c") else None)[0]  # noqa
        kind = "C01.values"
        if op["n"]["t"].startswith("npint"):
            ctx.label("npint_sample_selector")
        if op["n"]["t"] in ("int", "npint", "npint32") and exp_err is not None:
            ctx.label("oob_int_sample_selector")
        if case["cbin"] and _neg_step(op["n"]):
            kind = "C01.values.cbin_negstep"
            ctx.label("cbin_negstep_selector")
        if exp_err is not None:
            # NumPy raises IndexError for this selector on an array of that shape: the reader must raise too
            got = ctx.call("C01.read_oob", f, expect=(IndexError,))
            if got is not ctx.CRASH:
                ctx.check(isinstance(got, IndexError), "C01.oob_no_error",
                          lambda: f"op {i} {op}: NumPy raises IndexError, reader returned data")
            continue
        got = ctx.call(kind, f)
        if got is ctx.CRASH:
            continue
        ok = isinstance(got, np.ndarray) and got.dtype == np.float32 and got.shape == exp.shape and np.array_equal(got, exp)
        ctx.check(ok, kind, lambda: (f"op {i} {op}: got shape {getattr(got, 'shape', None)} dtype "
                                     f"{getattr(got, 'dtype', None)}, expected shape {exp.shape}; "
                                     f"first mismatch {_first_mismatch(got, exp)}"))


def _first_mismatch(got, exp):
    try:
        if got.shape != exp.shape:
            return "shape"
        idx = np.argwhere(got != exp)
        if idx.size == 0:
            return "none"
        j = tuple(idx[0])
        return f"at {j}: got {got[j]!r} expected {exp[j]!r}"
    except Exception as e:  # noqa
        return f"n/a ({e})"
