"""C07 - Fourier time shift is an exact, composable delay."""
import numpy as np
from hypothesis import strategies as st

from vp import sut
from vp.gens import weighted
from vp.oracles import c07_delay as od

ID = "C07"
LEVEL = "exploration"
RULE = ("Six case modes. basis: fshift applied to the complete impulse basis eye(n) (for even n and a fractional "
        "shift: to the basis of the Nyquist-free subspace eye(n) - (-1)^(t+u)/n), along axis 0 or 1, float32/float64, "
        "C/F layout, time domain or already-rfft'd input with ns; operations = scalar shift (Python int/float, NumPy "
        "float64/float32/int64/int32 scalars), composition of two shifts, per-trace shift vector (palette of values "
        "assigned by seed; f8/f4/i8/i4; flat/nd/keepdims shape). All n <= 256 (quick) / <= 2048 (thorough) x both axes "
        "x both dtypes are enumerated with a fixed operation list (every integer shift in (-n, n) for n <= 32); "
        "Hypothesis adds random n in 2..2048 (primes, powers of 2 and 3 and their neighbours forced), random shifts in "
        "(-n, n) incl. arbitrary doubles, half-integers, dyadic fractions. sines: 1-D/2-D/3-D arrays of sums of "
        "integer-cycle sinusoids strictly below Nyquist, any axis (also negative), C/F/strided layouts, scalar or "
        "per-trace shifts, optional second shift. corrmax / cluster: own Gaussian-derivative spikes (sigma >= 2 "
        "samples, order 0..3, up to 3 components) shifted by fshift or analytically, fed to wave_shift_corrmax / "
        "shift_waveform. parabola: sampled parabolas into parabolic_max. model: neurowaveforms.model."
        "generate_waveform with a sinusoid-sum spike. Oracles (FFT-free): integer shift == np.roll; zero == identity; "
        "fractional shift == periodic-sinc (Dirichlet) delay evaluated in extended precision / closed-form delayed "
        "sinusoids; composition == delay by the exact sum; per-trace == each trace delayed by its own value; shape, "
        "dtype preserved and real input bit-identical to a copy; estimated delay within 0.05 sample of the applied one "
        "and re-aligned copy within 0.05 * max slope of the original; parabola vertex recovered; every generated model "
        "trace is an exactly delayed scaled copy of the spike and the model is equivariant to permuting the traces. "
        "Tolerances, absolute on unit-amplitude inputs: 1e-12 + 4e-15*|shift| (float64; the second term is the double "
        "rounding of a phase of pi*|shift| rad) and 2e-5 (float32), summed over the two shifts of a composition. "
        "Non-trivial = a non-integer shift, or per-trace shifts, or prime n (parabola: non-integer interior vertex). "
        "Distinct = distinct case hash. Dimensions drawn on top of every Hypothesis case (absent = plain form): "
        "fshift call form (axis by keyword / positional / omitted when it is the last one / s by keyword / every "
        "parameter by keyword), read-only w and read-only / strided / reversed-view / unsigned per-trace shift arrays, "
        "w as C / F / strided / reversed view, the spectral input as C / F / strided view, 1-2 further calls with the "
        "SAME argument objects (must reproduce the first answer), a call on other data of the same shape first; "
        "wave_shift_corrmax / shift_waveform / parabolic_max / generate_waveform with float32 (parabolic_max also "
        "int32 / uint16 samples, oracle = the parabola through the three samples actually passed), strided / reversed "
        "/ Fortran / read-only arguments where the unchanged tree accepts them, mixed float widths, repeated calls "
        "with the same objects and after a call on other data; generate_waveform with fs / velocity / decay omitted "
        "(must equal the call spelling out the signature defaults) and with the default spike / default coordinates. "
        "Real-data scale (2-3 % of the Hypothesis cases, labels scale_*; Hypothesis draws one seed per case, the kind and "
        "all parameters are derived from it with default_rng, such a case is not shrunk): fshift on 1-2 traces of "
        "2^16..2^21 samples (2^k, 10^k, 3*2^k, their neighbours, primes, random lengths) carrying white noise (integer "
        "shifts: == np.roll), impulses on / next to multiples of 2^16..2^21, 10^5, 10^6 (fractional: one Dirichlet kernel "
        "placed at every impulse) or sinusoid sums, with scalar / composed / per-trace shifts that are or cross such "
        "multiples; fshift on 2^15..2^17 waveforms of 32..128 samples with one seed-generated shift per waveform "
        "(noise + integer shifts: gather oracle; sinusoid sums: closed form); parabolic_max on 2^16..1.4*10^6 rows; "
        "shift_waveform on 2^12..10^4 (thorough: up to 2^16) spikes; wave_shift_corrmax on a long trace with spikes next to "
        "the block boundaries. Same tolerances as the small cases.")
EXHAUSTIVE_NOTE = ("all lengths n <= 256 (quick) / n <= 2048 (thorough) x axis {0,1} x dtype {f4,f8} on the full impulse "
                   "basis with a fixed list of shifts (all integer shifts in (-n,n) for n <= 32); the shift values "
                   "themselves (a continuum) and the N-D / layout / scalar-type combinations are sampled")
ASSUMPTIONS = [
    "numpy.longdouble has a 64-bit mantissa (x86-64): the Dirichlet reference is evaluated in it (checked at import)",
    "for even n a fractional shift is only demanded on signals whose Nyquist bin is empty (a real Nyquist component "
    "cannot carry a fractional delay); the full impulse basis is used for integer shifts and odd n",
    "complex (already rfft'd) input is passed as a copy: the property only promises that a real-valued input is left "
    "untouched (fshift multiplies a complex input in place)",
    "0-d arrays and Python lists as shift argument are outside the quantifier (scalar = Python/NumPy scalar, per-trace "
    "= ndarray with one value per trace): the unchanged tree rejects them (s.reshape); lists as w / spike / "
    "wf_cluster / x / wxy are rejected as well (.shape)",
    "read-only arrays: accepted (and drawn) for a real w, the per-trace shifts, both spikes of wave_shift_corrmax, "
    "parabolic_max and generate_waveform; a complex w is multiplied in place and shift_waveform zeroes NaNs of its "
    "argument in place by design, so both reject read-only input and get writeable arrays (a fresh spectral copy per "
    "call)",
    "a repeated call with the same argument objects must agree with the first call within the tolerance of one shift "
    "(fshift) / satisfy the same oracle again (the other entry points); whether shift_waveform and generate_waveform "
    "leave their arguments untouched is only observed through that second call",
    "parabolic_max on rows whose maximum value occurs more than once is only judged when the two occurrences are "
    "adjacent interior samples (first/last-maximum conventions then agree)",
    "delay estimation is only demanded for smooth spikes (Gaussian derivatives, sigma >= 2 samples) that stay inside "
    "the window with a margin of (5+order) sigma and |shift| < n/2",
    "the amplitude / delay formulas of neurowaveforms.model are not part of C07: each output trace is fitted (scale and "
    "delay from the 1-cycle component) and must then equal the closed-form delayed spike",
]
BUDGET = {"quick": 3200, "thorough": 110000}
SHRINK = {"quick": True, "thorough": True}
NMAX_ENUM = {"quick": 256, "thorough": 2048}

TOL = {"f8": 1e-12, "f4": 2e-5}
TOL_PER_SAMPLE = {"f8": 4e-15, "f4": 0.0}
DT = {"f8": np.float64, "f4": np.float32}
SDT = {"f8": np.float64, "f4": np.float32, "i8": np.int64, "i4": np.int32, "u2": np.uint16, "u8": np.uint64}
PDT = {"f8": np.float64, "f4": np.float32, "i4": np.int32, "u2": np.uint16}  # sample types handed to parabolic_max
SCAL = {"int": int, "float": float, "npf8": np.float64, "npf4": np.float32, "npi8": np.int64, "npi4": np.int32}
TOL_DELAY = 0.05  # "a few hundredths of a sample"

assert od.HAS_EXTENDED, "numpy.longdouble is not extended precision on this platform"


# =================================================================================================
# enumeration

def _h(n, i):
    return (n * 2654435761 + i * 40503 + 12345) % (2 ** 32)


def _enum_ops(n):
    ityp = ["int", "float", "npf8", "npf4", "npi8", "npi4"]
    ftyp = ["float", "npf8", "npf4"]
    ops = []

    def sc(v, i):
        if float(v) == int(v):
            t = ityp[(n + i) % len(ityp)]
            return {"v": int(v) if t in ("int", "npi8", "npi4") else float(v), "st": t}
        t = ftyp[(n + i) % len(ftyp)]
        return {"v": float(np.float32(v)) if t == "npf4" else float(v), "st": t}

    hk = _h(n, 1) % (2 * n - 1) - (n - 1)
    if n <= 32:
        ks = list(range(-(n - 1), n))
    elif n <= 256:
        ks = sorted({0, 1, -1, n - 1, -(n - 1), n // 2, -(n // 2) - 1 if n // 2 + 1 < n else 0, hk})
    else:
        ks = sorted({0, 1, -(n - 1), hk})
    for i, k in enumerate(ks):
        ops.append({"op": "shift", "s": sc(k, i)})
    hf = (_h(n, 2) % (2 * n - 2) - (n - 1)) + (1 + _h(n, 3) % 997) / 998.0  # arbitrary double in (-(n-1), n-1)
    fr = [hf, 0.5] if n > 256 else [hf, 0.5, -0.25, -(n - 1) + 0.001, 1e-9]
    for i, v in enumerate(fr):
        ops.append({"op": "shift", "s": sc(v, i)})
    ka = _h(n, 4) % (2 * n - 1) - (n - 1)
    kb = _h(n, 5) % (2 * n - 1) - (n - 1)
    ops.append({"op": "compose", "a": sc(ka, 0), "b": sc(kb, 1)})
    fa = (_h(n, 6) % (2 * n - 2) - (n - 1)) + (1 + _h(n, 7) % 63) / 64.0
    fb = (_h(n, 8) % (2 * n - 2) - (n - 1)) + (1 + _h(n, 9) % 997) / 998.0
    ops.append({"op": "compose", "a": sc(fa, 0), "b": sc(fb, 1)})
    ops.append({"op": "pertrace", "palette": [0, 1, -1, hk, int(ka), n - 1], "seed": _h(n, 10),
                "sdtype": ["f8", "i8", "f4", "i4"][n % 4], "sshape": ["flat", "keep"][n % 2]})
    ops.append({"op": "pertrace", "palette": [0, float(hf), 0.5, int(kb), float(fa)], "seed": _h(n, 11),
                "sdtype": "f8", "sshape": ["flat", "keep"][(n // 2) % 2]})
    return ops


def enum_shards(tier):
    nmax = NMAX_ENUM[tier]
    nsh = 32 if tier == "quick" else 96
    return [{"ns": list(range(2 + i, nmax + 1, nsh))[::-1]} for i in range(nsh) if 2 + i <= nmax]


def enum_cases(desc):
    for n in desc["ns"]:
        ops = _enum_ops(n)
        for axis in (0, 1):
            for dt in ("f8", "f4"):
                yield {"mode": "basis", "n": n, "axis": axis, "dtype": dt, "layout": "C", "freq": False, "ops": ops}


# =================================================================================================
# strategies

_MEM1 = ["plain", "plain", "ro", "strided", "neg", "ro_strided"]  # memory of a 1-D argument
_SPECIAL_SMALL = [2, 3, 4, 5, 7, 8, 9, 16, 17, 27, 31, 32, 64, 81, 97, 127, 128, 243, 251, 255, 256]
_SPECIAL_BIG = [257, 509, 511, 512, 513, 729, 1021, 1023, 1024, 1025, 2039, 2047, 2048]


def _st_value(n):
    """A shift value in (-n, n): Python int or float."""
    m = n - 1
    ints = st.one_of(st.integers(-m, m), st.sampled_from(sorted({0, 1, -1, m, -m, n // 2, -(n // 2)})))
    fl = [st.floats(-float(m), float(m), allow_nan=False, allow_infinity=False),
          st.builds(lambda k, q: k + q / 64.0, st.integers(-m, m - 1), st.integers(1, 63)),
          st.builds(lambda k: k + 0.5, st.integers(-m, m - 1)),
          st.builds(lambda k, q: k + q / 1009.0, st.integers(-m, m - 1), st.integers(1, 1008))]
    return st.one_of(ints, *fl)


@st.composite
def _st_scalar(draw, n):
    v = draw(_st_value(n))
    if isinstance(v, int):
        t = draw(st.sampled_from(["int", "float", "npf8", "npf4", "npi8", "npi4"]))
        v = int(v) if t in ("int", "npi8", "npi4") else float(v)
    else:
        t = draw(st.sampled_from(["float", "float", "npf8", "npf4"]))
        v = float(np.float32(v)) if t == "npf4" else float(v)
    return {"v": v, "st": t}


@st.composite
def _st_pertrace(draw, n):
    allint = draw(st.booleans())
    k = draw(st.integers(1, 6))
    if allint:
        m = n - 1
        pal = [draw(st.one_of(st.integers(-m, m), st.sampled_from([0, 1, -1, m, -m]))) for _ in range(k)]
        sd = draw(st.sampled_from(["f8", "f4", "i8", "i4", "u2", "u8"]))
        if sd[0] == "u":
            pal = [abs(v) for v in pal]
    else:
        pal = [draw(_st_value(n)) for _ in range(k)]
        sd = draw(st.sampled_from(["f8", "f8", "f4"]))
    return {"palette": pal, "seed": draw(st.integers(0, 2 ** 32 - 1)), "sdtype": sd,
            "sshape": draw(st.sampled_from(["flat", "nd", "keep"])),
            "smem": draw(st.sampled_from(["plain", "plain", "ro", "strided", "neg", "ro_strided"]))}


_CALLS = ["kw", "kw", "pos", "skw", "defaxis", "defaxis", "allkw"]


@st.composite
def _st_dim(draw, rep_share):
    """The dimensions of an fshift case that do not change the expected result: call form, read-only input, layout of
    the spectral input, number of further calls with the same argument objects."""
    return {"call": draw(st.sampled_from(_CALLS)), "ro": draw(st.booleans()),
            "xspec": draw(st.sampled_from(["C", "C", "F", "view"])),
            "rep": draw(st.sampled_from([0] * rep_share + [1, 1, 2]))}


@st.composite
def _st_basis(draw, big):
    if big:
        n = draw(st.one_of(st.integers(257, 2048), st.sampled_from(_SPECIAL_BIG)))
        nops = draw(st.integers(1, 3))
    else:
        n = draw(st.one_of(st.integers(2, 256), st.integers(2, 40), st.sampled_from(_SPECIAL_SMALL)))
        nops = draw(st.integers(1, 6))
    ops = []
    for _ in range(nops):
        kind = draw(st.sampled_from(["shift", "shift", "compose", "pertrace", "pertrace"]))
        if kind == "shift":
            ops.append({"op": "shift", "s": draw(_st_scalar(n))})
        elif kind == "compose":
            ops.append({"op": "compose", "a": draw(_st_scalar(n)), "b": draw(_st_scalar(n))})
        else:
            ops.append({"op": "pertrace", **draw(_st_pertrace(n))})
    return {"mode": "basis", "n": n, "axis": draw(st.sampled_from([0, 1, -1, -2])),
            "dtype": draw(st.sampled_from(["f8", "f4"])), "layout": draw(st.sampled_from(["C", "F", "view", "neg"])),
            "freq": draw(st.sampled_from([False, False, True])), "ops": ops,
            "dim": draw(_st_dim(21 if big else 6))}


@st.composite
def _st_sines(draw):
    n = draw(st.one_of(st.integers(2, 300), st.integers(2, 2048), st.sampled_from(_SPECIAL_SMALL + _SPECIAL_BIG)))
    ndim = draw(st.sampled_from([1, 2, 2, 3]))
    cap = max(1, min(48, 40000 // n))
    others = []
    for _ in range(ndim - 1):
        d = draw(st.integers(1, max(1, cap)))
        others.append(d)
        cap = max(1, cap // d)
    pos = draw(st.integers(0, ndim - 1))
    shape = others[:pos] + [n] + others[pos:]
    axis = pos if draw(st.booleans()) else pos - ndim
    if draw(st.booleans()) or ndim == 1 and draw(st.booleans()):
        sh = {"kind": "scalar", "s": draw(_st_scalar(n))}
    else:
        sh = {"kind": "pertrace", **draw(_st_pertrace(n))}
    second = draw(st.one_of(st.none(), st.none(), _st_scalar(n)))
    return {"mode": "sines", "shape": shape, "axis": axis, "dtype": draw(st.sampled_from(["f8", "f4"])),
            "layout": draw(st.sampled_from(["C", "F", "view", "neg", "last"])),
            "freq": draw(st.sampled_from([False, False, True])),
            "seed": draw(st.integers(0, 2 ** 32 - 1)), "ncomp": draw(st.integers(1, 6)),
            "band": draw(st.sampled_from(["full", "full", "top", "low"])), "shift": sh, "second": second,
            "dim": draw(_st_dim(5)), "prime": draw(st.booleans())}


@st.composite
def _st_comps(draw):
    nc = draw(st.integers(1, 3))
    comps = []
    for i in range(nc):
        p = draw(st.integers(0, 3))
        sig = draw(st.one_of(st.floats(2.0, 8.0), st.floats(2.0, 2.5)))
        off = 0.0 if i == 0 else draw(st.floats(-2.0, 2.0)) * sig
        amp = 1.0 if i == 0 else draw(st.floats(-0.35, 0.35))  # the main lobe can never be cancelled
        comps.append([p, float(sig), float(off), float(amp)])
    return comps


@st.composite
def _st_delay(draw):
    return float(draw(st.one_of(st.floats(-60.0, 60.0), st.floats(-1.5, 1.5),
                                st.builds(lambda k, q: k + q / 100.0, st.integers(-30, 30), st.integers(0, 99)),
                                st.integers(-20, 20).map(float))))


@st.composite
def _st_corrmax(draw):
    return {"mode": "corrmax", "comps": draw(_st_comps()), "s": draw(_st_delay()), "pad": draw(st.floats(0.0, 12.0)),
            "extra": draw(st.integers(0, 1)), "coff": draw(st.floats(-1.0, 1.0)),
            "scale": draw(st.sampled_from([1.0, 1.0, 1e-6, 37.5, -80.0])),
            "dtype": draw(st.sampled_from(["f8", "f8", "f4"])), "copy": draw(st.sampled_from(["fshift", "analytic"])),
            "dtype2": draw(st.sampled_from([None, None, "f8", "f4"])),
            "mem": draw(st.sampled_from(_MEM1)), "mem2": draw(st.sampled_from(_MEM1)),
            "rep": draw(st.sampled_from([0, 1, 1])), "prime": draw(st.booleans())}


@st.composite
def _st_cluster(draw):
    nsp = draw(st.integers(3, 8))
    nshift = draw(st.integers(1, (nsp + 1) // 2 - 1))
    return {"mode": "cluster", "comps": draw(_st_comps()), "nspikes": nsp, "ntraces": draw(st.integers(1, 6)),
            "shifts": [draw(_st_delay()) for _ in range(nshift)], "pad": draw(st.floats(0.0, 8.0)),
            "extra": draw(st.integers(0, 1)), "coff": draw(st.floats(-1.0, 1.0)), "seed": draw(st.integers(0, 2 ** 32 - 1)),
            "sign": draw(st.sampled_from([1.0, -1.0])), "dtype": draw(st.sampled_from(["f8", "f8", "f4"])),
            "layout": draw(st.sampled_from(["C", "C", "F", "view", "neg", "last"])),
            "rep": draw(st.sampled_from([0, 1]))}


@st.composite
def _st_parabola(draw):
    ns = draw(st.integers(3, 64))
    nrows = draw(st.integers(1, 5))
    rows = []
    for _ in range(nrows):
        c = draw(st.one_of(st.floats(-2.0, ns + 1.0), st.floats(0.51, ns - 1.51 if ns > 3 else 0.9),
                           st.integers(0, ns - 1).map(float)))
        rows.append({"a": draw(st.floats(-100.0, 100.0)), "b": draw(st.floats(1e-3, 10.0)), "c": float(c)})
    return {"mode": "parabola", "ns": ns, "rows": rows, "as2d": draw(st.booleans()) or nrows > 1,
            "dtype": draw(st.sampled_from(["f8", "f8", "f4", "i4", "u2"])),
            "layout": draw(st.sampled_from(["C", "C", "F", "last", "neg", "ro", "ro_F"])),
            "rep": draw(st.sampled_from([0, 1]))}


@st.composite
def _st_model(draw):
    return {"mode": "model", "n": draw(st.integers(8, 256)), "ntraces": draw(st.integers(1, 24)),
            "seed": draw(st.integers(0, 2 ** 32 - 1)), "ncomp": draw(st.integers(1, 5)),
            "fs": draw(st.sampled_from([30000, 2500, 30000.0])), "vel": draw(st.floats(0.5, 6.0)),
            "decay": draw(st.sampled_from([3.0, 2.0, 1.0, 2.5])), "default_sxy": draw(st.booleans()),
            "sdtype": draw(st.sampled_from(["f8", "f8", "f4"])), "ro": draw(st.booleans()),
            "wlayout": draw(st.sampled_from(["C", "F", "last"])), "rep": draw(st.booleans()),
            "extra": draw(st.sampled_from([None, None, "omit", "defwxy", "defspike"]))}


# ---- real-data scale (guide item 7): a rare class whose processing axis has the size of real data --------------
# long: one or two traces of 2^16 .. 2^21 samples (round lengths, their neighbours, lengths with large prime factors)
# through fshift; batch: 2^15 .. 2^17 waveforms of 32..128 samples through fshift with one shift per waveform;
# parabola: 2^16 .. 1.4*10^6 rows through parabolic_max; cluster: 2^12 .. 10^4 (thorough: .. 2^16) spikes through
# shift_waveform; corrmax: a long trace with spikes next to the seams through wave_shift_corrmax. Positions, lengths
# and shifts sit on and next to multiples of these block sizes (a later "process in blocks of 2^20 / 10^6" change
# introduces a seam that inputs of a few hundred samples never cross).
#
# Hypothesis draws ONE 32-bit seed per scale case; the kind and every parameter are derived from it with
# np.random.default_rng (function _scale_params, a pure function of the case). Drawing them with Hypothesis was tried
# first: in a class this rare the counts per kind were erratic (0-33 cases of a kind per quick run, 3 % instead of 40 %
# of the long traces beyond 2^20), because Hypothesis fills a run with mutated siblings of a few examples (spans copied
# between positions), which keeps the leading choices and favours small integers = the first branches. The price is
# that a failing scale case is not shrunk; its message names the length, shifts and positions.
_SEAMS = [2 ** 16, 2 ** 17, 2 ** 18, 2 ** 19, 2 ** 20, 2 ** 21, 10 ** 5, 10 ** 6, 2 * 10 ** 6]
_LONG_ROUND = [2 ** 16, 10 ** 5, 2 ** 17, 2 ** 18, 3 * 2 ** 17, 2 ** 19, 10 ** 6, 2 ** 20, 3 * 2 ** 19, 2 * 10 ** 6,
               2 ** 21]
# primes and twice a prime: Bluestein lengths (a prime near 2^21 costs 2 s per call and is left out)
_LONG_PRIMEY = [65521, 65537, 131071, 2 * 65521, 262139, 524287, 1000003, 1048573, 2 * 524287, 1048583]
_NEAR = [-3, -2, -1, 1, 2, 3, 5, 16, 1000]
_BATCH_ELEMS = 2 ** 22 + 2 ** 10  # waveforms x samples of a batch case: 34 MB per float64 array, ~10 alive at the peak
# weights of the kinds inside the scale class
_SCALE_KINDS = [("long", 10), ("batch", 4), ("parabola", 3), ("corrmax", 2), ("cluster", 1)]


def _mix(u):
    u = (u * 2654435761 + 0x9E3779B9) % 2 ** 32
    u ^= u >> 15
    u = (u * 2246822519) % 2 ** 32
    return u ^ (u >> 13)


class _R:
    """Choices derived from the seed of a scale case."""

    def __init__(self, seed):
        self.r = np.random.default_rng([int(seed), 0xC07])

    def int(self, lo, hi):
        return int(self.r.integers(lo, hi + 1))

    def flt(self, lo, hi):
        return float(self.r.uniform(lo, hi))

    def pick(self, seq):
        return seq[int(self.r.integers(0, len(seq)))]

    def wpick(self, *pairs):
        """pairs (weight, value or zero-argument function)"""
        k = int(self.r.integers(0, sum(w for w, _ in pairs)))
        for w, v in pairs:
            if k < w:
                return v() if callable(v) else v
            k -= w

    def seed(self):
        return int(self.r.integers(0, 2 ** 32))


def _seam_positions(n):
    """sample indices on and right next to the multiples of the block sizes, inside 0..n-1"""
    out = {0, 1, n - 2, n - 1, n // 2}
    for b in _SEAMS:
        for m in range(1, min(n // b, 32) + 1):
            out.update(b * m + d for d in (-2, -1, 0, 1))
    return sorted(v for v in out if 0 <= v < n)


def _p_long_n(R, nmax=2 ** 21 + 2 ** 16):
    near = lambda b: (lambda: b + R.pick(_NEAR[1:] if b == 2 ** 20 else _NEAR))  # noqa: E731  (2^20 - 3: _LONG_PRIMEY)
    parts = [(4, lambda: R.pick([v for v in _LONG_ROUND if v <= nmax])), (1, near(2 ** 16)), (4, near(2 ** 20)),
             (2, near(10 ** 6)), (2, lambda: R.int(2 ** 16, 2 ** 18)), (3, lambda: R.int(2 ** 20 - 5000, 2 ** 20 + 5000)),
             (1, lambda: R.int(2 ** 16, nmax)), (1, lambda: R.pick(_LONG_PRIMEY))]
    if nmax >= 2 ** 21 + 1000:
        parts += [(2, near(2 ** 21)), (1, near(2 * 10 ** 6))]
    return R.wpick(*parts)


def _p_value_long(R, n, intonly):
    """A shift in (-n, n) for a long trace: any integer / double, the ends of the range, shifts that are / carry a sample
    across a multiple of a block size, and the sub-sample / few-sample shifts of real use."""
    m = n - 1
    seams = sorted({v + d for b in _SEAMS for v in (b, -b, n - b, b - n) for d in (-1, 0, 1) if abs(v + d) <= m - 1})
    ints = lambda: R.wpick((1, lambda: R.int(-m, m)), (1, lambda: R.pick(sorted({0, 1, -1, m, -m, n // 2, -(n // 2)}))),  # noqa: E731
                           (2, lambda: R.pick(seams)), (1, lambda: R.int(-64, 64)))
    if intonly:
        return ints()
    frac = lambda: (R.wpick((2, lambda: R.pick(seams)), (1, lambda: R.int(-m + 1, m - 1)), (1, lambda: R.int(-8, 8)))  # noqa: E731
                    + R.pick([0.5, -0.25, 1 / 64.0, 501 / 1009.0, -1e-3]))
    return R.wpick((1, ints), (3, frac), (1, lambda: R.flt(-m, m)), (1, lambda: R.flt(-1.0, 1.0)))


def _p_scalar(R, v):
    """like _st_scalar: the Python / NumPy scalar type a value is handed over as"""
    if isinstance(v, int):
        t = R.pick(["int", "float", "npf8", "npf4", "npi8", "npi4"])
        v = int(v) if t in ("int", "npi8", "npi4") else float(v)
    else:
        t = R.pick(["float", "float", "npf8", "npf4"])
        v = float(np.float32(v)) if t == "npf4" else float(v)
    return {"v": v, "st": t}


def _p_dim(R):
    return {"call": R.pick(_CALLS), "ro": R.pick([False, True]), "xspec": R.pick(["C", "C", "F", "view"]),
            "rep": R.wpick((19, 0), (1, 1))}


def _p_comps(R):
    comps = []
    for i in range(R.int(1, 3)):
        sig = R.pick([R.flt(2.0, 8.0), R.flt(2.0, 2.5)])
        comps.append([R.int(0, 3), sig, 0.0 if i == 0 else R.flt(-2.0, 2.0) * sig, 1.0 if i == 0 else R.flt(-0.35, 0.35)])
    return comps


def _p_delay(R):
    return float(R.wpick((1, lambda: R.flt(-60.0, 60.0)), (1, lambda: R.flt(-1.5, 1.5)),
                         (1, lambda: R.int(-30, 30) + R.int(0, 99) / 100.0), (1, lambda: R.int(-20, 20))))


def _p_long(R, heavy):
    n = _p_long_n(R)
    intonly = R.pick([False, True])
    kind = R.pick(["shift", "shift", "compose", "pertrace"])
    if kind == "shift":
        op = {"op": "shift", "s": _p_scalar(R, _p_value_long(R, n, intonly))}
    elif kind == "compose":
        op = {"op": "compose", "a": _p_scalar(R, _p_value_long(R, n, intonly)),
              "b": _p_scalar(R, _p_value_long(R, n, intonly))}
    else:
        op = {"op": "pertrace", "values": [_p_value_long(R, n, intonly), _p_value_long(R, n, intonly)],
              "sdtype": R.pick(["f8", "f8", "f4", "i8", "i4"] if intonly else ["f8", "f8", "f4"]),
              "sshape": R.pick(["flat", "nd", "keep"]), "smem": R.pick(["plain", "plain", "ro", "strided", "neg"])}
    ntr = 2 if kind == "pertrace" else R.pick([1, 1, 1, 2])
    seams = _seam_positions(n)
    return {"n": n, "ntr": ntr, "orient": R.pick(["1d", "rows", "cols"] if ntr == 1 else ["rows", "rows", "cols"]),
            "negaxis": R.pick([False, True]), "dtype": R.pick(["f8", "f8", "f4"]), "layout": R.pick(["C", "C", "F"]),
            "freq": R.pick([False, False, False, True]),
            "sig": R.pick(["noise", "impulses", "sines"] if intonly else ["impulses", "sines", "sines"]),
            "pos": [R.wpick((2, lambda: R.pick(seams)), (1, lambda: R.int(0, n - 1))) for _ in range(R.int(1, 6))],
            "seed": R.seed(), "ncomp": R.int(1, 3), "band": R.pick(["full", "full", "top", "low"]), "op": op,
            "dim": _p_dim(R)}


def _p_batch(R, heavy):
    # mostly up to 64 samples: only these reach 2^16 waveforms within _BATCH_ELEMS
    ns = R.wpick((3, lambda: R.int(32, 64)), (1, lambda: R.int(65, 128)),
                 (2, lambda: R.pick([32, 33, 40, 61, 64, 82, 121, 127, 128])))
    cap = _BATCH_ELEMS // ns
    cands = [b + d for b in (2 ** 15, 5 * 10 ** 4, 2 ** 16, 10 ** 5, 2 ** 17) for d in (-1, 0, 1, 2) if b + d <= cap]
    over = [v for v in cands if v > 2 ** 16] or cands[-4:]
    nw = R.wpick((1, lambda: R.pick(cands)), (3, lambda: R.pick(over)), (1, lambda: R.int(2 ** 15, cap)))
    sig = R.pick(["noise_int", "sines", "sines"])
    intonly = sig == "noise_int" or R.pick([False, False, True])
    if R.int(0, 3):
        sh = {"kind": "pertrace", "sseed": R.seed(),
              "sdtype": R.pick(["f8", "f8", "f4", "i8", "i4"] if intonly else ["f8", "f8", "f4"]),
              "sshape": R.pick(["flat", "nd", "keep"]), "smem": R.pick(["plain", "plain", "ro", "strided", "neg"])}
    else:
        m = ns - 1
        v = R.int(-m, m) if intonly or R.int(0, 3) == 0 else R.wpick(
            (1, lambda: R.flt(-m, m)), (1, lambda: R.int(-m, m - 1) + R.int(1, 63) / 64.0), (1, lambda: R.int(-m, m - 1) + 0.5))
        sh = {"kind": "scalar", "s": _p_scalar(R, v)}
    return {"ns": ns, "nw": nw, "sig": sig, "intonly": intonly, "shift": sh, "orient": R.pick(["rows", "rows", "cols"]),
            "negaxis": R.pick([False, True]), "dtype": R.pick(["f8", "f8", "f4"]), "layout": R.pick(["C", "C", "F"]),
            "seed": R.seed(), "ncomp": R.int(1, 3), "band": R.pick(["full", "full", "top", "low"]), "dim": _p_dim(R)}


def _p_parabola(R, heavy):
    # mostly 3..4 samples per row: only these reach 10^6 / 2^20 rows within 2^22 samples
    ns = R.wpick((3, lambda: R.int(3, 4)), (1, lambda: R.int(5, 8)), (1, lambda: R.int(9, 64)), (1, lambda: R.pick([16, 32, 64])))
    cap = (2 ** 22 + 2 ** 10) // ns
    cands = [b + d for b in (2 ** 16, 10 ** 5, 2 ** 17, 2 ** 18, 2 ** 19, 10 ** 6, 2 ** 20, 2 * 10 ** 6, 2 ** 21)
             for d in (-1, 0, 1) if b + d <= cap]
    nrows = R.wpick((2, lambda: R.pick(cands[-6:])), (1, lambda: R.pick(cands)), (1, lambda: R.int(2 ** 16, cap)))
    return {"ns": ns, "nrows": nrows, "seed": R.seed(), "dtype": R.pick(["f8", "f8", "f4"]),
            "layout": R.pick(["C", "C", "F", "ro"])}


def _p_cluster(R, heavy):
    sizes = [(3, [4095, 4096, 4097]), (2, [8191, 8192, 8193]), (1, [9999, 10000, 10001])]  # 150 us per spike: 0.6 - 1.5 s
    if heavy:
        sizes += [(3, [9999, 10000, 10001]), (3, [16383, 16384, 16385]), (1, [32767, 32768, 32769]),
                  (1, [65535, 65536, 65537])]  # 1.5 - 10 s per case
    return {"comps": _p_comps(R), "nspikes": R.pick(R.wpick(*sizes)), "ntraces": R.int(1, 2),
            "smax": R.pick([1.5, 4.0, 20.0]), "pad": R.flt(0.0, 8.0), "extra": R.int(0, 1), "coff": R.flt(-1.0, 1.0),
            "seed": R.seed(), "sign": R.pick([1.0, -1.0]), "dtype": R.pick(["f8", "f8", "f4"]),
            "layout": R.pick(["C", "C", "F"])}


def _p_corrmax(R, heavy):
    n = _p_long_n(R, 2 ** 20 + 5000)
    seams = _seam_positions(n)
    return {"n": n, "comps": _p_comps(R), "s": _p_delay(R),
            "pos": [R.wpick((2, lambda: R.pick(seams)), (1, lambda: R.int(0, n - 1))) for _ in range(R.int(1, 3))],
            "coff": R.flt(-1.0, 1.0), "seed": R.seed(), "scale": R.pick([1.0, 1.0, 1e-6, 37.5, -80.0]),
            "dtype": R.pick(["f8", "f8", "f4"]), "copy": R.pick(["fshift", "analytic"])}


_SCALE_PARAMS = {"long": _p_long, "batch": _p_batch, "parabola": _p_parabola, "cluster": _p_cluster,
                 "corrmax": _p_corrmax}


def _scale_kind(seed):
    order = [k for k, w in _SCALE_KINDS for _ in range(w)]
    return order[_mix(seed) % len(order)]


def _scale_params(case):
    """All parameters of a scale case: those spelled out in the case (a hand-written replay) win over the ones derived
    from its seed."""
    p = _SCALE_PARAMS[case["kind"]](_R(case["seed"]), bool(case.get("heavy", False)))
    p.update({k: v for k, v in case.items() if k not in ("seed",)})
    return p


def _st_scale(tier):
    # three draws hashed into the seed: single draws repeat (0, 2^32-1 and copies of the other integers of the example
    # made 40 % of the seeds, the same ones in every worker process)
    def build(t):
        u = _mix(_mix(_mix(t[0]) ^ t[1]) ^ t[2])
        return {"mode": "scale", "kind": _scale_kind(u), "seed": u, "heavy": tier == "thorough"}

    return st.tuples(*[st.integers(0, 2 ** 32 - 1)] * 3).map(build)


_SUB = {"basis_big": _st_basis(True), "basis": _st_basis(False), "sines": _st_sines(), "corrmax": _st_corrmax(),
        "cluster": _st_cluster(), "parabola": _st_parabola(), "model": _st_model()}
# weights out of 20; large-n basis cases are the expensive ones (0.1-1 s each)
_WEIGHTS = {"quick": {"basis_big": 2, "basis": 5, "sines": 7, "corrmax": 3, "cluster": 1, "parabola": 1, "model": 1},
            "thorough": {"basis_big": 1, "basis": 5, "sines": 8, "corrmax": 3, "cluster": 1, "parabola": 1, "model": 1}}


@st.composite
def _case(draw, tier):
    modes = [m for m, w in _WEIGHTS[tier].items() for _ in range(w)]
    return draw(_SUB[draw(st.sampled_from(modes))])


# share of the real-data-scale class, per mille of the generated cases (the evidence shows 2-3 %: Hypothesis adds mutated
# siblings of the rare examples); a case costs 0.2-3 s
_SCALE_SHARE = {"quick": 20, "thorough": 15}


def strategy(tier):
    return weighted((1000 - _SCALE_SHARE[tier], _case(tier)), (_SCALE_SHARE[tier], _st_scale(tier)))


# =================================================================================================
# helpers

def _tol(dt, *shifts):
    """Absolute tolerance on unit-amplitude data for a (sequence of) shift(s). float64: the phase of the highest bin is
    pi*|s| rad, a double of that size carries a rounding error of ~1.1e-16*pi*|s| per operation, so even an ideal
    double implementation is off by ~1e-15*|s| (measured on single top-band sinusoids: 0.95e-15*|s|); 4e-15*|s| is
    added to the 1e-12 floor. float32: 2e-5 (measured 5e-7), the phase is computed in double."""
    return sum(TOL[dt] + TOL_PER_SAMPLE[dt] * abs(float(s)) for s in shifts)


def _mk_scalar(d):
    return SCAL[d["st"]](d["v"])


def _val(x):
    """exact double value of a materialised scalar shift"""
    return float(x)


def _layout(a, layout, rng=None):
    """An array equal to `a` with the requested memory layout: C, F (Fortran order), view (every second row of a
    larger array), last (every second element along the last axis of a larger array), neg (negative stride along the
    last axis). The filler of the larger arrays is 7, so that reading the buffer instead of the view shows."""
    if layout == "F":
        return np.asfortranarray(a)
    if layout == "view":
        big = np.zeros((2 * a.shape[0],) + a.shape[1:], dtype=a.dtype)
        big[1::2] = 7
        big[::2] = a
        return big[::2]
    if layout == "last":
        big = np.zeros(a.shape[:-1] + (2 * a.shape[-1],), dtype=a.dtype)
        big[..., 1::2] = 7
        big[..., ::2] = a
        return big[..., ::2]
    if layout == "neg":
        return np.ascontiguousarray(a[..., ::-1])[..., ::-1]
    return np.ascontiguousarray(a)


def _mem(a, kind):
    """An array equal to `a` (any shape) held the way `kind` says: plain, ro (read-only, what np.memmap(mode='r') hands
    out), strided, neg (reversed view), ro_strided."""
    if kind in ("strided", "ro_strided"):
        a = _layout(a, "last")
    elif kind == "neg":
        a = _layout(a, "neg")
    else:
        a = np.array(a, copy=True)
    if kind in ("ro", "ro_strided"):
        a.flags.writeable = False
    return a


def _pertrace_values(op, other_shape):
    """(array handed to fshift, float64 array of the exact values per trace in the shape of the other axes)"""
    ntr = int(np.prod(other_shape)) if len(other_shape) else 1
    rng = np.random.default_rng(op["seed"])
    pal = np.array([float(v) for v in op["palette"]], dtype=np.float64)
    which = rng.integers(0, len(pal), size=ntr)
    which[:len(pal)] = np.arange(len(pal))[:ntr]  # every palette value is used when there are enough traces
    vals = pal[which].astype(SDT[op["sdtype"]])
    exact = vals.astype(np.float64).reshape(other_shape if len(other_shape) else (1,))
    return vals, exact


def _shape_pertrace(vals, op, full_shape, axis):
    keep = list(full_shape)
    keep[axis] = 1
    other = [d for i, d in enumerate(full_shape) if i != axis % len(full_shape)]
    if op["sshape"] == "flat" or len(full_shape) == 1:
        out = vals.reshape(-1)
    elif op["sshape"] == "keep":
        out = vals.reshape(keep)
    else:
        out = vals.reshape(other)
    return _mem(out, op.get("smem", "plain"))


def _untouched(ctx, w, w0, what):
    ctx.check(w.shape == w0.shape and w.dtype == w0.dtype and np.array_equal(w, w0), "C07.input_mutated",
              lambda: f"{what}: the real-valued input array was modified by the call")


def _err(y, e):
    d = np.max(np.abs(np.asarray(y, dtype=np.float64) - e)) if np.size(e) else 0.0
    return float(d)


class _Shifter:
    """Applies fshift in the time domain or on an rfft'd copy (ns given), with the checks every call must pass.
    `dim` (case field, absent in old cases): call form, read-only input, layout of the spectral copy, number of further
    calls with the SAME argument objects."""

    def __init__(self, ctx, n, axis, freq, dtype, dim=None):
        self.ctx, self.n, self.axis, self.freq, self.dtype = ctx, n, axis, freq, dtype
        self.f = sut.fourier().fshift
        dim = dim or {}
        self.form = dim.get("call", "kw")
        self.ro = bool(dim.get("ro", False))
        self.xspec = dim.get("xspec", "C")
        self.rep = int(dim.get("rep", 0))
        ctx.label("call_" + self.form, "w_readonly" if self.ro and not freq else "w_writeable", f"repeat{self.rep}")
        if freq:
            ctx.label("spectral_layout_" + self.xspec)

    def _invoke(self, kind, w, s, ns):
        """One call in the drawn form. ns is None for real input."""
        ctx, f, axis = self.ctx, self.f, self.axis
        form = self.form
        if form == "defaxis" and axis % w.ndim != w.ndim - 1:
            form = "kw"
        if form == "pos":
            return ctx.call(kind, f, w, s, axis) if ns is None else ctx.call(kind, f, w, s, axis, ns)
        if form == "skw":
            return ctx.call(kind, f, w, s=s, axis=axis) if ns is None else ctx.call(kind, f, w, s=s, axis=axis, ns=ns)
        if form == "defaxis":
            return ctx.call(kind, f, w, s) if ns is None else ctx.call(kind, f, w, s, ns=ns)
        if form == "allkw":
            return ctx.call(kind, f, w=w, s=s, axis=axis, ns=ns)
        return ctx.call(kind, f, w, s, axis=axis) if ns is None else ctx.call(kind, f, w, s, axis=axis, ns=ns)

    def __call__(self, x, s, what):
        ctx = self.ctx
        s0 = s.copy() if isinstance(s, np.ndarray) else s

        def shifts_untouched(tag):
            if isinstance(s, np.ndarray):
                # callers hand in the same header array (h["sample_shift"]) for every chunk
                ctx.check(s.shape == s0.shape and s.dtype == s0.dtype and np.array_equal(s, s0),
                          "C07.shift_array_mutated", lambda: f"{what}{tag}: the per-trace shift array was modified")

        if not self.freq:
            if self.ro and x.flags.writeable:
                x = x.view()
                x.flags.writeable = False
            x0 = x.copy(order="K")
            y = None
            for r in range(1 + self.rep):
                tag = "" if r == 0 else f" (call {r + 1} with the same argument objects)"
                yr = self._invoke("C07.fshift", x, s, None)
                if yr is ctx.CRASH:
                    return None
                _untouched(ctx, x, x0, what + tag)
                shifts_untouched(tag)
                if not ctx.check(isinstance(yr, np.ndarray) and yr.shape == x.shape and yr.dtype == x.dtype,
                                 "C07.shape_dtype",
                                 lambda: f"{what}{tag}: input {x.shape} {x.dtype} -> output {getattr(yr, 'shape', None)} "
                                         f"{getattr(yr, 'dtype', type(yr))}"):
                    return None
                if r == 0:
                    y = yr
                    ya = np.array(yr, dtype=np.float64, copy=True)
                else:
                    self._same(yr, ya, s0, what + tag)
            return y
        X = np.fft.rfft(x, axis=self.axis)
        y = None
        for r in range(1 + self.rep):
            tag = "" if r == 0 else f" (call {r + 1} with the same shift object)"
            Xc = _layout(X.copy(), self.xspec)  # a complex input is multiplied in place by design: fresh copy per call
            Y = self._invoke("C07.fshift_spectral", Xc, s, self.n)
            if Y is ctx.CRASH:
                return None
            shifts_untouched(tag)
            if not ctx.check(isinstance(Y, np.ndarray) and Y.shape == X.shape and Y.dtype == X.dtype, "C07.shape_dtype",
                             lambda: f"{what}{tag} (spectral input): input {X.shape} {X.dtype} -> output "
                                     f"{getattr(Y, 'shape', None)} {getattr(Y, 'dtype', type(Y))}"):
                return None
            yr = np.fft.irfft(Y, self.n, axis=self.axis)
            if r == 0:
                y = yr
            else:
                self._same(yr, np.asarray(y, dtype=np.float64), s0, what + tag)
        return y

    def _same(self, yr, ya, s0, what):
        """A further call with the same argument objects must give the first answer again (each of the two is within
        the tolerance of one shift of the exact delay, data of unit amplitude)."""
        smax = float(np.max(np.abs(np.asarray(s0, dtype=np.float64)))) if np.size(s0) else 0.0
        tol = 2 * _tol(self.dtype, smax)
        e = _err(yr, ya)
        self.ctx.stat("err_repeat_over_tol_" + self.dtype, e / tol)
        self.ctx.check(e <= tol, "C07.repeat_call",
                       lambda: f"{what}: result differs from the first call's by {e:.3g}")


def _n_labels(ctx, n):
    ctx.label("n_even" if n % 2 == 0 else "n_odd")
    if od.is_prime(n):
        ctx.label("n_prime")
    if n & (n - 1) == 0:
        ctx.label("n_pow2")
    m = n
    while m % 3 == 0:
        m //= 3
    if m == 1 and n > 1:
        ctx.label("n_pow3")
    ctx.label("n<=32" if n <= 32 else ("n<=256" if n <= 256 else "n>256"))
    return od.is_prime(n)


# =================================================================================================
# mode: basis

def _run_basis(case, ctx):
    n, dt, freq = case["n"], case["dtype"], case["freq"]
    axis = case["axis"]
    ax = axis % 2
    tol = TOL[dt]
    prime = _n_labels(ctx, n)
    ctx.label("basis", "dtype_" + dt, f"axis{axis}", "layout_" + case["layout"], "spectral" if freq else "time")
    if prime:
        ctx.nontrivial = True
    t = np.arange(n)
    eye = np.eye(n)
    pfree = eye - np.outer(1.0 - 2.0 * (t % 2), 1.0 - 2.0 * (t % 2)) / n if n % 2 == 0 else None
    sh = _Shifter(ctx, n, axis, freq, dt, case.get("dim"))

    def inp(nyq_free):
        base = pfree if nyq_free else eye
        return _layout(base.astype(DT[dt]), case["layout"])

    def expected(kfs, which, nyq_free):
        es = [od.delayed_impulse(n, k, f, nyq_free) for k, f in kfs]
        E = od.circulant_columns(es, which, n)
        return E if ax == 0 else E.T

    for i, op in enumerate(case["ops"]):
        if op["op"] == "shift":
            s = _mk_scalar(op["s"])
            k, f = od.split_shift(_val(s))
            frac = f != 0
            nyq_free = frac and n % 2 == 0
            ctx.label("scalar_" + op["s"]["st"], "shift_frac" if frac else ("shift_zero" if k == 0 else "shift_int"))
            if frac:
                ctx.nontrivial = True
            x = inp(nyq_free)
            y = sh(x, s, f"op {i} shift {s!r}")
            if y is None:
                continue
            if not frac:
                e = _err(y, np.roll(eye, k, axis=ax))  # the property statement, literally
                if k == 0:
                    ctx.stat("err_zero_" + dt, e)
                    ctx.check(e <= tol, "C07.zero_identity",
                              lambda: f"n={n} axis={axis} {dt}: shift {s!r} is not the identity, max deviation {e:.3g}")
                else:
                    ctx.stat("err_int_over_tol_" + dt, e / _tol(dt, k))
                    ctx.check(e <= _tol(dt, k), "C07.int_roll",
                              lambda: f"n={n} axis={axis} {dt}: fshift(eye, {s!r}) != roll(eye, {k}), max deviation {e:.3g}")
            else:
                e = _err(y, expected([(k, f)], None, nyq_free))
                ctx.stat("err_frac_over_tol_" + dt, e / _tol(dt, _val(s)))
                ctx.check(e <= _tol(dt, _val(s)), "C07.frac_delay",
                          lambda: f"n={n} axis={axis} {dt}: fshift(basis, {s!r}) differs from the band-limited delay "
                                  f"by {e:.3g}")
        elif op["op"] == "compose":
            a, b = _mk_scalar(op["a"]), _mk_scalar(op["b"])
            ka, fa = od.split_shift(_val(a))
            kb, fb = od.split_shift(_val(b))
            k, f = od.split_shift(_val(a), _val(b))
            anyfrac = fa != 0 or fb != 0
            nyq_free = anyfrac and n % 2 == 0
            ctx.label("compose_frac" if anyfrac else "compose_int")
            if anyfrac:
                ctx.nontrivial = True
            x = inp(nyq_free)
            y1 = sh(x, a, f"op {i} compose first {a!r}")
            if y1 is None:
                continue
            y1 = y1.astype(DT[dt]) if freq else y1
            y2 = sh(y1, b, f"op {i} compose second {b!r}")
            if y2 is None:
                continue
            if f == 0:
                E = np.roll(pfree if nyq_free else eye, k, axis=ax)
            else:
                E = expected([(k, f)], None, nyq_free)
            e = _err(y2, E)
            ctx.stat("err_compose_over_tol_" + dt, e / _tol(dt, _val(a), _val(b)))
            ctx.check(e <= _tol(dt, _val(a), _val(b)), "C07.compose",
                      lambda: f"n={n} axis={axis} {dt}: fshift(fshift(x, {a!r}), {b!r}) differs from the delay by "
                              f"their sum by {e:.3g}")
        else:
            vals, exact = _pertrace_values(op, (n,))
            kfs_all = [od.split_shift(v) for v in exact]
            anyfrac = any(f != 0 for _, f in kfs_all)
            nyq_free = anyfrac and n % 2 == 0
            ctx.label("pertrace", "pertrace_" + op["sdtype"], "pertrace_" + op["sshape"],
                      "pertrace_frac" if anyfrac else "pertrace_int", "shiftmem_" + op.get("smem", "plain"))
            ctx.nontrivial = True
            uniq = {}
            which = np.zeros(n, dtype=int)
            for u, v in enumerate(exact):
                which[u] = uniq.setdefault(float(v), len(uniq))
            kfs = [od.split_shift(v) for v in uniq]
            x = inp(nyq_free)
            full_shape = (n, n)
            s_arr = _shape_pertrace(vals, {**op, "sshape": "flat" if op["sshape"] == "nd" else op["sshape"]},
                                    full_shape, ax)
            y = sh(x, s_arr, f"op {i} per-trace shifts")
            if y is None:
                continue
            e = _err(y, expected(kfs, which, nyq_free))
            tolp = _tol(dt, float(np.max(np.abs(exact))))
            ctx.stat("err_pertrace_over_tol_" + dt, e / tolp)
            ctx.check(e <= tolp, "C07.pertrace",
                      lambda: f"n={n} axis={axis} {dt}: per-trace shifts (palette {op['palette']}, {op['sdtype']}) "
                              f"do not delay each trace by its own value, max deviation {e:.3g}")


# =================================================================================================
# mode: sines

def _sine_params(rng, n, ncomp, band):
    fmax = (n - 1) // 2
    if band == "top":
        lo = max(0, fmax - 2)
    else:
        lo = 0
    hi = fmax if band != "low" else min(fmax, 3)
    freq = rng.integers(lo, hi + 1, size=ncomp)
    amp = rng.uniform(0.1, 1.0, size=ncomp)
    amp = amp / amp.sum()
    phase = rng.uniform(-np.pi, np.pi, size=ncomp)
    return freq, amp, phase


def _run_sines(case, ctx):
    shape, axis, dt = tuple(case["shape"]), case["axis"], case["dtype"]
    ndim = len(shape)
    ax = axis % ndim
    n = shape[ax]
    other = tuple(d for i, d in enumerate(shape) if i != ax)
    prime = _n_labels(ctx, n)
    ctx.label("sines", f"ndim{ndim}", "dtype_" + dt, "axis_neg" if axis < 0 else "axis_pos",
              "axis_last" if ax == ndim - 1 else "axis_notlast", "layout_" + case["layout"],
              "spectral" if case["freq"] else "time", "band_" + case["band"])
    if prime:
        ctx.nontrivial = True
    rng = np.random.default_rng(case["seed"])
    # shifts
    shd = case["shift"]
    if shd["kind"] == "scalar":
        s = _mk_scalar(shd["s"])
        exact = np.full(other if other else (1,), _val(s))
        ctx.label("scalar_" + shd["s"]["st"])
    else:
        vals, exact = _pertrace_values(shd, other)
        s = _shape_pertrace(vals, shd, shape, ax)
        ctx.label("pertrace", "pertrace_" + shd["sdtype"], "pertrace_" + shd["sshape"],
                  "shiftmem_" + shd.get("smem", "plain"))
        ctx.nontrivial = True
    second = _mk_scalar(case["second"]) if case.get("second") else None
    # signal, trace by trace, and its delayed version
    x = np.zeros(other + (n,))
    e = np.zeros(other + (n,))
    anyfrac = False
    for idx in np.ndindex(*other) if other else [()]:
        fr, am, ph = _sine_params(rng, n, case["ncomp"], case["band"])
        sv = float(exact[idx]) if other else float(exact[0])
        parts = (sv,) if second is None else (sv, _val(second))
        k, f = od.split_shift(*parts)
        anyfrac = anyfrac or f != 0 or od.split_shift(sv)[1] != 0
        x[idx] = od.sines(n, fr, am, ph, 0, 0.0)
        e[idx] = od.sines(n, fr, am, ph, k, f)
    if anyfrac:
        ctx.nontrivial = True
        ctx.label("shift_frac")
    else:
        ctx.label("shift_int")
    x = np.moveaxis(x, -1, ax)
    e = np.moveaxis(e, -1, ax)
    x = _layout(x.astype(DT[dt]), case["layout"])
    sh = _Shifter(ctx, n, axis, case["freq"], dt, case.get("dim"))
    if case.get("prime"):
        # a call on other data of the same shape and type first: whatever it leaves behind must not reach the next call
        ctx.label("primed")
        xp = np.ascontiguousarray(np.flip(x, axis=ax)) * DT[dt](0.5)
        sp = 0.75 if not isinstance(s, np.ndarray) else (s[..., ::-1].astype(np.float64) + 0.25)
        if ctx.call("C07.fshift", sut.fourier().fshift, xp, sp, axis=axis) is ctx.CRASH:
            return
    y = sh(x, s, f"sines shape {shape} axis {axis} shift {shd}")
    if y is None:
        return
    if second is not None:
        ctx.label("compose")
        y = y.astype(DT[dt]) if case["freq"] else y
        y = sh(y, second, f"sines second shift {second!r}")
        if y is None:
            return
    err = _err(y, e)
    smax = float(np.max(np.abs(exact)))
    tol = _tol(dt, smax) if second is None else _tol(dt, smax, _val(second))
    ctx.stat(("err_sines_compose_over_tol_" if second is not None else "err_sines_over_tol_") + dt, err / tol)
    kind = "C07.compose" if second is not None else ("C07.pertrace" if shd["kind"] == "pertrace" else
                                                     ("C07.frac_delay" if anyfrac else "C07.int_roll"))
    ctx.check(err <= tol, kind,
              lambda: f"sinusoid sums shape {shape} axis {axis} {dt} layout {case['layout']}: result differs from the "
                      f"closed-form delayed signal by {err:.3g} (shift {shd}, second {case.get('second')})")
    if not anyfrac and second is None and shd["kind"] == "scalar":
        # integer shift: also the literal roll of the input that was handed in
        k = od.split_shift(float(exact.flat[0]))[0]
        er = _err(y, np.roll(np.asarray(x, dtype=np.float64), k, axis=ax))
        ctx.stat("err_sines_roll_over_tol_" + dt, er / tol)
        ctx.check(er <= tol, "C07.int_roll", lambda: f"shape {shape} axis {axis}: fshift(x, {k}) != roll(x, {k}) by {er:.3g}")


# =================================================================================================
# mode: corrmax / cluster

def _spike_window(comps, smax, pad, extra, coff):
    hw = od.spike_halfwidth(comps)
    n = int(np.ceil(2 * (hw + smax + pad + 2))) + extra
    return n, n / 2 + coff


def _run_corrmax(case, ctx):
    comps, s, dt = case["comps"], case["s"], case["dtype"]
    n, c = _spike_window(comps, abs(s), case["pad"], case["extra"], case["coff"])
    scale = case["scale"]
    t = np.arange(n)
    ctx.label("corrmax", "dtype_" + dt, "n_even" if n % 2 == 0 else "n_odd", "copy_" + case["copy"],
              f"ncomp{len(comps)}", "sigma<2.5" if min(cp[1] for cp in comps) < 2.5 else "sigma>=2.5")
    k, f = od.split_shift(s)
    if f != 0:
        ctx.nontrivial = True
        ctx.label("shift_frac")
    else:
        ctx.label("shift_zero" if k == 0 else "shift_int")
    dt2 = case.get("dtype2") or dt
    mem, mem2, nrep = case.get("mem", "plain"), case.get("mem2", "plain"), int(case.get("rep", 0))
    ctx.label("spike_" + mem, "spike2_" + mem2, "dtype2_" + ("same" if dt2 == dt else dt2), f"repeat{nrep}")
    x = _mem((scale * od.spike(t, c, comps)).astype(DT[dt]), mem)
    if case["copy"] == "fshift":
        x0 = x.copy()
        x2 = ctx.call("C07.fshift", sut.fourier().fshift, x, s)
        if x2 is ctx.CRASH:
            return
        _untouched(ctx, x, x0, "fshift(spike)")
        if not ctx.check(isinstance(x2, np.ndarray) and x2.shape == x.shape and x2.dtype == x.dtype, "C07.shape_dtype",
                         lambda: f"fshift(spike {x.dtype}{x.shape}) -> {getattr(x2, 'dtype', None)}{getattr(x2, 'shape', None)}"):
            return
        # Gaussian derivatives of sigma >= 2 are band-limited to ~1e-7: cross-check against the analytic copy
        ea = _err(x2, scale * od.spike(t - s, c, comps)) / abs(scale)
        ctx.stat("err_spike_fshift_vs_analytic", ea)
        ctx.check(ea <= 1e-4, "C07.frac_delay", lambda: f"fshift(spike, {s}) differs from the analytically delayed spike "
                                                       f"by {ea:.3g} of its amplitude")
    else:
        x2 = scale * od.spike(t - s, c, comps)
    x2 = _mem(np.asarray(x2).astype(DT[dt2]), mem2)
    xa, xb = x.copy(), x2.copy()
    corrmax = sut.waveforms().wave_shift_corrmax
    if case.get("prime"):
        # the same function on another pair of the same length first
        ctx.label("primed")
        if ctx.call("C07.corrmax", corrmax, xa[::-1].copy(), 0.5 * xa) is ctx.CRASH:
            return
    slope = abs(scale) * od.spike_max_slope(comps)
    for r_ in range(1 + nrep):
        tag = "" if r_ == 0 else f" (call {r_ + 1} with the same argument objects)"
        r = ctx.call("C07.corrmax", corrmax, x, x2)
        if r is ctx.CRASH:
            return
        _untouched(ctx, x, xa, "wave_shift_corrmax(spike, .)" + tag)
        _untouched(ctx, x2, xb, "wave_shift_corrmax(., spike2)" + tag)
        if not ctx.check(isinstance(r, tuple) and len(r) == 2 and np.ndim(r[1]) == 0 and np.shape(r[0]) == x.shape,
                         "C07.corrmax_shape", "wave_shift_corrmax does not return (array like the input, scalar)" + tag):
            return
        rs, sc = r
        d = abs(float(sc) - s)
        ctx.stat("err_corrmax_shift", d)
        ctx.check(d <= TOL_DELAY, "C07.corrmax_shift",
                  lambda: f"n={n} comps={comps} applied shift {s}{tag}: estimated {float(sc):.4f} (off by {d:.3g} sample)")
        er = _err(rs, np.asarray(xa, dtype=np.float64))
        ctx.stat("err_corrmax_realign_over_slope", er / slope)
        ctx.check(er <= TOL_DELAY * slope + 1e-5 * abs(scale), "C07.corrmax_realign",
                  lambda: f"n={n} comps={comps} shift {s}{tag}: re-aligned copy deviates from the original by {er:.3g} = "
                          f"{er / slope:.3g} x max slope")


def _run_cluster(case, ctx):
    comps, shifts = case["comps"], case["shifts"]
    nsp, ntr = case["nspikes"], case["ntraces"]
    rng = np.random.default_rng(case["seed"])
    delays = rng.uniform(-2, 2, size=ntr)
    smax = max(abs(s) for s in shifts) + 2
    n, c = _spike_window(comps, smax, case["pad"], case["extra"], case["coff"])
    amps = rng.uniform(0.05, 0.7, size=ntr) * rng.choice([-1.0, 1.0], size=ntr)
    ipk = int(rng.integers(0, ntr))
    amps[ipk] = 1.0
    amps *= case["sign"]
    delays[ipk] = 0.0
    members = rng.permutation(nsp)[:len(shifts)]
    applied = np.zeros(nsp)
    applied[members] = shifts
    t = np.arange(n)
    normal = np.stack([amps[j] * od.spike(t - delays[j], c, comps) for j in range(ntr)])  # (trace, time)
    wf = np.stack([np.stack([amps[j] * od.spike(t - delays[j] - applied[i], c, comps) for j in range(ntr)])
                   for i in range(nsp)])  # (spike, trace, time)
    ctx.label("cluster", f"nshifted{len(shifts)}", "ntraces1" if ntr == 1 else "ntraces>1",
              "negative_peak" if case["sign"] < 0 else "positive_peak")
    if any(od.split_shift(s)[1] != 0 for s in shifts):
        ctx.nontrivial = True
    dt, nrep = case.get("dtype", "f8"), int(case.get("rep", 0))
    ctx.label("dtype_" + dt, "layout_" + case.get("layout", "C"), f"repeat{nrep}")
    # shift_waveform zeroes the NaNs of its argument in place (read-only arrays are rejected); there are none here
    wf_in = _layout(wf.astype(DT[dt]), case.get("layout", "C"))
    slope = od.spike_max_slope(comps)
    for r_ in range(1 + nrep):
        tag = "" if r_ == 0 else f" (call {r_ + 1} with the same array object)"
        r = ctx.call("C07.shift_waveform", sut.waveforms().shift_waveform, wf_in)
        if r is ctx.CRASH:
            return
        if not ctx.check(isinstance(r, tuple) and len(r) == 2 and np.shape(r[0]) == wf.shape and np.shape(r[1]) == (nsp,),
                         "C07.cluster_shape",
                         "shift_waveform does not return (array like the input, one shift per spike)" + tag):
            return
        out, sa = r
        d = float(np.max(np.abs(np.asarray(sa, dtype=np.float64) + applied)))
        ctx.stat("err_cluster_shift", d)
        ctx.check(d <= TOL_DELAY, "C07.cluster_shift",
                  lambda: f"members delayed by {applied.tolist()}{tag}: shift_applied {np.round(sa, 4).tolist()} is not "
                          f"minus that (off by {d:.3g} sample)")
        er = np.max(np.abs(np.asarray(out, dtype=np.float64) - normal[None]), axis=(0, 2)) / (np.abs(amps) * slope)
        er = float(np.max(er))
        ctx.stat("err_cluster_realign_over_slope", er)
        ctx.check(er <= TOL_DELAY + 1e-4, "C07.cluster_realign",
                  lambda: f"members delayed by {applied.tolist()}{tag}: re-aligned waveforms deviate from the unshifted "
                          f"ones by {er:.3g} x max slope")


# =================================================================================================
# mode: parabola

def _three_point(y, im):
    """(vertex position, vertex value) of the parabola through samples im-1, im, im+1 of the 1-D float64 array y,
    evaluated in extended precision: the docstring's 'parabolic interpolation around the maxima'."""
    ym, y0, yp = (od.LD(y[im - 1]), od.LD(y[im]), od.LD(y[im + 1]))
    a = (ym + yp) / 2 - y0
    b = (yp - ym) / 2
    if a == 0:
        return float(im), float(y0)
    v = -b / (2 * a)
    return float(im + v), float(y0 + b * v + a * v * v)


def _run_parabola(case, ctx):
    ns, rows = case["ns"], case["rows"]
    i = np.arange(ns)
    x = np.stack([r["a"] - r["b"] * (i - r["c"]) ** 2 for r in rows])
    dt, lay, nrep = case.get("dtype", "f8"), case.get("layout", "C"), int(case.get("rep", 0))
    ctx.label("parabola", "parabola_2d" if case["as2d"] else "parabola_1d", "dtype_" + dt, "layout_" + lay,
              f"repeat{nrep}")
    if dt in ("i4", "u2"):
        # integer samples (a cross-correlation of integer traces): the parabolas sampled on a grid of ~60000 levels
        span = max(float(np.max(x) - np.min(x)), 1e-9)
        x = np.round((x - (np.min(x) if dt == "u2" else np.mean(x))) * (60000.0 / span))
    x = x.astype(PDT[dt])
    pm = sut.utils().parabolic_max
    arg = x if case["as2d"] else x[0]
    ro = lay.startswith("ro")
    arg = _layout(arg, {"ro": "C", "ro_F": "F"}.get(lay, lay) if arg.ndim == 2 or lay in ("last", "neg") else "C")
    if ro:
        arg.flags.writeable = False
    arg0 = arg.copy()
    xs = np.asarray(x, dtype=np.float64)  # what was handed in, exactly
    exact = dt == "f8"
    for r_ in range(1 + nrep):
        tag = "" if r_ == 0 else f" (call {r_ + 1} with the same array object)"
        r = ctx.call("C07.parabolic_max", pm, arg)
        if r is ctx.CRASH:
            return
        _untouched(ctx, arg, arg0, "parabolic_max" + tag)
        if not ctx.check(isinstance(r, tuple) and len(r) == 2, "C07.parabola", "parabolic_max does not return a pair"):
            return
        ip, mx = r
        want_shape = (len(rows),) if case["as2d"] else ()
        if not ctx.check(np.shape(ip) == want_shape and np.shape(mx) == want_shape, "C07.parabola",
                         lambda: f"parabolic_max returns shapes {np.shape(ip)}, {np.shape(mx)} for input {arg.shape}"):
            return
        ip, mx = np.atleast_1d(ip).astype(float), np.atleast_1d(mx).astype(float)
        for j, row in enumerate(rows if case["as2d"] else rows[:1]):
            im = int(np.argmax(xs[j]))
            top = np.flatnonzero(xs[j] == xs[j, im])
            if not exact and top.size > 1 and not (top.size == 2 and top[1] == im + 1 and im > 0 and im + 1 < ns - 1):
                ctx.label("maximum_tied_skipped")  # first / last maximum conventions differ: not judged
                continue
            if im == 0 or im == ns - 1:
                ctx.label("vertex_at_edge")
                ctx.check(ip[j] == im and mx[j] == xs[j, im], "C07.parabola",
                          lambda: f"row {row}{tag}: maximum on the edge sample {im}, got ({ip[j]}, {mx[j]}) instead of "
                                  f"({im}, {xs[j, im]})")
                continue
            ctx.label("vertex_interior")
            if exact:
                if row["c"] != round(row["c"]):
                    ctx.nontrivial = True
                ei = abs(ip[j] - row["c"])
                em = abs(mx[j] - row["a"]) / (1 + abs(row["a"]))
                ctx.stat("err_parabola_vertex", ei)
                ctx.stat("err_parabola_value", em)
                ctx.check(ei <= 1e-6 and em <= 1e-6, "C07.parabola",
                          lambda: f"row {row} (ns={ns}){tag}: got vertex {ip[j]!r}, value {mx[j]!r}")
            else:
                ei_, em_ = _three_point(xs[j], im)
                if ei_ != im:
                    ctx.nontrivial = True
                ei = abs(ip[j] - ei_)
                em = abs(mx[j] - em_) / (1 + abs(em_))
                ctx.stat("err_parabola3_vertex", ei)
                ctx.stat("err_parabola3_value", em)
                ctx.check(ei <= 1e-6 and em <= 1e-6, "C07.parabola",
                          lambda: f"{dt} samples {xs[j, im - 1:im + 2].tolist()} around index {im} (ns={ns}, layout "
                                  f"{lay}){tag}: got vertex {ip[j]!r}, value {mx[j]!r}, the parabola through them has "
                                  f"({ei_!r}, {em_!r})")


# =================================================================================================
# mode: model

def _run_model(case, ctx):
    n, ntr = case["n"], case["ntraces"]
    rng = np.random.default_rng(case["seed"])
    fmax = (n - 1) // 2
    freq = np.r_[1, rng.integers(2, fmax + 1, size=case["ncomp"] - 1)] if fmax >= 2 else np.array([1])
    amp = rng.uniform(0.2, 1.0, size=freq.size)
    phase = rng.uniform(-np.pi, np.pi, size=freq.size)
    sdt = case.get("sdtype", "f8")
    spike = od.sines(n, freq, amp, phase, 0, 0.0).astype(DT[sdt])
    wxy = np.c_[rng.choice([11.0, 27.0, 43.0, 59.0], size=ntr), 20.0 * rng.integers(80, 110, size=ntr), np.zeros(ntr)]
    sxy = None if case["default_sxy"] else np.array([rng.uniform(0, 70), rng.uniform(1600, 2200), rng.uniform(0, 30)])
    ro, wlay, extra = bool(case.get("ro", False)), case.get("wlayout", "C"), case.get("extra")
    ctx.label("model", "model_1trace" if ntr == 1 else "model_multi", "spike_" + sdt, "wxy_" + wlay,
              "args_readonly" if ro else "args_writeable", "model_" + (extra or "plain"),
              "repeat1" if case.get("rep") else "repeat0")
    if ntr > 1:
        ctx.nontrivial = True
    gen = sut.model().generate_waveform
    # a float32 spike is the closed form rounded to 6e-8 of its amplitude; that noise also enters the delay fitted from the
    # 1-cycle component, and a component of f cycles magnifies a delay error f times: bound 6e-8 * (sum of amplitudes /
    # first amplitude <= 25) * n/2 = 2e-4 at n = 256 (measured: 2.6e-6 over the 118 000 cases of a thorough run)
    tol = 1e-9 if sdt == "f8" else 2e-4

    def hold(a, layout="C"):
        if a is None:
            return None
        a = _layout(np.array(a, copy=True), layout)
        if ro:
            a.flags.writeable = False
        return a

    def delayed_copies(out, what):
        """every row of out is a scaled, exactly delayed copy of the spike"""
        t = np.arange(n)
        worst = 0.0
        for j in range(out.shape[0]):
            b1 = np.sum(out[j] * np.exp(-2j * np.pi * t / n))
            alpha = abs(b1) * 2 / (n * amp[0])
            tau = (phase[0] - np.angle(b1)) * n / (2 * np.pi)
            k, f = od.split_shift(tau)
            e = alpha * od.sines(n, freq, amp, phase, k, f)
            worst = max(worst, _err(out[j], e) / max(alpha, 1e-300))
        ctx.stat("err_model_delay_" + sdt, worst)
        ctx.check(worst <= tol, "C07.model_delay",
                  lambda: f"{what}: a generated trace is not a delayed scaled copy of the spike (relative deviation "
                          f"{worst:.3g})")

    def is_waveform(out, nrows, ncols, what):
        return ctx.check(isinstance(out, np.ndarray) and out.ndim == 2 and out.dtype.kind == "f"
                         and (nrows is None or out.shape[0] == nrows) and (ncols is None or out.shape[1] == ncols)
                         and out.size > 0 and bool(np.all(np.isfinite(out))), "C07.model_shape",
                         lambda: f"{what} returns {type(out).__name__} of shape {getattr(out, 'shape', None)}, expected "
                                 f"{nrows} traces x {ncols} samples of finite floats")

    kw = dict(spike=hold(spike), sxy=hold(sxy), wxy=hold(wxy, wlay), fs=case["fs"],
              vertical_velocity_mps=case["vel"], decay_exponent=case["decay"])
    out = ctx.call("C07.model", gen, **kw)
    if out is ctx.CRASH:
        return
    if not is_waveform(out, ntr, n, "generate_waveform"):
        return
    delayed_copies(out, "generate_waveform")
    scale = float(np.max(np.abs(out)))
    if not ctx.check(np.isfinite(scale) and scale > 0, "C07.model_delay",
                     "generate_waveform returned an all-zero or non-finite array for a non-zero spike"):
        return
    if case.get("rep"):
        # the same argument objects once more: the answer computed from the untouched copies must come back
        out_r = ctx.call("C07.model", gen, **kw)
        if out_r is ctx.CRASH:
            return
        if is_waveform(out_r, ntr, n, "generate_waveform (second call with the same argument objects)"):
            er = _err(out_r, out) / scale
            ctx.check(er <= 1e-12, "C07.repeat_call",
                      lambda: f"generate_waveform called again with the same argument objects: result differs by "
                              f"{er:.3g} of its amplitude")
            delayed_copies(out_r, "generate_waveform (second call with the same argument objects)")
    if ntr > 1:
        perm = rng.permutation(ntr)
        kw2 = dict(kw, spike=hold(spike), wxy=hold(wxy[perm], wlay))
        out2 = ctx.call("C07.model", gen, **kw2)
        if out2 is ctx.CRASH:
            return
        if not is_waveform(out2, ntr, n, "generate_waveform (permuted coordinates)"):
            return
        ep = _err(out2, out[perm]) / scale
        ctx.stat("err_model_perm", ep)
        ctx.check(ep <= 1e-9, "C07.model_perm",
                  lambda: f"permuting the trace coordinates does not permute the generated traces (deviation {ep:.3g})")
    if extra == "omit":
        # fs, vertical_velocity_mps, decay_exponent left out == the defaults of the signature spelled out
        base = dict(spike=hold(spike), sxy=hold(sxy), wxy=hold(wxy, wlay))
        o1 = ctx.call("C07.model", gen, **base)
        o2 = ctx.call("C07.model", gen, spike=hold(spike), sxy=hold(sxy), wxy=hold(wxy, wlay), fs=30000,
                      vertical_velocity_mps=3, decay_exponent=3.0)
        if o1 is ctx.CRASH or o2 is ctx.CRASH:
            return
        if is_waveform(o1, ntr, n, "generate_waveform (defaults)") and is_waveform(o2, ntr, n, "generate_waveform"):
            delayed_copies(o1, "generate_waveform with fs, velocity and decay left at their defaults")
            ed = _err(o1, o2) / float(np.max(np.abs(o2)))
            ctx.check(ed <= 1e-12, "C07.model_defaults",
                      lambda: f"fs / vertical_velocity_mps / decay_exponent omitted differs from fs=30000, "
                              f"vertical_velocity_mps=3, decay_exponent=3.0 by {ed:.3g} of the amplitude")
    elif extra == "defwxy":
        # default trace coordinates: still delayed scaled copies of the spike handed in
        o1 = ctx.call("C07.model", gen, spike=hold(spike), fs=case["fs"], vertical_velocity_mps=case["vel"])
        if o1 is ctx.CRASH:
            return
        if is_waveform(o1, None, n, "generate_waveform (default coordinates)"):
            delayed_copies(o1, "generate_waveform with the default trace coordinates")
    elif extra == "defspike" and ntr > 1:
        # default spike: one row per coordinate, rows follow a permutation of the coordinates
        perm = rng.permutation(ntr)
        o1 = ctx.call("C07.model", gen, wxy=hold(wxy, wlay), sxy=hold(sxy))
        o2 = ctx.call("C07.model", gen, wxy=hold(wxy[perm], wlay), sxy=hold(sxy))
        if o1 is ctx.CRASH or o2 is ctx.CRASH:
            return
        if is_waveform(o1, ntr, None, "generate_waveform (default spike)") and \
                is_waveform(o2, ntr, o1.shape[1], "generate_waveform (default spike, permuted coordinates)"):
            ep = _err(o2, o1[perm]) / float(np.max(np.abs(o1)))
            ctx.check(ep <= 1e-6, "C07.model_perm",
                      lambda: f"default spike: permuting the trace coordinates does not permute the generated traces "
                              f"(deviation {ep:.3g})")


# =================================================================================================
# mode: scale (real-data sizes; every oracle is vectorised or known by construction)

def _scale_labels(ctx, kind, size):
    """size = length of the axis a blockwise implementation would cut (samples / waveforms / rows / spikes)"""
    ctx.label("scale", "scale_" + kind)
    for name, b in (("scale_2^16", 2 ** 16), ("scale_10^5", 10 ** 5), ("scale_10^6", 10 ** 6), ("scale_2^20", 2 ** 20),
                    ("scale_2^21", 2 ** 21)):
        if size > b:
            ctx.label(name)  # the axis crosses a seam at b
    if any(abs(size - b) <= 3 for b in _SEAMS + [2 ** 12, 2 ** 13, 10 ** 4, 2 ** 14, 2 ** 15, 5 * 10 ** 4, 2 * 10 ** 5]):
        ctx.label("scale_size_next_to_block")


def _near_seam(v, n, within=2):
    """True when sample index v lies within `within` samples of a multiple of a block size (or of the ends of the trace)"""
    v = int(v) % n
    return v <= within or v >= n - 1 - within or any(min(v % b, b - v % b) <= within for b in _SEAMS if b <= n)


def _orient(x2, orient, negaxis):
    """(array, axis) for a (traces, samples) float array: 1-D, traces as rows, or traces as columns"""
    if orient == "1d":
        return x2[0], (-1 if negaxis else 0)
    if orient == "cols":
        return x2.T, (-2 if negaxis else 0)
    return x2, (-1 if negaxis else 1)


def _run_scale_long(case, ctx):
    n, ntr, dt, op = case["n"], case["ntr"], case["dtype"], case["op"]
    _scale_labels(ctx, "long", n)
    rng = np.random.default_rng(case["seed"])
    if op["op"] == "shift":
        s = _mk_scalar(op["s"])
        parts = [(_val(s),)] * ntr
        tol, kind = _tol(dt, _val(s)), None
        ctx.label("scalar_" + op["s"]["st"])
    elif op["op"] == "compose":
        a, b = _mk_scalar(op["a"]), _mk_scalar(op["b"])
        parts = [(_val(a), _val(b))] * ntr
        tol, kind = _tol(dt, _val(a), _val(b)), "C07.compose"
        ctx.label("compose")
    else:
        vals = np.array([float(v) for v in op["values"]][:ntr], dtype=np.float64).astype(SDT[op["sdtype"]])
        exact = vals.astype(np.float64)
        parts = [(float(v),) for v in exact]
        tol, kind = _tol(dt, float(np.max(np.abs(exact)))), "C07.pertrace"
        ctx.label("pertrace", "pertrace_" + op["sdtype"], "pertrace_" + op["sshape"], "shiftmem_" + op["smem"])
    kfs = [od.split_shift(*p) for p in parts]
    anyfrac = any(od.split_shift(v)[1] != 0 for p in parts for v in p)
    kind = kind or ("C07.frac_delay" if anyfrac else "C07.int_roll")
    sig = case["sig"]
    if anyfrac and sig == "noise":
        sig = "impulses"  # no closed form for a fractional delay of white noise (and it has energy at Nyquist)
    nyq_free = anyfrac and n % 2 == 0
    ctx.label("scale_sig_" + sig, "shift_frac" if anyfrac else "shift_int", "dtype_" + dt,
              "n_even" if n % 2 == 0 else "n_odd", f"scale_ntr{ntr}", "spectral" if case["freq"] else "time")
    pos = sorted({int(p) % n for p in case["pos"]})
    t = np.arange(n)
    alt = 1.0 - 2.0 * (t % 2)
    x = np.zeros((ntr, n))
    e = np.zeros((ntr, n))
    kernels = {}
    for j, (k, f) in enumerate(kfs):
        if sig == "noise":
            x[j] = rng.uniform(-1.0, 1.0, n)
            x[j, pos] = rng.choice([-1.0, 1.0], size=len(pos))  # full-scale samples on the seams
            e[j] = np.roll(x[j], k)
        elif sig == "impulses":
            amps = rng.uniform(0.3, 1.0, len(pos)) * rng.choice([-1.0, 1.0], size=len(pos))
            amps[0] = 1.0
            x[j, pos] = amps
            if nyq_free:
                x[j] -= float(np.sum(amps * (1.0 - 2.0 * (np.array(pos) % 2)))) * alt / n  # empties the Nyquist bin
            if f == 0:
                e[j] = np.roll(x[j], k)
            else:
                if (k, float(f)) not in kernels:  # one Dirichlet kernel per shift, placed at every impulse
                    kernels[(k, float(f))] = od.delayed_impulse(n, k, f, nyq_free)
                e0 = kernels[(k, float(f))]
                for p, a_ in zip(pos, amps):
                    e[j] += a_ * np.roll(e0, p)
        else:
            fr, am, ph = _sine_params(rng, n, case["ncomp"], case["band"])
            x[j] = od.sines(n, fr, am, ph, 0, 0.0)
            e[j] = od.sines(n, fr, am, ph, k, f)
    # seam-relevant: the signal is dense, or an impulse (before or after the delay) sits next to a block boundary
    if sig != "impulses" or any(_near_seam(p, n) or _near_seam(p + k, n) for p in pos for k, _ in kfs):
        ctx.nontrivial = True
    xin, axis = _orient(x, case["orient"], case["negaxis"])
    ein = _orient(e, case["orient"], case["negaxis"])[0]
    xin = _layout(xin.astype(DT[dt]), case["layout"] if xin.ndim == 2 else "C")
    ax = axis % xin.ndim
    ctx.label("scale_" + case["orient"], "layout_" + case["layout"])
    sh = _Shifter(ctx, n, axis, case["freq"], dt, case.get("dim"))
    what = f"scale long n={n} traces={ntr} {case['orient']} axis={axis} {dt} signal={sig}"
    if op["op"] == "shift":
        y = sh(xin, s, f"{what} shift {s!r}")
    elif op["op"] == "compose":
        y = sh(xin, a, f"{what} compose first {a!r}")
        if y is not None:
            y = y.astype(DT[dt]) if case["freq"] else y
            y = sh(y, b, f"{what} compose second {b!r}")
    else:
        s_arr = _shape_pertrace(vals, op, xin.shape, ax)
        y = sh(xin, s_arr, f"{what} per-trace shifts {exact.tolist()}")
    if y is None:
        return
    d = np.abs(np.asarray(y, dtype=np.float64) - ein)
    err = float(np.max(d))
    ctx.stat("err_scale_long_over_tol_" + dt, err / tol)

    def where():
        i = np.unravel_index(int(np.argmax(d)), d.shape)
        return f"largest deviation {err:.3g} at index {tuple(int(v) for v in i)}"

    ctx.check(err <= tol, kind, lambda: f"{what}, shifts {parts[:2]}: result differs from the exact delay ({where()}, "
                                        f"tolerance {tol:.3g})")
    if not anyfrac and op["op"] != "compose":
        # integer shifts: the literal roll of the array that was handed in, trace by trace
        x64 = np.asarray(xin, dtype=np.float64)
        er = 0.0
        for j, (k, _) in enumerate(kfs):
            sl = (slice(None),) if xin.ndim == 1 else ((j, slice(None)) if ax == 1 else (slice(None), j))
            er = max(er, float(np.max(np.abs(np.asarray(y[sl], dtype=np.float64) - np.roll(x64[sl], k)))))
        ctx.stat("err_scale_long_roll_over_tol_" + dt, er / tol)
        ctx.check(er <= tol, "C07.int_roll" if kind != "C07.pertrace" else kind,
                  lambda: f"{what}, integer shifts {[k for k, _ in kfs]}: fshift(x, k) != roll(x, k) by {er:.3g}")


def _rows_shifts(rng, nw, ns, intonly):
    """one shift in (-ns, ns) per waveform: integers, half-integers, dyadic fractions, arbitrary doubles, sub-sample"""
    m = ns - 1
    k = rng.integers(-m, m + 1, nw).astype(np.float64)
    if intonly:
        return k
    kk = rng.integers(-m, m, nw).astype(np.float64)
    which = rng.integers(0, 5, nw)
    v = np.where(which == 0, k, kk + 0.5)
    v = np.where(which == 2, kk + rng.integers(1, 64, nw) / 64.0, v)
    v = np.where(which == 3, rng.uniform(-m, m, nw), v)
    return np.where(which == 4, rng.uniform(-1.0, 1.0, nw), v)


def _sines_rows(ns, freq, amp, phase, k, f):
    """od.sines for many rows at once: row r = sum_c amp[r,c] cos(2 pi freq[r,c] (t - k[r] - f[r]) / ns + phase[r,c]);
    the integer part of the argument is reduced modulo ns in integer arithmetic."""
    tk = np.arange(ns, dtype=np.int64)[None, :] - k.astype(np.int64)[:, None]
    out = np.zeros((len(k), ns))
    for c in range(freq.shape[1]):
        fr = freq[:, c].astype(np.int64)
        red = (fr[:, None] * tk) % ns
        out += amp[:, c, None] * np.cos(2 * np.pi * (red / ns) + (phase[:, c] - 2 * np.pi * fr * f / ns)[:, None])
    return out


def _run_scale_batch(case, ctx):
    ns, nw, dt, sig, shd = case["ns"], case["nw"], case["dtype"], case["sig"], case["shift"]
    _scale_labels(ctx, "batch", nw)
    ctx.nontrivial = True  # every waveform is different and (per-trace) has its own shift: any block of rows shows
    rng = np.random.default_rng(case["seed"])
    if shd["kind"] == "scalar":
        s = _mk_scalar(shd["s"])
        vals = None
        exact = np.full(nw, _val(s))
        ctx.label("scalar_" + shd["s"]["st"])
    else:
        vals = _rows_shifts(np.random.default_rng(shd["sseed"]), nw, ns, case["intonly"]).astype(SDT[shd["sdtype"]])
        exact = vals.astype(np.float64)
        ctx.label("pertrace", "pertrace_" + shd["sdtype"], "pertrace_" + shd["sshape"], "shiftmem_" + shd["smem"])
    k = np.round(exact)
    f = exact - k  # exact: |exact| < 128
    anyfrac = bool(np.any(f != 0))
    if anyfrac and sig == "noise_int":
        sig = "sines"
    ctx.label("scale_sig_" + sig, "shift_frac" if anyfrac else "shift_int", "dtype_" + dt, "layout_" + case["layout"],
              "scale_" + case["orient"], "n_even" if ns % 2 == 0 else "n_odd")
    t = np.arange(ns)
    if sig == "noise_int":
        x = rng.uniform(-1.0, 1.0, (nw, ns))
    else:
        fmax = (ns - 1) // 2
        lo = max(0, fmax - 2) if case["band"] == "top" else 0
        hi = min(fmax, 3) if case["band"] == "low" else fmax
        freq = rng.integers(lo, hi + 1, size=(nw, case["ncomp"]))
        amp = rng.uniform(0.1, 1.0, size=(nw, case["ncomp"]))
        amp /= amp.sum(axis=1, keepdims=True)
        phase = rng.uniform(-np.pi, np.pi, size=(nw, case["ncomp"]))
        x = _sines_rows(ns, freq, amp, phase, np.zeros(nw), np.zeros(nw))
    xin, axis = _orient(x, case["orient"], case["negaxis"])
    xin = _layout(xin.astype(DT[dt]), case["layout"])
    if sig == "noise_int":
        # any signal, integer shifts: the roll of each waveform as handed in, by its own number of samples
        e = np.take_along_axis(np.asarray(xin if case["orient"] != "cols" else xin.T, dtype=np.float64),
                               (t[None, :] - k.astype(np.int64)[:, None]) % ns, axis=1)
    else:
        e = _sines_rows(ns, freq, amp, phase, k, f)
    del x
    ax = axis % 2
    sh = _Shifter(ctx, ns, axis, False, dt, case.get("dim"))
    what = f"scale batch {nw} waveforms x {ns} samples {case['orient']} axis={axis} {dt} signal={sig}"
    if vals is None:
        y = sh(xin, s, f"{what} shift {s!r}")
    else:
        y = sh(xin, _shape_pertrace(vals, shd, xin.shape, ax), f"{what} one shift per waveform")
    if y is None:
        return
    y = np.asarray(y, dtype=np.float64)
    d = np.max(np.abs((y.T if case["orient"] == "cols" else y) - e), axis=1)
    err = float(np.max(d))
    tol = _tol(dt, float(np.max(np.abs(exact))))
    ctx.stat("err_scale_batch_over_tol_" + dt, err / tol)
    kind = "C07.pertrace" if vals is not None else ("C07.frac_delay" if anyfrac else "C07.int_roll")

    def detail():
        bad = np.flatnonzero(d > tol)
        return (f"{bad.size} waveforms are not delayed by their own shift, first {int(bad[0])} (shift "
                f"{exact[bad[0]]!r}), last {int(bad[-1])}, largest deviation {err:.3g}")

    ctx.check(err <= tol, kind, lambda: f"{what}: {detail()}")


def _run_scale_parabola(case, ctx):
    ns, nrows, dt, lay = case["ns"], case["nrows"], case["dtype"], case["layout"]
    _scale_labels(ctx, "parabola", nrows)
    ctx.label("parabola_2d", "dtype_" + dt, "layout_" + lay)
    rng = np.random.default_rng(case["seed"])
    a = rng.uniform(-100.0, 100.0, nrows)
    b = 10.0 ** rng.uniform(-3.0, 1.0, nrows)
    which = rng.integers(0, 3, nrows)
    c = np.where(which == 0, rng.uniform(-2.0, ns + 1.0, nrows), rng.integers(0, ns, nrows).astype(np.float64))
    c = np.where(which == 1, rng.uniform(0.51, ns - 1.51 if ns > 3 else 0.9, nrows), c)
    i = np.arange(ns)
    x = (a[:, None] - b[:, None] * (i[None, :] - c[:, None]) ** 2).astype(PDT[dt])
    arg = _layout(x, "F" if lay == "F" else "C")
    if lay == "ro":
        arg.flags.writeable = False
    arg0 = arg.copy()
    r = ctx.call("C07.parabolic_max", sut.utils().parabolic_max, arg)
    if r is ctx.CRASH:
        return
    _untouched(ctx, arg, arg0, "parabolic_max")
    if not ctx.check(isinstance(r, tuple) and len(r) == 2 and np.shape(r[0]) == (nrows,) and np.shape(r[1]) == (nrows,),
                     "C07.parabola", lambda: f"parabolic_max on {arg.shape} does not return two arrays of {nrows} values"):
        return
    ip, mx = np.asarray(r[0], dtype=np.float64), np.asarray(r[1], dtype=np.float64)
    xs = np.asarray(x, dtype=np.float64)
    rows = np.arange(nrows)
    im = np.argmax(xs, axis=1)
    top = xs[rows, im]
    edge = (im == 0) | (im == ns - 1)
    inner = ~edge
    iml, imr = np.maximum(im - 1, 0), np.minimum(im + 1, ns - 1)
    if dt == "f8":
        judged = inner
        vi, vm = c, a  # by construction
    else:
        # rounded samples: the parabola through the three samples actually passed; rows whose maximum occurs twice
        # are judged only when the two are adjacent interior samples (as in the small cases)
        ntop = np.sum(xs == top[:, None], axis=1)
        judged = inner & ((ntop == 1) | ((ntop == 2) & (xs[rows, imr] == top) & (imr < ns - 1)))
        ym, y0, yp = xs[rows, iml].astype(od.LD), top.astype(od.LD), xs[rows, imr].astype(od.LD)
        pa = (ym + yp) / 2 - y0
        pb = (yp - ym) / 2
        v = np.where(pa == 0, od.LD(0), -pb / np.where(pa == 0, od.LD(1), 2 * pa))
        vi, vm = (im + v).astype(np.float64), (y0 + pb * v + pa * v * v).astype(np.float64)
    ctx.nontrivial = bool(np.any(judged & (vi != np.round(vi))))
    bad_edge = edge & ~((ip == im) & (mx == top))
    ei = np.where(judged, np.abs(ip - vi), 0.0)
    em = np.where(judged, np.abs(mx - vm) / (1 + np.abs(vm)), 0.0)
    ei[~np.isfinite(ei)] = np.inf
    em[~np.isfinite(em)] = np.inf
    ctx.label("vertex_at_edge" if np.any(edge) else "no_edge_row", "vertex_interior")
    ctx.stat("err_scale_parabola_vertex", float(np.max(ei)))
    ctx.stat("err_scale_parabola_value", float(np.max(em)))
    bad = bad_edge | (ei > 1e-6) | (em > 1e-6)

    def detail():
        w = np.flatnonzero(bad)
        j = int(w[0])
        return (f"{w.size} of {nrows} rows wrong (first {j}, last {int(w[-1])}); row {j}: samples around the maximum "
                f"{xs[j, iml[j]:imr[j] + 1].tolist()} at index {int(im[j])} (ns={ns}, {dt}, layout {lay}), got vertex "
                f"{ip[j]!r}, value {mx[j]!r}, expected ({(vi[j] if inner[j] else im[j])!r}, "
                f"{(vm[j] if inner[j] else top[j])!r})")

    ctx.check(not np.any(bad), "C07.parabola", detail)


def _run_scale_cluster(case, ctx):
    comps, nsp, ntr, dt = case["comps"], case["nspikes"], case["ntraces"], case["dtype"]
    _scale_labels(ctx, "cluster", nsp)
    rng = np.random.default_rng(case["seed"])
    smax = float(case["smax"])
    delays = rng.uniform(-2, 2, size=ntr)
    n, c = _spike_window(comps, smax + 2, case["pad"], case["extra"], case["coff"])
    amps = rng.uniform(0.05, 0.7, size=ntr) * rng.choice([-1.0, 1.0], size=ntr)
    ipk = int(rng.integers(0, ntr))
    amps[ipk] = 1.0
    amps *= case["sign"]
    delays[ipk] = 0.0
    # a minority (30 %) of the spikes is delayed, each by its own amount: the median template stays the undelayed one
    member = rng.random(nsp) < 0.3
    idx = np.arange(nsp)
    for b in (2 ** 10, 2 ** 12, 2 ** 13, 2 ** 14, 2 ** 15, 2 ** 16, 10 ** 3, 10 ** 4):
        member |= np.minimum(idx % b, b - idx % b) <= 1  # and every spike on / next to a multiple of a block size
    member[:2] = True
    member[-2:] = True
    which = rng.integers(0, 3, nsp)
    applied = np.where(which == 0, rng.uniform(-smax, smax, nsp),
                       np.where(which == 1, rng.integers(-int(smax), int(smax) + 1, nsp).astype(np.float64),
                                np.round(rng.uniform(-smax, smax, nsp), 2)))
    applied = np.where(member, applied, 0.0)
    t = np.arange(n)
    normal = np.stack([amps[j] * od.spike(t - delays[j], c, comps) for j in range(ntr)])  # (trace, time)
    wf = amps[None, :, None] * od.spike(t[None, None, :] - delays[None, :, None] - applied[:, None, None], c, comps)
    ctx.label("cluster", "ntraces1" if ntr == 1 else "ntraces>1", "dtype_" + dt, "layout_" + case["layout"],
              "negative_peak" if case["sign"] < 0 else "positive_peak")
    ctx.nontrivial = True
    wf_in = _layout(wf.astype(DT[dt]), case["layout"])
    del wf
    slope = od.spike_max_slope(comps)
    r = ctx.call("C07.shift_waveform", sut.waveforms().shift_waveform, wf_in)
    if r is ctx.CRASH:
        return
    if not ctx.check(isinstance(r, tuple) and len(r) == 2 and np.shape(r[0]) == wf_in.shape and np.shape(r[1]) == (nsp,),
                     "C07.cluster_shape", "shift_waveform does not return (array like the input, one shift per spike)"):
        return
    out, sa = r
    dd = np.abs(np.asarray(sa, dtype=np.float64) + applied)
    d = float(np.max(dd))
    ctx.stat("err_scale_cluster_shift", d)
    ctx.check(d <= TOL_DELAY, "C07.cluster_shift",
              lambda: f"{nsp} spikes, {int(member.sum())} delayed by up to {smax}: shift_applied is not minus the delay "
                      f"for {int(np.sum(dd > TOL_DELAY))} spikes, first {int(np.argmax(dd > TOL_DELAY))} (applied "
                      f"{applied[int(np.argmax(dd > TOL_DELAY))]!r}, returned {sa[int(np.argmax(dd > TOL_DELAY))]!r})")
    er = np.max(np.abs(np.asarray(out, dtype=np.float64) - normal[None]), axis=2) / (np.abs(amps) * slope)[None, :]
    erm = float(np.max(er))
    ctx.stat("err_scale_cluster_realign_over_slope", erm)
    ctx.check(erm <= TOL_DELAY + 1e-4, "C07.cluster_realign",
              lambda: f"{nsp} spikes: re-aligned waveforms deviate from the unshifted ones by {erm:.3g} x max slope "
                      f"(first spike {int(np.argmax(np.max(er, axis=1) > TOL_DELAY + 1e-4))})")


def _run_scale_corrmax(case, ctx):
    n, comps, s, dt, scale = case["n"], case["comps"], case["s"], case["dtype"], case["scale"]
    _scale_labels(ctx, "corrmax", n)
    rng = np.random.default_rng(case["seed"])
    hw = od.spike_halfwidth(comps)
    marg = int(np.ceil(hw + abs(s) + 4))  # the spike and its delayed copy stay inside the trace
    reach = int(np.ceil(13 * max(cp[1] for cp in comps) + max(abs(cp[2]) for cp in comps) + abs(s))) + 4  # exp(-84) beyond
    cents, amps = [], []
    for i, p in enumerate(case["pos"]):
        p = min(max(int(p), marg), n - 1 - marg)
        if all(abs(p - q) > 2 * reach + 2 for q in cents):  # separate spikes: the correlation peak keeps its shape
            cents.append(p)
            amps.append(1.0 if i == 0 else float(rng.uniform(0.1, 0.35)) * float(rng.choice([-1.0, 1.0])))
    ctx.label("corrmax", "dtype_" + dt, "copy_" + case["copy"], f"scale_nspikes{len(cents)}",
              "n_even" if n % 2 == 0 else "n_odd")
    k, f = od.split_shift(s)
    ctx.label("shift_frac" if f != 0 else "shift_int")
    if any(_near_seam(p, n, reach) or abs(p - n // 2) <= reach for p in cents):  # a spike straddles a block boundary
        ctx.nontrivial = True

    def trace(delay):
        out = np.zeros(n)
        for p, a_ in zip(cents, amps):
            lo, hi = max(0, p - reach), min(n, p + reach + 1)
            out[lo:hi] += a_ * od.spike(np.arange(lo, hi) - delay, p + case["coff"], comps)
        return scale * out

    x = trace(0.0).astype(DT[dt])
    if case["copy"] == "fshift":
        x0 = x.copy()
        x2 = ctx.call("C07.fshift", sut.fourier().fshift, x, s)
        if x2 is ctx.CRASH:
            return
        _untouched(ctx, x, x0, "fshift(long trace)")
        if not ctx.check(isinstance(x2, np.ndarray) and x2.shape == x.shape and x2.dtype == x.dtype, "C07.shape_dtype",
                         lambda: f"fshift({x.dtype}{x.shape}) -> {getattr(x2, 'dtype', None)}{getattr(x2, 'shape', None)}"):
            return
        ea = _err(x2, trace(s)) / abs(scale)
        ctx.stat("err_scale_spike_fshift_vs_analytic", ea)
        ctx.check(ea <= 1e-4, "C07.frac_delay", lambda: f"n={n}: fshift(trace of spikes at {cents}, {s}) differs from the "
                                                       f"analytically delayed trace by {ea:.3g} of its amplitude")
    else:
        x2 = trace(s).astype(DT[dt])
    xa, xb = x.copy(), x2.copy()
    r = ctx.call("C07.corrmax", sut.waveforms().wave_shift_corrmax, x, x2)
    if r is ctx.CRASH:
        return
    _untouched(ctx, x, xa, "wave_shift_corrmax(trace, .)")
    _untouched(ctx, x2, xb, "wave_shift_corrmax(., trace2)")
    if not ctx.check(isinstance(r, tuple) and len(r) == 2 and np.ndim(r[1]) == 0 and np.shape(r[0]) == x.shape,
                     "C07.corrmax_shape", "wave_shift_corrmax does not return (array like the input, scalar)"):
        return
    rs, sc = r
    slope = abs(scale) * od.spike_max_slope(comps)
    d = abs(float(sc) - s)
    ctx.stat("err_scale_corrmax_shift", d)
    ctx.check(d <= TOL_DELAY, "C07.corrmax_shift",
              lambda: f"n={n} spikes at {cents} comps={comps} applied shift {s}: estimated {float(sc):.4f} (off by "
                      f"{d:.3g} sample)")
    er = _err(rs, np.asarray(xa, dtype=np.float64))
    ctx.stat("err_scale_corrmax_realign_over_slope", er / slope)
    ctx.check(er <= TOL_DELAY * slope + 1e-5 * abs(scale), "C07.corrmax_realign",
              lambda: f"n={n} spikes at {cents} comps={comps} shift {s}: re-aligned copy deviates from the original by "
                      f"{er:.3g} = {er / slope:.3g} x max slope")


_SCALE = {"long": _run_scale_long, "batch": _run_scale_batch, "parabola": _run_scale_parabola,
          "cluster": _run_scale_cluster, "corrmax": _run_scale_corrmax}


def _run_scale(case, ctx):
    _SCALE[case["kind"]](_scale_params(case), ctx)


_MODES = {"basis": _run_basis, "sines": _run_sines, "corrmax": _run_corrmax, "cluster": _run_cluster,
          "parabola": _run_parabola, "model": _run_model, "scale": _run_scale}


def run_case(case, ctx):
    _MODES[case["mode"]](case, ctx)
