"""Generators shared by the checks."""
import bisect
import itertools


def weighted(*pairs):
    """weighted((w1, strategy1), (w2, strategy2), ...): draws from strategy_i with probability ~ w_i / sum(w).

    st.one_of(*([a] * 9 + [b])) does NOT do that: one_of removes duplicate branches, so a and b come out half and half."""
    from hypothesis import strategies as st
    cum = list(itertools.accumulate(w for w, _ in pairs))
    strs = [s for _, s in pairs]
    return st.integers(0, cum[-1] - 1).flatmap(lambda k: strs[bisect.bisect_right(cum, k)])
